#!/bin/sh
# One-time offline build after a fresh restore: full .vo build of the Coq development
# (which also writes the extracted OCaml models) and the extraction drivers.
set -e
cd /verif
mkdir -p build/logs evidence replays
export PYTHONPATH=/repo/src PYTHONHASHSEED=0 PYTHONWARNINGS=ignore
# translator-generated files (regenerated again by every check)
/venv/bin/python harness/regen_all.py > build/logs/setup_translate.log 2>&1 || true
harness/gen_coqproject.sh
# -k: a proof file that no longer compiles must not stop the rest from building; the check of every
# property whose closure contains it reports the broken obligation itself. Only the extraction
# targets (needed by the drivers below) are required here.
( cd coq && timeout 3000 make -j16 -k ) > build/logs/setup_make.log 2>&1 || { echo "setup: some .vo files did not build (reported by the checks that depend on them):"; grep -E "^File|Error" build/logs/setup_make.log | head -10; }
/venv/bin/python - <<'PY'
import sys; sys.path.insert(0,'/verif/harness')
import common as C, glob, os
for f in sorted(glob.glob('/verif/coq/Extract/drv_*.ml')):
    pid=os.path.basename(f)[4:-3]
    exe,err=C.build_driver(pid)
    print(pid, 'driver', 'ok' if exe else 'FAILED: '+err[-300:])
    if exe is None: sys.exit(1)
PY
echo setup done
