"""Fail-closed translator: construction over a graph that already carries managed features  ->  coq/Gen/Ctor_gen.v

Sources (below $VERIF_REPO/src/funtracks, default /repo) and what is translated, in this order:
  annotators/_track_annotator.py  class TrackAnnotator:
      _get_max_id_and_map        whole method                         -> gen_TrackAnnotator_get_max_id_and_map
      __init__                   from the statement `self.tracklet_id_to_nodes: dict[int, list[int]] = {}` to the
                                 end of the method (the bookkeeping)  -> gen_TrackAnnotator_init_books
                                 (the statements before it must be, literally, INIT_PREFIX below: they are NOT
                                  translated; they fix self.tracks / self.tracklet_key / self.lineage_key)
  data_model/tracks.py            class Tracks:
      _check_existing_feature    whole method                         -> gen_Tracks_check_existing_feature
      _setup_core_computed_features   ONLY its last statement, the loop `for key in core_computed_features:`,
                                 as a function of the list it iterates -> gen_Tracks_setup_core_loop
                                 (the statements before it -- the import and the loop over the annotators that
                                  fills core_computed_features and writes features.position_key / tracklet_key /
                                  lineage_key -- are NOT translated; the translator only requires that the list is
                                  introduced by `core_computed_features: list[str] = []` and that the translated
                                  loop is the last statement of the method)
One Gallina definition each, in the `res` monad of Model/Edit.v over the model state.  Proofs/CtorTie.v proves every
generated definition equal to the hand-written model (Model/EditCtor.v: scan_ids, scan_books, first_has, ctor_step),
so a change of the Python changes the generated text and un-hooks the tie.

The callees `self.annotators.all_features`, `self.annotators.activate_features`, `self.enable_features` are the
definitions of Gen/Toggle_gen.v (translated from the same tree by translate_toggle.py, tied in Proofs/ToggleTie.v):
this translator first runs translate_toggle.main on the same tree and refuses when that one refuses.

Anything not listed below raises `Unsupported("<file>:<line>: ...")`; nothing is guessed or skipped.
This table, the emitter below and Model/PyRt9.v (+ the reused combinators it lists) are the trusted part.

CLOSED IDIOM TABLE        (s = the model state = the Tracks object with everything reachable from it;
                           Python variable x = Gallina variable v_x; re-assignment = shadowing `let`;
                           every definition lives in `res`: an exception is an Err carrying the state at the raise)
 -- skipped (nothing else is)
 docstrings; comments; parameter / return annotations (parameters: only `key: str`); the annotation of a local
 `x: T = e` must be one of `int`, `list[str]`, `dict[int, list[int]]` and is otherwise ignored, EXCEPT in the
 get_node_attr idiom below where `int` is required.  Decorators are Unsupported.  SolutionTracks must not define
 _check_existing_feature, _setup_core_computed_features, enable_features, nodes or get_node_attr; Tracks.nodes must be
 literally `return np.array(self.graph.nodes())` and Tracks.get_node_attr literally the `required` / `.get(attr, None)`
 two-way return; Tracks.enable_features must have the signature (self, feature_keys: list[str], recompute: bool = True);
 GraphAnnotator.__init__ must start with `self.tracks = tracks`; _track_annotator.py must import defaultdict from
 collections and nothing at module level may rebind it.
 -- objects (receivers)
 self            in TrackAnnotator           the annotator; self.tracks (and the parameter `tracks` of __init__) is the state s
 self.tracklet_key / self.lineage_key        KTrack / KLin   (interned; INIT_PREFIX is what makes them the feature keys)
 lineage_key     (parameter of __init__, str | None)     KLin;  `lineage_key is not None` = negb (key_is_none KLin)   (PyRt.v)
 self.tracklet_id_to_nodes / lineage_id_to_nodes / max_tracklet_id / max_lineage_id  = e     (write only; e a local dict
                                             made by dict(..) or returned by _get_max_id_and_map, the literal {} (= []), or an int)
                                             let s := set_trk_book / set_lin_book / set_max_trk / set_max_lin s e in ..   (PyRt3.v)
 self            in Tracks                   the state s
 T.graph                                     the graph of s
 T.annotators                                the registry;   R.all_features = gen_AnnotatorRegistry_all_features s   (Toggle_gen)
 T.features                                  features_of s / put_features s d                                        (PyRt4.v)
 -- statements
 x = e;  x: T = e                            let v_x := e in ..
 x: int = T.get_node_attr(n, k)              do t, s <- py_node_attr_get_z s n k; let v_x := t in ..    (x : option Z -- PyRt3.v:
                                             graph.nodes[n].get(k, None) read as an id: missing, None and non-integer
                                             values read None; KeyError for a node that is not in the graph)
 a, b = self._get_max_id_and_map(K)          do t, s <- gen_TrackAnnotator_get_max_id_and_map s K; let '(v_a, v_b) := t in ..
 a, _ = R.all_features[k]                    do t, s <- py_dict_get s k (gen_AnnotatorRegistry_all_features s); let '(v_a, _) := t in ..   (KeyError)
 T.features[k] = v    (v a Feature)          let s := put_features s (set k v (features_of s)) in ..
 d[i].append(n)       (d a local defaultdict(list), i an int, n a node)      let v_d := dd_append i n v_d in ..      (PyRt8.v)
 R.activate_features(l)                      do _u, s <- gen_AnnotatorRegistry_activate_features s l; ..             (Toggle_gen)
 T.enable_features(l)                        do _u, s <- gen_Tracks_enable_features s l true ctrk clin; ..           (Toggle_gen; the default
                                             recompute=True is checked in the source; ctrk, clin: the weakly_connected_components oracle)
 if c: A else: B ; rest                      <bindings of c> if c then <A; rest> else <B; rest>      (the rest is duplicated)
 if x is None: / if x is not None:  (x : option Z)      match v_x with None => .. | Some v_x => .. end
 for x in L: body ; rest                     bind (py_for L <carried> s (fun v_x <carried> s => body)) (fun <carried> s => rest)
                                             L: T.nodes() (= tracks_nodes s, PyRt8.v; x a node) or a local list of keys;
                                             <carried> = the locals the body assigns that exist before the loop (their types
                                             must not change); no return / break inside a loop
 continue                                    (last statement of a block inside a loop)  Ok <carried> s
 return e                                    Ok e s ;   falling off the end: Ok tt s
 -- expressions (a raising sub-expression is bound first: do t, s <- ..; only where evaluation is unconditional)
 True False  <non-negative int literal>      true false (n)
 a > b, >=, <, <=, ==, !=   (ints)           (a >? b) .. (a =? b) (negb (a =? b))
 c1 and c2 / c1 or c2 / not c                (c1 && c2) / (c1 || c2) / (negb c)          (c2 must not raise)
 k in T.features / k not in T.features       haskey k (features_of s) / negb ..
 k in S  (S a set / list of keys)            memz k S
 [k]                                         [k]
 a, b    (int, dict)                         (a, b)
 defaultdict(list)                           dd_new                                       (PyRt8.v)
 dict(d)                                     d          (a copy; dicts are values)
 G.number_of_nodes()                         nx_number_of_nodes s                          (PyRt9.v)
 next(iter(G.nodes()))                       do t, s <- py_next (nx_nodes s) s; ..        (PyRt.v: StopIteration reads EKey)
 G.nodes[n]                                  do t, s <- nx_node_view s n; ..              (PyRt9.v: KeyError)
 a.keys()   (a the attribute dict of a node) keys a
 set(l)     (l a list of keys)               py_set l                                      (PyRt4.v)
 self._check_existing_feature(k)             do t, s <- gen_Tracks_check_existing_feature s k; ..
"""
import ast
import hashlib
import os
import sys

sys.path.insert(0, os.path.dirname(os.path.abspath(__file__)))
import translate_toggle as TT
from translate_toggle import Unsupported, cname, ind, is_docstring, is_none, members

REPO = os.environ.get("VERIF_REPO", "/repo")
OUT = "/verif/coq/Gen/Ctor_gen.v"

TA_FILE = "annotators/_track_annotator.py"
TR_FILE = "data_model/tracks.py"
ST_FILE = "data_model/solution_tracks.py"
GA_FILE = "annotators/_graph_annotator.py"

# the untranslated head of TrackAnnotator.__init__ (ast.unparse of each statement)
INIT_PREFIX = [
    "if not isinstance(tracks, SolutionTracks):\n    raise ValueError('Currently the TrackAnnotator only works on SolutionTracks')",
    "self.tracks: SolutionTracks",
    "self.tracklet_key = tracklet_key if tracklet_key is not None else DEFAULT_TRACKLET_KEY",
    "self.lineage_key = lineage_key if lineage_key is not None else DEFAULT_LINEAGE_KEY",
    "feats = {self.tracklet_key: TrackletID(), self.lineage_key: LineageID()}",
    "super().__init__(tracks, feats)",
]
INIT_ARGS = "self, tracks: SolutionTracks, tracklet_key: str | None=DEFAULT_TRACKLET_KEY, lineage_key: str | None=DEFAULT_LINEAGE_KEY"
INIT_FIRST = "self.tracklet_id_to_nodes: dict[int, list[int]] = {}"
NODES_BODY = ["return np.array(self.graph.nodes())"]
GET_NODE_ATTR_ARGS = "self, node: Node, attr: str, required: bool=False"
GET_NODE_ATTR_BODY = ["if required:\n    return self.graph.nodes[node][attr]\nelse:\n    return self.graph.nodes[node].get(attr, None)"]
ENABLE_ARGS = "self, feature_keys: list[str], recompute: bool=True"
CORE_LIST_DECL = "core_computed_features: list[str] = []"
NO_OVERRIDE_ST = {"_check_existing_feature", "_setup_core_computed_features", "enable_features", "nodes", "get_node_attr"}
LOCAL_ANNOT = {"int", "list[str]", "dict[int, list[int]]"}
BOOKFIELDS = {"tracklet_id_to_nodes": ("set_trk_book", "book"), "lineage_id_to_nodes": ("set_lin_book", "book"),
              "max_tracklet_id": ("set_max_trk", "int"), "max_lineage_id": ("set_max_lin", "int")}

COQTY = {"key": "Z", "int": "Z", "optint": "option Z", "node": "Z", "keys": "list Z", "bool": "bool", "ddict": "dict (list Z)",
         "book": "dict (list Z)", "pair": "(Z * dict (list Z))", "attrs": "attrs", "set": "list Z", "ftype": "ftype",
         "entry": "(ftype * bool)", "unit": "unit"}
CMP = {ast.Gt: ">?", ast.GtE: ">=?", ast.Lt: "<?", ast.LtE: "<=?", ast.Eq: "=?"}

CUR = {"file": "?", "n": 0, "done": set(), "ret": set(), "oracle": False, "cls": None}


class V:
    def __init__(self, coq, ty, fresh=False):
        self.coq, self.ty, self.fresh = coq, ty, fresh


def fail(node, why):
    raise Unsupported("%s:%s: %s: %s" % (CUR["file"], getattr(node, "lineno", "?"), why,
                                         ast.dump(node)[:160] if isinstance(node, ast.AST) else node))


def fresh(prefix):
    CUR["n"] += 1
    return "%s%d" % (prefix, CUR["n"])


def need(name):
    if name not in CUR["done"]:
        raise Unsupported("%s: reference to %s before its translation" % (CUR["file"], name))
    return name


def is_graph_nodes_call(n, env):
    """G.nodes()"""
    return (isinstance(n, ast.Call) and not n.args and not n.keywords and isinstance(n.func, ast.Attribute) and n.func.attr == "nodes"
            and obj(n.func.value, env) == "GRAPH")


def obj(n, env):
    """the object an expression denotes: TRACKS / GRAPH / REGISTRY / FEATURES / SELF_TA, or None"""
    if isinstance(n, ast.Name) and n.id in env and env[n.id].ty in ("TRACKS", "SELF_TA"): return env[n.id].ty
    if isinstance(n, ast.Attribute):
        b = obj(n.value, env)
        if b == "SELF_TA" and n.attr == "tracks": return "TRACKS"
        if b == "TRACKS" and n.attr == "graph": return "GRAPH"
        if b == "TRACKS" and n.attr == "annotators": return "REGISTRY"
        if b == "TRACKS" and n.attr == "features": return "FEATURES"
    return None


# --------------------------------------------------------------------------- expressions
def ex(n, env, pre):
    """translate an expression; `pre` collects the raising sub-expressions (name, term) that must be bound first, in
    evaluation order (None: a raising sub-expression is not allowed here)"""

    def hoist(term, ty):
        if pre is None: fail(n, "raising expression not allowed in this position")
        x = fresh("t")
        pre.append((x, term))
        return V(x, ty)

    if isinstance(n, ast.Constant):
        if type(n.value) is bool: return V("true" if n.value else "false", "bool")
        if type(n.value) is int and n.value >= 0: return V("(%d)" % n.value, "int")
        fail(n, "constant")
    if isinstance(n, ast.Name):
        if n.id in env and env[n.id].ty in COQTY: return env[n.id]
        if n.id in env and env[n.id].ty == "optkey": fail(n, "an optional key can only be tested against None")
        fail(n, "unknown (or possibly unbound) variable, or an object used as a value")
    if isinstance(n, ast.Attribute):
        b = obj(n.value, env)
        if b == "SELF_TA" and n.attr == "tracklet_key": return V("KTrack", "key")
        if b == "SELF_TA" and n.attr == "lineage_key": return V("KLin", "key")
        if b == "REGISTRY" and n.attr == "all_features": return V("(%s s)" % need("gen_AnnotatorRegistry_all_features"), "table")
        fail(n, "attribute")
    if isinstance(n, ast.List) and len(n.elts) == 1 and isinstance(n.ctx, ast.Load):
        e = ex(n.elts[0], env, pre)
        if e.ty != "key": fail(n, "list literal of a non-key")
        return V("[%s]" % e.coq, "keys", fresh=True)
    if isinstance(n, ast.Tuple) and len(n.elts) == 2 and isinstance(n.ctx, ast.Load):
        a, b = ex(n.elts[0], env, pre), ex(n.elts[1], env, pre)
        if a.ty == "int" and b.ty == "book": return V("(%s, %s)" % (a.coq, b.coq), "pair")
        fail(n, "tuple of (%s, %s)" % (a.ty, b.ty))
    if isinstance(n, ast.Subscript) and isinstance(n.ctx, ast.Load):
        o = n.value
        if isinstance(o, ast.Attribute) and o.attr == "nodes" and obj(o.value, env) == "GRAPH":
            i = ex(n.slice, env, pre)
            if i.ty != "node": fail(n, "graph.nodes[..] of a non-node")
            return hoist("nx_node_view s %s" % i.coq, "attrs")
        d = ex(o, env, pre); k = ex(n.slice, env, pre)
        if d.ty == "table" and k.ty == "key": return hoist("py_dict_get s %s %s" % (k.coq, d.coq), "entry")
        fail(n, "subscript")
    if isinstance(n, ast.UnaryOp) and isinstance(n.op, ast.Not):
        v = ex(n.operand, env, pre)
        if v.ty != "bool": fail(n, "not of a non-boolean")
        return V("(negb %s)" % v.coq, "bool")
    if isinstance(n, ast.BoolOp) and len(n.values) >= 2:
        vs = [ex(n.values[0], env, pre)] + [ex(x, env, None) for x in n.values[1:]]      # short-circuit: the others must not raise
        if any(v.ty != "bool" for v in vs): fail(n, "and / or of a non-boolean")
        op = " && " if isinstance(n.op, ast.And) else " || "
        t = vs[-1].coq
        for v in reversed(vs[:-1]): t = "(%s%s%s)" % (v.coq, op, t)
        return V(t, "bool")
    if isinstance(n, ast.Compare) and len(n.ops) == 1:
        op, l, r = n.ops[0], n.left, n.comparators[0]
        if isinstance(op, (ast.Is, ast.IsNot)) and is_none(r):
            if isinstance(l, ast.Name) and l.id in env and env[l.id].ty == "optkey":
                t = "(key_is_none %s)" % env[l.id].coq
                return V(t if isinstance(op, ast.Is) else "(negb %s)" % t, "bool")
            fail(n, "None test (only as the whole condition of an `if`, on a local int-or-None)")
        if isinstance(op, (ast.In, ast.NotIn)):
            k = ex(l, env, pre)
            if k.ty != "key": fail(n, "membership test of a non-key")
            if obj(r, env) == "FEATURES": t = "(haskey %s (features_of s))" % k.coq
            else:
                d = ex(r, env, pre)
                if d.ty in ("set", "keys"): t = "(memz %s %s)" % (k.coq, d.coq)
                else: fail(n, "membership test in %s" % d.ty)
            return V(t if isinstance(op, ast.In) else "(negb %s)" % t, "bool")
        if type(op) in CMP or isinstance(op, ast.NotEq):
            a, b = ex(l, env, pre), ex(r, env, pre)
            if a.ty != "int" or b.ty != "int": fail(n, "comparison of %s with %s" % (a.ty, b.ty))
            if isinstance(op, ast.NotEq): return V("(negb (%s =? %s))" % (a.coq, b.coq), "bool")
            return V("(%s %s %s)" % (a.coq, CMP[type(op)], b.coq), "bool")
        fail(n, "comparison")
    if isinstance(n, ast.Call):
        f, args = n.func, n.args
        if n.keywords: fail(n, "keyword arguments")
        if isinstance(f, ast.Name):
            if f.id in env: fail(n, "call of a local")
            if f.id == "defaultdict" and len(args) == 1 and isinstance(args[0], ast.Name) and args[0].id == "list" and "list" not in env:
                return V("(dd_new (A := Z))", "ddict", fresh=True)
            if f.id == "next" and len(args) == 1:
                a = args[0]
                if (isinstance(a, ast.Call) and isinstance(a.func, ast.Name) and a.func.id == "iter" and "iter" not in env and len(a.args) == 1
                        and not a.keywords and is_graph_nodes_call(a.args[0], env)):
                    return hoist("py_next (nx_nodes s) s", "node")
                fail(n, "next(..)")
            if len(args) == 1 and f.id in ("dict", "set"):
                v = ex(args[0], env, pre)
                if f.id == "dict" and v.ty in ("ddict", "book"): return V(v.coq, "book", fresh=True)
                if f.id == "set" and v.ty == "keys": return V("(py_set %s)" % v.coq, "set", fresh=True)
            fail(n, "call of %s" % f.id)
        if isinstance(f, ast.Attribute):
            o = obj(f.value, env)
            if o == "GRAPH" and f.attr == "number_of_nodes" and not args: return V("(nx_number_of_nodes s)", "int")
            if o == "SELF_TA" and f.attr == "_get_max_id_and_map" and len(args) == 1:
                k = ex(args[0], env, pre)
                if k.ty != "key": fail(n, "argument of _get_max_id_and_map")
                return hoist("%s s %s" % (need("gen_TrackAnnotator_get_max_id_and_map"), k.coq), "pair")
            if o == "TRACKS" and f.attr == "_check_existing_feature" and len(args) == 1 and CUR["cls"] == "Tracks":
                k = ex(args[0], env, pre)
                if k.ty != "key": fail(n, "argument of _check_existing_feature")
                return hoist("%s s %s" % (need("gen_Tracks_check_existing_feature"), k.coq), "bool")
            if o is None and f.attr == "keys" and not args:
                d = ex(f.value, env, pre)
                if d.ty == "attrs": return V("(keys %s)" % d.coq, "keys", fresh=True)
                fail(n, "keys() of %s" % d.ty)
        fail(n, "call")
    fail(n, "expression")


# --------------------------------------------------------------------------- statements
def binds(pre):
    return "".join("do %s, s <- %s;\n" % (x, t) for x, t in pre)


def assigned(stmts):
    out = []

    def add(x):
        if x != "_" and x not in out: out.append(x)
    for s in stmts:
        if isinstance(s, ast.Assign):
            for t in s.targets:
                for e in (t.elts if isinstance(t, ast.Tuple) else [t]):
                    if isinstance(e, ast.Name): add(e.id)
        elif isinstance(s, ast.AnnAssign) and isinstance(s.target, ast.Name): add(s.target.id)
        elif isinstance(s, ast.If): [add(x) for x in assigned(s.body) + assigned(s.orelse)]
        elif isinstance(s, ast.For): [add(x) for x in assigned(s.body)]
        elif isinstance(s, ast.Expr) and isinstance(s.value, ast.Call) and isinstance(s.value.func, ast.Attribute):
            r = s.value.func.value           # d[i].append(x) / d.append(x): the local d changes
            while isinstance(r, (ast.Subscript, ast.Attribute)): r = r.value
            if isinstance(r, ast.Name) and s.value.func.attr in ("append", "extend", "update", "add", "pop", "clear", "insert", "remove"): add(r.id)
    return out


def terminates(stmts):
    if not stmts: return False
    s = stmts[-1]
    if isinstance(s, (ast.Raise, ast.Return, ast.Continue)): return True
    if isinstance(s, ast.If): return bool(s.orelse) and terminates(s.body) and terminates(s.orelse)
    return False


def tuple_val(names, env):
    if not names: return "tt"
    vals = [env[x].coq for x in names]
    return vals[0] if len(vals) == 1 else "(%s)" % ", ".join(vals)


def tuple_pat(names):
    if not names: return "(_ : unit)"
    if len(names) == 1: return cname(names[0])
    return "'(%s)" % ", ".join(cname(x) for x in names)


def tuple_ty(names, env):
    return " * ".join(COQTY[env[x].ty] for x in names) if names else "unit"


def dead(env):
    raise Unsupported("%s: internal: continuation of a block that cannot fall through" % CUR["file"])


def cond(t, env, kt, kf):
    if (isinstance(t, ast.Compare) and len(t.ops) == 1 and isinstance(t.ops[0], (ast.Is, ast.IsNot)) and is_none(t.comparators[0])
            and isinstance(t.left, ast.Name) and t.left.id in env and env[t.left.id].ty == "optint"):
        x = t.left.id; v = env[x]
        e1 = dict(env); e1[x] = V(cname(x), "int")
        some, none = (kt(e1), kf(dict(env))) if isinstance(t.ops[0], ast.IsNot) else (kf(e1), kt(dict(env)))
        return "match %s with\n| None =>\n%s\n| Some %s =>\n%s\nend" % (v.coq, ind(none), cname(x), ind(some))
    pre = []
    c = ex(t, env, pre)
    if c.ty != "bool": fail(t, "condition of type %s" % c.ty)
    return binds(pre) + "if %s\nthen\n%s\nelse\n%s" % (c.coq, ind(kt(dict(env))), ind(kf(dict(env))))


def block(stmts, env, k, kc=None, loopvars=()):
    """stmts -> Gallina text; k(env) builds what follows the block; kc(env) is what `continue` does (None outside a loop);
    loopvars: the node-typed loop variables of the enclosing `for n in T.nodes()` loops"""
    if not stmts: return k(env)
    s, rest = stmts[0], stmts[1:]
    go = lambda e: block(rest, e, k, kc, loopvars)
    if is_docstring(s): return go(env)
    if isinstance(s, ast.Continue):
        if rest: fail(rest[0], "statement after continue")
        if kc is None: fail(s, "continue outside a loop")
        return kc(env)
    if isinstance(s, ast.Return):
        if rest: fail(rest[0], "statement after return")
        if kc is not None: fail(s, "return inside a loop")
        if s.value is None: fail(s, "bare return")
        pre = []
        v = ex(s.value, env, pre)
        if v.ty not in ("bool", "pair", "int"): fail(s, "return of a value of type %s" % v.ty)
        CUR["ret"].add(v.ty)
        return binds(pre) + "Ok %s s" % v.coq
    if isinstance(s, ast.If):
        bt, ot = terminates(s.body), terminates(s.orelse)
        if bt and ot and rest: fail(rest[0], "unreachable statement")
        kb = (lambda e: block(s.body, e, dead, kc, loopvars)) if bt else (lambda e: block(s.body + rest, e, k, kc, loopvars))
        ko = (lambda e: block(s.orelse, e, dead, kc, loopvars)) if ot else (lambda e: block(s.orelse + rest, e, k, kc, loopvars))
        return cond(s.test, env, kb, ko)
    if isinstance(s, ast.For):
        if s.orelse or not isinstance(s.target, ast.Name): fail(s, "for statement")
        for x in ast.walk(ast.Module(body=s.body, type_ignores=[])):
            if isinstance(x, (ast.Return, ast.Break, ast.While)): fail(x, "return / break / while inside a loop")
        x = s.target.id
        if x in env or x in assigned(s.body): fail(s, "the loop target must be a new name that the body does not rebind")
        it = s.iter
        if (isinstance(it, ast.Call) and not it.args and not it.keywords and isinstance(it.func, ast.Attribute) and it.func.attr == "nodes"
                and obj(it.func.value, env) == "TRACKS"):
            itc, el = "(tracks_nodes s)", "node"
        elif isinstance(it, ast.Name) and it.id in env and env[it.id].ty == "keys":
            if it.id in assigned(s.body): fail(s, "the loop changes the list it iterates over")
            itc, el = env[it.id].coq, "key"
        else: fail(s, "loop iterable")
        carried = [v for v in assigned(s.body) if v in env]
        for v in carried:
            if env[v].ty not in COQTY: fail(s, "loop-carried variable of type %s" % env[v].ty)
        e1 = dict(env); e1[x] = V(cname(x), el)
        e2 = dict(env)
        for v in carried:
            e1[v] = V(cname(v), env[v].ty, fresh=env[v].fresh); e2[v] = V(cname(v), env[v].ty, fresh=env[v].fresh)

        def kend(e):
            for v in carried:
                if e[v].ty != env[v].ty: fail(s, "loop-carried variable %s changes its type (%s -> %s)" % (v, env[v].ty, e[v].ty))
            return "Ok %s s" % tuple_val(carried, e)
        body = block(s.body, e1, kend, kend, loopvars + ((x,) if el == "node" else ()))
        pat = tuple_pat(carried)
        return "bind (A := %s) (py_for %s %s s (fun %s %s s =>\n%s))\n(fun %s s =>\n%s)" % (
            tuple_ty(carried, e2), itc, tuple_val(carried, env), cname(x), pat, ind(body), pat, ind(go(e2)))
    if isinstance(s, ast.AnnAssign) and s.simple == 1 and s.value is not None and isinstance(s.target, ast.Name):
        an = ast.unparse(s.annotation)
        if an not in LOCAL_ANNOT: fail(s, "annotation of a local")
        val = s.value
        # x: int = T.get_node_attr(n, k)
        if (isinstance(val, ast.Call) and isinstance(val.func, ast.Attribute) and val.func.attr == "get_node_attr"):
            if not (an == "int" and obj(val.func.value, env) == "TRACKS" and len(val.args) == 2 and not val.keywords):
                fail(s, "get_node_attr idiom")
            nn, kk = ex(val.args[0], env, None), ex(val.args[1], env, None)
            if nn.ty != "node" or kk.ty != "key": fail(s, "get_node_attr arguments")
            t = fresh("t"); xn = s.target.id
            if xn in ("self", "tracks", "s", "ctrk", "clin") or (xn in env and env[xn].ty not in COQTY): fail(s, "assignment to %s" % xn)
            e2 = dict(env); e2[xn] = V(cname(xn), "optint")
            return "do %s, s <- py_node_attr_get_z s %s %s;\nlet %s := %s in\n" % (t, nn.coq, kk.coq, cname(xn), t) + go(e2)
        return block([ast.copy_location(ast.Assign(targets=[s.target], value=s.value), s)] + rest, env, k, kc, loopvars)
    if isinstance(s, (ast.Assign, ast.AnnAssign)) and (isinstance(s, ast.AnnAssign) or len(s.targets) == 1):
        t = s.target if isinstance(s, ast.AnnAssign) else s.targets[0]
        val = s.value
        if val is None: fail(s, "declaration without a value")
        if isinstance(s, ast.AnnAssign) and ast.unparse(s.annotation) not in LOCAL_ANNOT: fail(s, "annotation")
        if isinstance(t, ast.Name):
            if t.id in ("self", "tracks", "s", "ctrk", "clin") or (t.id in env and env[t.id].ty not in COQTY): fail(s, "assignment to %s" % t.id)
            pre = []
            v = ex(val, env, pre)
            if v.ty not in COQTY: fail(s, "assignment of a value of type %s" % v.ty)
            if isinstance(val, ast.Name) and v.ty in ("ddict", "book", "set", "keys", "attrs"): fail(s, "aliasing of a mutable value")
            e2 = dict(env); e2[t.id] = V(cname(t.id), v.ty, fresh=v.fresh)
            return binds(pre) + "let %s := %s in\n" % (cname(t.id), v.coq) + go(e2)
        if isinstance(t, ast.Tuple) and len(t.elts) == 2 and all(isinstance(e, ast.Name) for e in t.elts):
            pre = []
            v = ex(val, env, pre)
            tys = {"entry": ("ftype", "bool"), "pair": ("int", "book")}.get(v.ty)
            if tys is None: fail(s, "tuple assignment from %s" % v.ty)
            a, b = (e.id for e in t.elts)
            if a == b and a != "_": fail(s, "tuple assignment targets")
            e2 = dict(env)
            for nm, ty in ((a, tys[0]), (b, tys[1])):
                if nm == "_": continue
                if nm in ("self", "tracks", "s", "ctrk", "clin") or (nm in env and env[nm].ty not in COQTY): fail(s, "assignment to %s" % nm)
                e2[nm] = V(cname(nm), ty, fresh=(ty == "book"))
            return binds(pre) + "let '(%s, %s) := %s in\n" % (cname(a), cname(b), v.coq) + go(e2)
        if isinstance(t, ast.Attribute) and obj(t.value, env) == "SELF_TA" and t.attr in BOOKFIELDS:
            setter, ty = BOOKFIELDS[t.attr]
            if isinstance(val, ast.Dict) and not val.keys and ty == "book": v = V("[]", "book")
            else:
                v = ex(val, env, None)
            if v.ty != ty: fail(s, "self.%s = <%s>" % (t.attr, v.ty))
            return "let s := %s s %s in\n" % (setter, v.coq) + go(env)
        if isinstance(t, ast.Subscript) and obj(t.value, env) == "FEATURES" and CUR["cls"] == "Tracks":
            v = ex(val, env, None); kk = ex(t.slice, env, None)
            if v.ty != "ftype" or kk.ty != "key": fail(s, "item assignment to features")
            return "let s := put_features s (set %s %s (features_of s)) in\n" % (kk.coq, v.coq) + go(env)
        fail(s, "assignment")
    if isinstance(s, ast.Expr) and isinstance(s.value, ast.Call) and isinstance(s.value.func, ast.Attribute) and not s.value.keywords:
        c = s.value; f = c.func
        # d[i].append(n)
        if (f.attr == "append" and isinstance(f.value, ast.Subscript) and isinstance(f.value.value, ast.Name) and len(c.args) == 1):
            d = f.value.value.id
            if d not in env or env[d].ty != "ddict" or not env[d].fresh: fail(s, "append through something that is not a local defaultdict(list)")
            i = ex(f.value.slice, env, None); x = ex(c.args[0], env, None)
            if i.ty != "int" or x.ty != "node": fail(s, "d[<%s>].append(<%s>)" % (i.ty, x.ty))
            e2 = dict(env); e2[d] = V(cname(d), "ddict", fresh=True)
            return "let %s := dd_append %s %s %s in\n" % (cname(d), i.coq, x.coq, env[d].coq) + go(e2)
        o = obj(f.value, env)
        if CUR["cls"] == "Tracks" and len(c.args) == 1:
            a = ex(c.args[0], env, None)
            if a.ty == "keys" and o == "REGISTRY" and f.attr == "activate_features":
                return "do _u, s <- %s s %s;\n" % (need("gen_AnnotatorRegistry_activate_features"), a.coq) + go(env)
            if a.ty == "keys" and o == "TRACKS" and f.attr == "enable_features":
                CUR["oracle"] = True
                return "do _u, s <- %s s %s true ctrk clin;\n" % (need("gen_Tracks_enable_features"), a.coq) + go(env)
    fail(s, "statement")


# --------------------------------------------------------------------------- units
FORBIDDEN = (ast.FunctionDef, ast.AsyncFunctionDef, ast.ClassDef, ast.Lambda, ast.Global, ast.Nonlocal, ast.While, ast.With, ast.Try, ast.Break,
             ast.Yield, ast.YieldFrom, ast.Await, ast.NamedExpr, ast.Starred, ast.AugAssign, ast.Assert, ast.Import, ast.ImportFrom, ast.Raise,
             ast.Delete, ast.IfExp, ast.ListComp, ast.DictComp, ast.SetComp, ast.GeneratorExp)


def emit(name, params, env, stmts, cls):
    CUR["n"] = 0; CUR["ret"] = set(); CUR["oracle"] = False; CUR["cls"] = cls
    for x in ast.walk(ast.Module(body=stmts, type_ignores=[])):
        if isinstance(x, FORBIDDEN): fail(x, "statement / expression kind")
    body = [s for s in stmts if not is_docstring(s)]
    if terminates(body):
        txt = block(stmts, env, dead)
        if len(CUR["ret"]) != 1: fail(stmts[0], "return values of types %s" % sorted(CUR["ret"]))
        rty = COQTY[next(iter(CUR["ret"]))]
    else:
        txt = block(stmts, env, lambda e: "Ok tt s")
        if CUR["ret"]: fail(stmts[0], "a method that returns a value on some paths only")
        rty = "unit"
    if CUR["oracle"]: params = params + ["(ctrk clin : list (list Z))"]
    CUR["done"].add(name)
    return "Definition %s (s : state) %s: res %s :=\n%s.\n" % (name, "".join(p + " " for p in params), rty, ind(txt))


def the_method(path, c, name):
    ms = members(c, name)
    if len(ms) != 1: raise Unsupported("%s: %s.%s defined %d times" % (path, c.name, name, len(ms)))
    fn = ms[0]
    if fn.decorator_list or not isinstance(fn, ast.FunctionDef): fail(fn, "decorators / async")
    return fn


def sha(src, fn):
    return hashlib.sha256(ast.get_source_segment(src, fn).encode()).hexdigest()[:16]


def body_of(fn):
    return [s for s in fn.body if not is_docstring(s)]


def get_class(path, cls):
    CUR["file"] = path
    return TT.get_class(path, cls)


def side_conditions(root):
    # Tracks.nodes / get_node_attr / enable_features
    path = os.path.join(root, TR_FILE)
    src, c = get_class(path, "Tracks")
    fn = the_method(path, c, "nodes")
    if ast.unparse(fn.args) != "self" or [ast.unparse(s) for s in body_of(fn)] != NODES_BODY: fail(fn, "Tracks.nodes is not `%s`" % NODES_BODY[0])
    fn = the_method(path, c, "get_node_attr")
    if ast.unparse(fn.args) != GET_NODE_ATTR_ARGS or [ast.unparse(s) for s in body_of(fn)] != GET_NODE_ATTR_BODY:
        fail(fn, "Tracks.get_node_attr is not the expected graph.nodes[node][attr] / .get(attr, None)")
    fn = the_method(path, c, "enable_features")
    if ast.unparse(fn.args) != ENABLE_ARGS: fail(fn, "signature of Tracks.enable_features")
    # SolutionTracks does not override what is translated / relied upon
    path = os.path.join(root, ST_FILE)
    src, c = get_class(path, "SolutionTracks")
    if [ast.unparse(b) for b in c.bases] != ["Tracks"]: fail(c, "class header")
    for x in ast.walk(c):
        if isinstance(x, (ast.FunctionDef, ast.AsyncFunctionDef)) and x.name in NO_OVERRIDE_ST: fail(x, "SolutionTracks overrides %s" % x.name)
        if isinstance(x, ast.Attribute) and x.attr in NO_OVERRIDE_ST and not isinstance(x.ctx, ast.Load): fail(x, "SolutionTracks rebinds %s" % x.attr)
    # GraphAnnotator.__init__ stores the tracks
    path = os.path.join(root, GA_FILE)
    src, c = get_class(path, "GraphAnnotator")
    fn = the_method(path, c, "__init__")
    b = body_of(fn)
    if not b or ast.unparse(b[0]) != "self.tracks = tracks": fail(fn, "GraphAnnotator.__init__ does not start with self.tracks = tracks")


def unit_track_annotator(root):
    path = os.path.join(root, TA_FILE)
    src, c = get_class(path, "TrackAnnotator")
    if [ast.unparse(b) for b in c.bases] != ["GraphAnnotator"] or c.keywords or c.decorator_list: fail(c, "class header")
    tree = ast.parse(src)
    imp = [n for n in tree.body if isinstance(n, ast.ImportFrom) and n.module == "collections" and n.level == 0
           and any(a.name == "defaultdict" and a.asname is None for a in n.names)]
    if len(imp) != 1: raise Unsupported("%s: `from collections import defaultdict` expected exactly once" % path)
    for n in tree.body:       # nothing else at module level binds the names the table reads as builtins
        bound = []
        if isinstance(n, (ast.Import, ast.ImportFrom)): bound = [(a.asname or a.name).split(".")[0] for a in n.names]
        elif isinstance(n, (ast.FunctionDef, ast.ClassDef, ast.AsyncFunctionDef)): bound = [n.name]
        elif isinstance(n, (ast.Assign, ast.AnnAssign, ast.AugAssign)):
            bound = [y.id for t in (n.targets if isinstance(n, ast.Assign) else [n.target]) for y in ast.walk(t) if isinstance(y, ast.Name)]
        elif isinstance(n, ast.If) and ast.unparse(n.test) == "TYPE_CHECKING":
            bound = [(a.asname or a.name) for m in n.body if isinstance(m, (ast.Import, ast.ImportFrom)) for a in m.names]
            if not all(isinstance(m, (ast.Import, ast.ImportFrom)) for m in n.body): fail(n, "module-level statement")
        elif is_docstring(n): pass
        else: fail(n, "module-level statement")
        for b in bound:
            if b in ("dict", "list", "set", "next", "iter") or (b == "defaultdict" and n is not imp[0]): fail(n, "module-level binding of %s" % b)
    for m in c.body:          # class-level statements must not rebind the translated methods
        if is_docstring(m) or isinstance(m, ast.FunctionDef): continue
        fail(m, "class-level statement")
    out = []
    # 1. _get_max_id_and_map
    fn = the_method(path, c, "_get_max_id_and_map")
    a = fn.args
    if (a.vararg or a.kwarg or a.kwonlyargs or a.posonlyargs or a.defaults or [x.arg for x in a.args] != ["self", "key"]
            or ast.unparse(a.args[1].annotation or ast.Constant(value=None)) != "str"): fail(fn, "signature")
    out.append("(* TrackAnnotator._get_max_id_and_map  <-  %s   sha256=%s *)" % (TA_FILE, sha(src, fn)))
    out.append(emit("gen_TrackAnnotator_get_max_id_and_map", ["(v_key : Z)"], {"self": V("", "SELF_TA"), "key": V("v_key", "key")}, fn.body,
                    "TrackAnnotator"))
    # 2. the bookkeeping part of __init__
    fn = the_method(path, c, "__init__")
    if ast.unparse(fn.args) != INIT_ARGS: fail(fn, "signature of TrackAnnotator.__init__")
    body = body_of(fn)
    cut = [i for i, s in enumerate(body) if ast.unparse(s) == INIT_FIRST]
    if len(cut) != 1: fail(fn, "`%s` expected exactly once" % INIT_FIRST)
    if [ast.unparse(s) for s in body[:cut[0]]] != INIT_PREFIX: fail(fn, "the head of __init__ is not the expected %s" % INIT_PREFIX)
    out.append("(* TrackAnnotator.__init__ (from `%s` on)  <-  %s   sha256=%s *)" % (INIT_FIRST, TA_FILE, sha(src, fn)))
    out.append(emit("gen_TrackAnnotator_init_books", [], {"self": V("", "SELF_TA"), "tracks": V("", "TRACKS"), "lineage_key": V("KLin", "optkey")},
                    body[cut[0]:], "TrackAnnotator"))
    return "\n".join(out)


def unit_tracks(root):
    path = os.path.join(root, TR_FILE)
    src, c = get_class(path, "Tracks")
    if c.bases or c.keywords or c.decorator_list: fail(c, "class header")
    out = []
    # 3. _check_existing_feature
    fn = the_method(path, c, "_check_existing_feature")
    a = fn.args
    if (a.vararg or a.kwarg or a.kwonlyargs or a.posonlyargs or a.defaults or [x.arg for x in a.args] != ["self", "key"]
            or ast.unparse(a.args[1].annotation or ast.Constant(value=None)) != "str"): fail(fn, "signature")
    out.append("(* Tracks._check_existing_feature  <-  %s   sha256=%s *)" % (TR_FILE, sha(src, fn)))
    out.append(emit("gen_Tracks_check_existing_feature", ["(v_key : Z)"], {"self": V("", "TRACKS"), "key": V("v_key", "key")}, fn.body, "Tracks"))
    # 4. the last loop of _setup_core_computed_features
    fn = the_method(path, c, "_setup_core_computed_features")
    if ast.unparse(fn.args) != "self": fail(fn, "signature")
    body = body_of(fn)
    if not body or not isinstance(body[-1], ast.For): fail(fn, "the last statement is not a for loop")
    loop = body[-1]
    if not (isinstance(loop.iter, ast.Name) and loop.iter.id == "core_computed_features"): fail(loop, "the last loop does not iterate core_computed_features")
    decl = [s for s in body[:-1] if ast.unparse(s) == CORE_LIST_DECL]
    stores = [y for y in ast.walk(fn) if isinstance(y, ast.Name) and y.id == "core_computed_features" and not isinstance(y.ctx, ast.Load)]
    if len(decl) != 1 or len(stores) != 1:
        fail(fn, "`%s` expected exactly once at the top level of the method, and no other binding of the name" % CORE_LIST_DECL)
    out.append("(* Tracks._setup_core_computed_features (the loop `for %s in core_computed_features`)  <-  %s   sha256=%s *)"
               % (ast.unparse(loop.target), TR_FILE, sha(src, fn)))
    out.append(emit("gen_Tracks_setup_core_loop", ["(v_core_computed_features : list Z)"],
                    {"self": V("", "TRACKS"), "core_computed_features": V("v_core_computed_features", "keys")}, [loop], "Tracks"))
    return "\n".join(out)


HEADER = """(* GENERATED by harness/translate_ctor.py from %s/src/funtracks -- do not edit.
   Shallow embedding of TrackAnnotator._get_max_id_and_map, the bookkeeping part of TrackAnnotator.__init__,
   Tracks._check_existing_feature and the last loop of Tracks._setup_core_computed_features over the model state of
   Model/Edit.v; the idiom table is at the top of the translator; combinators: Model/PyRt9.v and the ones it lists;
   callees enable_features / activate_features / all_features: Gen/Toggle_gen.v. *)
From Coq Require Import ZArith List Bool.
From FT Require Import Base.Dict Model.Edit Model.Toggle Model.PyRt Model.PyRt3 Model.PyRt4 Model.PyRt8 Model.PyRt9.
From %s Require Import Gen.Toggle_gen.
Import ListNotations.
Open Scope Z_scope.
"""


def main(repo=None, toggle_root="FT"):
    repo = repo or REPO
    root = os.path.join(repo, "src", "funtracks")
    TT.main(repo)                       # the callees are the definitions of Gen/Toggle_gen.v: refuse when they cannot be generated
    CUR["done"] = {"gen_AnnotatorRegistry_all_features", "gen_AnnotatorRegistry_activate_features", "gen_Tracks_enable_features"}
    side_conditions(root)
    parts = [HEADER % (repo, toggle_root), unit_track_annotator(root), unit_tracks(root)]
    return "\n".join(parts)


def regenerate(out=None, repo=None, toggle_root="FT"):
    """(re)write the generated file from the current sources; returns (ok, message).  A source outside the idiom table
    yields a file that does not type-check (fail closed).  The file is written only when its content (ignoring the
    header and the source-hash lines) changes.  toggle_root: the logical root under which Gen.Toggle_gen is found
    (the self-test uses its scratch root)."""
    out = out or OUT
    esc = lambda t: str(t).replace("*)", "* )").replace("(*", "( *")
    try:
        txt = main(repo, toggle_root); ok = True; msg = "translated"
    except Unsupported as e:
        txt = "(* TRANSLATION FAILED: %s *)\nDefinition translation_failed : False := I.\n" % esc(e)
        ok = False; msg = str(e)
    except Exception as e:      # a bug of the translator must not look like a translation
        txt = "(* TRANSLATION FAILED: %s: %s *)\nDefinition translation_failed : False := I.\n" % (type(e).__name__, esc(e))
        ok = False; msg = "%s: %s" % (type(e).__name__, e)
    os.makedirs(os.path.dirname(out), exist_ok=True)
    old = open(out).read() if os.path.exists(out) else None
    strip = lambda t: "\n".join(l for l in t.split("\n") if "sha256=" not in l and not l.startswith("(* GENERATED"))
    if old is None or strip(old) != strip(txt):
        open(out, "w").write(txt)
    return ok, msg


if __name__ == "__main__":
    if len(sys.argv) > 1 and sys.argv[1] == "--stdout":
        sys.stdout.write(main())
    else:
        ok, msg = regenerate(*(sys.argv[1:4]))
        print((ok, msg))
        sys.exit(0 if ok else 1)
