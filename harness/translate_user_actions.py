"""Fail-closed translator: funtracks/user_actions/*.py  ->  coq/Gen/UserActions_gen.v

For each of the seven user-action classes the `__init__` is turned into a Gallina definition
`gen_<model name>_core` in the `res` monad of Model/Edit.v (shallow embedding: the state `s` and the
growing `self.actions` list `acts` are threaded explicitly), plus `gen_<model name>` = the core
followed by the history/refresh tail.  Proofs/UserActionsTie.v proves every generated definition
equal to the hand-written model function of the same name, so a change of the Python changes
the generated text and un-hooks the tie.

Anything not listed below raises `Unsupported(file:line ...)`; nothing is guessed or skipped.
This table, the emitter below and Model/PyRt.v are the trusted part.

CLOSED IDIOM TABLE                                   (T = `tracks` | `self.tracks`;  G = `T.graph` or a
                                                      local alias `graph = T.graph`;  s = current state)
 skipped statements     docstrings; `self.tracks: SolutionTracks` (annotation without value)
 super().__init__(tracks, actions=[])                 acts := []           (must be the first statement)
 parameters (by annotation)   int -> Z;  bool -> bool;  tuple[int, int] -> two Z;  dict[str, Any] -> attrs;
                        `None | tuple[np.ndarray, ...]` -> option pixels;
                        `list[tuple[tuple[np.ndarray, ...], int]]` -> list (pixels * Z);  `_top_level` -> tail only
 -- graph / tracks queries (total functions of the model; a missing node reads as "no successors",
    time 0 -- the conventions of Model/Edit.v; the exceptions are marked)
 G.has_node(x)  G.has_edge(a, b) | G.has_edge(*e)     has_node s x         has_edge s a b
 G.out_degree(x)  G.in_degree(x)                      out_degree s x       in_degree s x
 G.successors(x) | T.successors(x)                    successors s x       (list(..) / iter(..) of it: the same list;
                                                      NetworkXError for a missing x NOT modelled, as in the hand model)
 G.predecessors(x) | T.predecessors(x)                do l, s <- py_predecessors s x      (NetworkXError = Err ENetworkX)
 G.in_edges(x)                                        in_edges s x         (PyRt)
 T.get_time(x)                                        time_of s x
 T.get_lineage_id(x)                                  zattr s x KLin       (an option: Python None = None)
 T.get_track_id(x)                                    do t, s <- py_get_track_id s x      (KeyError = Err EKey)
 T.get_next_track_id()  T.get_next_lineage_id()       next_trk s           next_lin s
 T.has_track_id_at_time(k, t)                         has_track_at s k t
 p, c = T.get_track_neighbors(k, t)                   let '(s, (p, c)) := track_neighbors s k t   (sorts the lookup: new state)
 T.features.time_key / tracklet_key / lineage_key     KTime / KTrack / KLin ;  `<key> is None` -> key_is_none K (= false)
 pk = T.features.position_key;  pks = pk if isinstance(pk, list) else [pk]      pos_keys (ft s)
 T.segmentation is None                               match seg s with None => .. | Some _ => ..
 np.sum(T.segmentation[t] == v)                       seg_count s t v      (PyRt)
 T.segmentation[pixels]  (statement)                  do _u, s <- py_seg_index s pixels   (IndexError = Err EIndex; PyRt)
 -- expressions
 ints, + - , == != < <= > >=                          Z, + -, =? negb(=?) <? <=? >? >=?
 a == b (both may be None)                            opt_eqb a b
 x is None / x is not None (x a local)                match x with None / Some x (x is an integer inside the Some branch);
                                                      decided statically when x is known to be an integer (result of
                                                      T.get_track_id: the model reads id attributes as integers) or None
 not c;  c1 and c2 (statement conditions)             branches swapped;  nested conditionals (short circuit)
 len(l);  len(<2-tuple parameter>)                    Z.of_nat (length l);  2
 e[0] e[1] (2-tuple);  a, b = e                       the components
 l[0];  list(..)[0]                                   do x, s <- py_index0 l s            (IndexError = Err EIndex)
 next(iter(l))                                        do x, s <- py_next l s              (StopIteration = Err EKey, as the hand model)
 next(it, None)                                       hd_error l
 l[1:]                                                tl l
 l.remove(x)                                          l := remove1 x l      (x absent: unchanged, as the hand model)
 [x for x in l if x != y]                             filter (fun x => negb (x =? y)) l
 [(a, x) for x in l];  [(a, b)];  []                  map (fun x => (a, x)) l;  [(a, b)];  []
 k in d / k not in d;  all(k in d for k in l)         haskey k d / negb ..;  forallb (fun k => haskey k d) l
 d[k] used as an int                                  do z, s <- py_attr_z s d k          (KeyError = Err EKey; non-int reads 0)
 d[k] = z  (d a dict parameter / local)               d := set k (VZ z) d
 {k1: z1, k2: z2}                                     [(k1, VZ z1); (k2, VZ z2)]
 pixels[0][0];  groups[0] (after `if groups`)         fst pixels;  the head of groups
 ndim = len(pixels)                                   no model content (pixels = frame index + flat indices)
 tuple(np.concatenate([p[dim] for p, _ in gs]) for dim in range(ndim))     px_concat gs   (PyRt)
 assert len(np.unique(all_pixels[0])) == 1, ..        holds by representation (one frame index per pixels value)
 warnings.warn(<message>, stacklevel=k)               no effect (message: names and T.get_time(name) only)
 -- statements
 x = e;  x: T = e;  x -= e                            let x := e in ..      (a raising sub-expression of e, see above,
                                                      is bound first, in evaluation order; none of them changes the state)
 if / elif / else                                     if .. then .. else ..;  variables assigned inside and
                                                      visible afterwards are returned through the monad (join)
 for x in l: body                                     py_for l <loop-carried vars> s (fun x vars s => body)
 continue                                             end of the loop body
 raise InvalidActionError(msg[, forceable=True])      Err (EInvalid false|true) s
 raise ValueError(msg)                                Err EValue s
 try: <one append> except InvalidActionError: h       py_try_invalid (..) (fun f s => h);  bare `raise` in h = Err (EInvalid f) s
 for a in reversed(self.actions): a.inverse()         py_for (rev acts) .. (do _i, s <- inv_action s a; ..)
 self.actions.append(X)                               do b, s <- <X>;  acts := acts ++ [ABasic b]   (basic actions)
                                                      do a, s <- <X>;  acts := acts ++ [a]          (nested user actions)
   DeleteEdge(T, e)  AddEdge(T, e)                    do_del_edge s e0 e1          do_add_edge s e0 e1 []
   UpdateTrackIDs(T, n, t[, l])                       do_upd_track s n t (None | Some l | l when l may be None)
   AddNode(T, n, attrs, pixels)                       do_add_node s n attrs pixels
   DeleteNode(T, n, pixels=p)                         do_del_node s n p
   UpdateNodeAttrs(T, n, attrs)                       do_upd_attrs s n attrs
   UpdateNodeSeg(T, n, p, added=b)                    do_upd_seg s n p b
   UserDeleteEdge(T, e, _top_level=False)             user_delete_edge s e0 e1 false      (the model function of the
   UserAddEdge(T, e, force=b, _top_level=False)       user_add_edge s e0 e1 b false        nested class, which has its
   UserDeleteNode(T, n, pixels=p, _top_level=False)   user_delete_node s n p false         own tie theorem)
   UserAddNode(T, n, attributes=a, pixels=p, force=b, _top_level=False)   user_add_node s n a p b false
 tail  [if _top_level:] T.action_history.add_new_action(self); T.refresh.emit([x])
                                                      top_wrap top|true (None | Some x);  top_wrap_dyn when x is
                                                      computed by the body (PyRt)
"""
import ast
import hashlib
import os
import sys


class Unsupported(Exception):
    pass


REPO = os.environ.get("VERIF_REPO", "/repo")
OUT = "/verif/coq/Gen/UserActions_gen.v"

# class -> (source file, model name); translated in this order
CLASSES = [
    ("UserDeleteEdge", "user_delete_edge.py", "user_delete_edge"),
    ("UserUpdateNodeAttrs", "user_update_node_attrs.py", "user_update_attrs"),
    ("UserAddEdge", "user_add_edge.py", "user_add_edge"),
    ("UserSwapPredecessors", "_user_swap_predecessors.py", "user_swap"),
    ("UserDeleteNode", "user_delete_node.py", "user_delete_node"),
    ("UserAddNode", "user_add_node.py", "user_add_node"),
    ("UserUpdateSegmentation", "user_update_segmentation.py", "user_update_seg"),
]

# parameter annotation (ast.unparse) -> type
ANNOT = {
    "int": "Z", "bool": "bool", "tuple[int, int]": "pair", "dict[str, Any]": "attrs",
    "None | tuple[np.ndarray, ...]": "optpx", "tuple[np.ndarray, ...] | None": "optpx",
    "list[tuple[tuple[np.ndarray, ...], int]]": "listG", "SolutionTracks": "TRACKS",
}
COQTY = {
    "Z": "Z", "bool": "bool", "optZ": "option Z", "listZ": "list Z", "pair": "(Z * Z)", "listE": "list (Z * Z)",
    "attrs": "attrs", "optpx": "option pixels", "px": "pixels", "group": "(pixels * Z)", "listG": "list (pixels * Z)",
    "acts": "list action", "unit": "unit", "action": "action",
}
ELEM = {"listZ": "Z", "listE": "pair", "listG": "group", "acts": "action"}
ACTS = "#acts"          # the environment entry of self.actions

CUR = {"file": "?", "n": 0}


def fail(node, why):
    raise Unsupported("%s:%s: %s: %s" % (CUR["file"], getattr(node, "lineno", "?"), why, ast.dump(node)[:160]))


def fresh(prefix):
    CUR["n"] += 1
    return "%s%d" % (prefix, CUR["n"])


class V:
    """a translated expression: Coq text, type, and for 2-tuples the two component texts"""

    def __init__(self, coq, ty, comps=None, of=None):
        self.coq, self.ty, self.comps, self.of = coq, ty, comps, of

    def parts(self):
        return self.comps if self.comps else ("(fst %s)" % self.coq, "(snd %s)" % self.coq)

    def pair(self):
        return "(%s, %s)" % self.comps if self.comps else self.coq


class Env:
    def __init__(self, vars=None, heads=None, exc=None):
        self.v = dict(vars or {})
        self.heads = dict(heads or {})    # list variable known non-empty -> Coq name of its head
        self.exc = exc                    # inside `except InvalidActionError`: the forceable flag

    def copy(self):
        return Env(self.v, self.heads, self.exc)


def unify(node, t1, t2):
    if t1 == t2:
        return t1
    for a, b in ((t1, t2), (t2, t1)):
        if a in ("Z", "none") and b == "optZ": return "optZ"
        if a == "none" and b == "Z": return "optZ"
        if a in ("px", "none") and b == "optpx": return "optpx"
        if a == "nil" and b in ELEM: return b
    fail(node, "branches give %s and %s to one variable" % (t1, t2))


def coerce(node, v, ty):
    if v.ty == ty: return v.pair() if ty == "pair" else v.coq
    if ty == "optZ" and v.ty == "Z": return "(Some %s)" % v.coq
    if ty == "optZ" and v.ty == "none": return "None"
    if ty == "optpx" and v.ty == "px": return "(Some %s)" % v.coq
    if ty == "optpx" and v.ty == "none": return "None"
    if ty in ELEM and v.ty == "nil": return "[]"
    fail(node, "expected %s, got %s" % (ty, v.ty))


def cname(pyname):
    return "v_" + pyname


# --------------------------------------------------------------------------- expressions
def is_none(n):
    return isinstance(n, ast.Constant) and n.value is None


def const_int(n):
    return n.value if isinstance(n, ast.Constant) and type(n.value) is int else None


def ex(n, env, pre):
    """translate an expression; `pre` collects the monadic bindings (x, term) that must run first
    (None: such sub-expressions are refused here)"""

    def hoist(term, ty, prefix="t"):
        if pre is None: fail(n, "raising expression not allowed in this position")
        x = fresh(prefix)
        pre.append((x, term))
        return V(x, ty)

    def Zof(m):
        v = ex(m, env, pre)
        if v.ty != "Z": fail(m, "integer expected, got %s" % v.ty)
        return v.coq

    if isinstance(n, ast.Constant):
        if type(n.value) is int: return V("(%d)" % n.value, "Z")
        if type(n.value) is bool: return V("true" if n.value else "false", "bool")
        if n.value is None: return V("None", "none")
        fail(n, "constant")
    if isinstance(n, ast.Name):
        if n.id in env.v: return env.v[n.id]
        fail(n, "unknown (or possibly unbound) variable")
    if isinstance(n, ast.Attribute):
        if isinstance(n.value, ast.Name) and n.value.id == "self" and n.attr == "tracks": return V("", "TRACKS")
        b = ex(n.value, env, pre)
        if b.ty == "TRACKS" and n.attr == "graph": return V("", "GRAPH")
        if b.ty == "TRACKS" and n.attr == "features": return V("", "FEATURES")
        if b.ty == "TRACKS" and n.attr == "segmentation": return V("(seg s)", "SEG")
        if b.ty == "FEATURES":
            k = {"time_key": "KTime", "tracklet_key": "KTrack", "lineage_key": "KLin"}.get(n.attr)
            if k: return V(k, "key")
            if n.attr == "position_key": return V("", "POSKEY")
        fail(n, "attribute")
    if isinstance(n, ast.Tuple) and len(n.elts) == 2:
        return V(None, "pair", comps=(Zof(n.elts[0]), Zof(n.elts[1])))
    if isinstance(n, ast.List):
        if not n.elts: return V("[]", "nil")
        if len(n.elts) == 1:
            e = ex(n.elts[0], env, pre)
            if e.ty == "pair": return V("[%s]" % e.pair(), "listE")
        fail(n, "list display")
    if isinstance(n, ast.Dict):
        items = []
        for k, v in zip(n.keys, n.values):
            kk = ex(k, env, pre)
            if kk.ty != "key": fail(n, "dict key")
            items.append("(%s, VZ %s)" % (kk.coq, Zof(v)))
        return V("[%s]" % "; ".join(items), "attrs")
    if isinstance(n, ast.Subscript):
        b = ex(n.value, env, pre)
        i = const_int(n.slice)
        if isinstance(n.slice, ast.Slice):
            sl = n.slice
            if b.ty == "listZ" and const_int(sl.lower) == 1 and sl.upper is None and sl.step is None:
                return V("(tl %s)" % b.coq, "listZ")
            fail(n, "slice")
        if b.ty == "pair" and i in (0, 1): return V(b.parts()[i], "Z")
        if b.ty in ("listZ", "listE") and i == 0:
            return hoist("py_index0 %s s" % b.coq, ELEM[b.ty])
        if b.ty == "listG" and i == 0:
            if isinstance(n.value, ast.Name) and n.value.id in env.heads: return V(env.heads[n.value.id], "group")
            fail(n, "first element of a list not known to be non-empty")
        if b.ty == "group" and i == 0: return V("(fst %s)" % b.coq, "px")
        if b.ty == "group" and i == 1: return V("(snd %s)" % b.coq, "Z")
        if b.ty == "px" and i == 0: return V(b.coq, "pxaxis0")
        if b.ty == "pxaxis0" and i == 0: return V("(fst %s)" % b.coq, "Z")
        if b.ty == "attrs":
            k = ex(n.slice, env, pre)
            if k.ty == "key": return hoist("py_attr_z s %s %s" % (b.coq, k.coq), "Z")
        if b.ty == "SEG":        # tracks.segmentation[t]: only inside np.sum(.. == v), see below
            return V(Zof(n.slice), "SEGFRAME")
        fail(n, "subscript")
    if isinstance(n, ast.BinOp) and isinstance(n.op, (ast.Add, ast.Sub)):
        return V("(%s %s %s)" % (Zof(n.left), "+" if isinstance(n.op, ast.Add) else "-", Zof(n.right)), "Z")
    if isinstance(n, ast.UnaryOp) and isinstance(n.op, ast.Not):
        v = ex(n.operand, env, pre)
        if v.ty != "bool": fail(n, "not of a non-boolean")
        return V("(negb %s)" % v.coq, "bool")
    if isinstance(n, ast.BoolOp) and isinstance(n.op, ast.And):
        vs = [ex(x, env, None) for x in n.values]      # no raising sub-expressions: evaluation is short-circuit
        if any(v.ty != "bool" for v in vs): fail(n, "and of non-booleans")
        return V("(%s)" % " && ".join(v.coq for v in vs), "bool")
    if isinstance(n, ast.Compare) and len(n.ops) == 1:
        op, l, r = n.ops[0], n.left, n.comparators[0]
        if isinstance(op, (ast.In, ast.NotIn)):
            k, d = ex(l, env, pre), ex(r, env, pre)
            if k.ty == "key" and d.ty == "attrs":
                t = "(haskey %s %s)" % (k.coq, d.coq)
                return V(t if isinstance(op, ast.In) else "(negb %s)" % t, "bool")
            fail(n, "membership test")
        if isinstance(op, (ast.Is, ast.IsNot)) and is_none(r):
            v = ex(l, env, pre)
            if v.ty == "key":
                t = "(key_is_none %s)" % v.coq
                return V(t if isinstance(op, ast.Is) else "(negb %s)" % t, "bool")
            fail(n, "None test outside a statement condition")
        # np.sum(T.segmentation[t] == v) == 0
        if (isinstance(l, ast.Call) and isinstance(l.func, ast.Attribute) and isinstance(l.func.value, ast.Name)
                and l.func.value.id == "np" and l.func.attr == "sum" and len(l.args) == 1 and not l.keywords
                and isinstance(l.args[0], ast.Compare) and len(l.args[0].ops) == 1 and isinstance(l.args[0].ops[0], ast.Eq)):
            fr = ex(l.args[0].left, env, pre)
            if fr.ty != "SEGFRAME": fail(n, "np.sum argument")
            a = "(seg_count s %s %s)" % (fr.coq, Zof(l.args[0].comparators[0]))
        else:
            lv = ex(l, env, pre)
            if isinstance(op, ast.Eq) and lv.ty in ("optZ", "Z", "none"):
                rv = ex(r, env, pre)
                if "optZ" in (lv.ty, rv.ty) and rv.ty in ("optZ", "Z", "none"):
                    return V("(opt_eqb %s %s)" % (coerce(l, lv, "optZ"), coerce(r, rv, "optZ")), "bool")
                if lv.ty != "Z" or rv.ty != "Z": fail(n, "comparison of a possibly-None value")
            if lv.ty != "Z": fail(n, "comparison of %s" % lv.ty)
            a = lv.coq
        b = Zof(r)
        sym = {ast.Eq: "=?", ast.Lt: "<?", ast.LtE: "<=?", ast.Gt: ">?", ast.GtE: ">=?"}.get(type(op))
        if sym: return V("(%s %s %s)" % (a, sym, b), "bool")
        if isinstance(op, ast.NotEq): return V("(negb (%s =? %s))" % (a, b), "bool")
        fail(n, "comparison operator")
    if isinstance(n, ast.ListComp) and len(n.generators) == 1:
        g = n.generators[0]
        if g.is_async or not isinstance(g.target, ast.Name): fail(n, "comprehension")
        it = ex(g.iter, env, pre)
        if it.ty != "listZ": fail(n, "comprehension over %s" % it.ty)
        x = g.target.id
        e2 = env.copy(); e2.v[x] = V(cname(x), "Z")
        if len(g.ifs) == 1 and isinstance(n.elt, ast.Name) and n.elt.id == x:
            c = ex(g.ifs[0], e2, None)
            if c.ty != "bool": fail(n, "comprehension filter")
            return V("(filter (fun %s => %s) %s)" % (cname(x), c.coq, it.coq), "listZ")
        if not g.ifs:
            e = ex(n.elt, e2, None)
            if e.ty == "pair": return V("(map (fun %s => %s) %s)" % (cname(x), e.pair(), it.coq), "listE")
        fail(n, "comprehension")
    if isinstance(n, ast.IfExp):
        # pk if isinstance(pk, list) else [pk]     with pk = T.features.position_key
        t, a, b = n.test, n.body, n.orelse
        if (isinstance(a, ast.Name) and ex(a, env, None).ty == "POSKEY" and isinstance(t, ast.Call) and isinstance(t.func, ast.Name)
                and t.func.id == "isinstance" and len(t.args) == 2 and isinstance(t.args[0], ast.Name) and t.args[0].id == a.id
                and isinstance(t.args[1], ast.Name) and t.args[1].id == "list" and isinstance(b, ast.List) and len(b.elts) == 1
                and isinstance(b.elts[0], ast.Name) and b.elts[0].id == a.id):
            return V("(pos_keys (ft s))", "listZ")
        fail(n, "conditional expression")
    if isinstance(n, ast.Call):
        return call(n, env, pre, hoist, Zof)
    fail(n, "expression")


def call(n, env, pre, hoist, Zof):
    f, args, kws = n.func, n.args, n.keywords
    if isinstance(f, ast.Name):
        if kws: fail(n, "keyword arguments")
        if f.id == "len" and len(args) == 1:
            v = ex(args[0], env, pre)
            if v.ty == "pair" and v.comps: return V("(2)", "Z")
            if v.ty == "px": return V("tt", "ndim")
            if v.ty in ELEM: return V("(Z.of_nat (length %s))" % v.coq, "Z")
            fail(n, "len of %s" % v.ty)
        if f.id in ("list", "iter") and len(args) == 1:
            v = ex(args[0], env, pre)
            if v.ty in ("listZ", "listE"): return v
            fail(n, f.id)
        if f.id == "next":
            if len(args) == 1 and isinstance(args[0], ast.Call) and isinstance(args[0].func, ast.Name) and args[0].func.id == "iter":
                v = ex(args[0], env, pre)
                if v.ty == "listZ": return hoist("py_next %s s" % v.coq, "Z")
            if len(args) == 2 and is_none(args[1]):
                v = ex(args[0], env, pre)
                if v.ty == "listZ": return V("(hd_error %s)" % v.coq, "optZ")
            fail(n, "next")
        if f.id == "all" and len(args) == 1 and isinstance(args[0], ast.GeneratorExp) and len(args[0].generators) == 1:
            ge, g = args[0], args[0].generators[0]
            if not g.ifs and not g.is_async and isinstance(g.target, ast.Name):
                it = ex(g.iter, env, pre)
                e2 = env.copy(); e2.v[g.target.id] = V(cname(g.target.id), "key")
                c = ex(ge.elt, e2, None)
                if it.ty == "listZ" and c.ty == "bool":
                    return V("(forallb (fun %s => %s) %s)" % (cname(g.target.id), c.coq, it.coq), "bool")
            fail(n, "all(...)")
        if f.id == "tuple" and len(args) == 1:
            # tuple(np.concatenate([p[dim] for p, _ in gs]) for dim in range(ndim))
            ge = args[0]
            ok = isinstance(ge, ast.GeneratorExp) and len(ge.generators) == 1
            if ok:
                g = ge.generators[0]; c = ge.elt
                ok = (isinstance(g.target, ast.Name) and not g.ifs and isinstance(g.iter, ast.Call) and isinstance(g.iter.func, ast.Name)
                      and g.iter.func.id == "range" and len(g.iter.args) == 1 and ex(g.iter.args[0], env, None).ty == "ndim"
                      and isinstance(c, ast.Call) and isinstance(c.func, ast.Attribute) and isinstance(c.func.value, ast.Name)
                      and c.func.value.id == "np" and c.func.attr == "concatenate" and len(c.args) == 1 and not c.keywords
                      and isinstance(c.args[0], ast.ListComp) and len(c.args[0].generators) == 1)
            if ok:
                lc = c.args[0]; g2 = lc.generators[0]; dim = g.target.id
                ok = (isinstance(g2.target, ast.Tuple) and len(g2.target.elts) == 2 and all(isinstance(e, ast.Name) for e in g2.target.elts)
                      and not g2.ifs and isinstance(lc.elt, ast.Subscript) and isinstance(lc.elt.value, ast.Name)
                      and lc.elt.value.id == g2.target.elts[0].id and isinstance(lc.elt.slice, ast.Name) and lc.elt.slice.id == dim)
                if ok:
                    gs = ex(g2.iter, env, None)
                    if gs.ty == "listG": return V("(px_concat %s)" % gs.coq, "px")
            fail(n, "tuple(...)")
        fail(n, "call of %s" % f.id)
    if isinstance(f, ast.Attribute):
        recv = ex(f.value, env, pre)
        m = f.attr
        if kws: fail(n, "keyword arguments")
        if recv.ty == "GRAPH":
            if m == "has_edge":
                if len(args) == 1 and isinstance(args[0], ast.Starred):
                    e = ex(args[0].value, env, pre)
                    if e.ty == "pair": return V("(has_edge s %s %s)" % e.parts(), "bool")
                if len(args) == 2: return V("(has_edge s %s %s)" % (Zof(args[0]), Zof(args[1])), "bool")
            if m in ("has_node",) and len(args) == 1: return V("(has_node s %s)" % Zof(args[0]), "bool")
            if m in ("out_degree", "in_degree") and len(args) == 1: return V("(%s s %s)" % (m, Zof(args[0])), "Z")
            if m == "successors" and len(args) == 1: return V("(successors s %s)" % Zof(args[0]), "listZ")
            if m == "predecessors" and len(args) == 1: return hoist("py_predecessors s %s" % Zof(args[0]), "listZ", "l")
            if m == "in_edges" and len(args) == 1: return V("(in_edges s %s)" % Zof(args[0]), "listE")
        if recv.ty == "TRACKS":
            if m == "successors" and len(args) == 1: return V("(successors s %s)" % Zof(args[0]), "listZ")
            if m == "predecessors" and len(args) == 1: return hoist("py_predecessors s %s" % Zof(args[0]), "listZ", "l")
            if m == "get_time" and len(args) == 1: return V("(time_of s %s)" % Zof(args[0]), "Z")
            if m == "get_lineage_id" and len(args) == 1: return V("(zattr s %s KLin)" % Zof(args[0]), "optZ")
            if m == "get_track_id" and len(args) == 1: return hoist("py_get_track_id s %s" % Zof(args[0]), "Z")
            if m == "get_next_track_id" and not args: return V("(next_trk s)", "Z")
            if m == "get_next_lineage_id" and not args: return V("(next_lin s)", "Z")
            if m == "has_track_id_at_time" and len(args) == 2:
                return V("(has_track_at s %s %s)" % (Zof(args[0]), Zof(args[1])), "bool")
        fail(n, "method call")
    fail(n, "call")


# --------------------------------------------------------------------------- conditions
def emit_if(t, env, kt, kf):
    """conditional on a statement condition; kt / kf build the two branches from the (narrowed) environment"""
    if isinstance(t, ast.UnaryOp) and isinstance(t.op, ast.Not):
        o = t.operand
        if isinstance(o, (ast.BoolOp, ast.UnaryOp)) or is_none_test(o) or truthy_list(o, env): return emit_if(o, env, kf, kt)
    if isinstance(t, ast.BoolOp) and isinstance(t.op, ast.And):
        first, rest = t.values[0], t.values[1:]
        nxt = rest[0] if len(rest) == 1 else ast.BoolOp(op=ast.And(), values=rest, lineno=t.lineno)
        return emit_if(first, env, lambda e: emit_if(nxt, e, kt, kf), kf)
    if is_none_test(t):
        x = t.left
        v = ex(x, env, None)
        pos = isinstance(t.ops[0], ast.IsNot)
        if v.ty == "key": pass      # handled as a boolean below
        elif v.ty in ("optZ", "optpx") and isinstance(x, ast.Name):
            e1 = env.copy(); e1.v[x.id] = V(v.coq, "Z" if v.ty == "optZ" else "px")
            some, none = (kt(e1), kf(env.copy())) if pos else (kf(e1), kt(env.copy()))
            return "match %s with\n| Some %s =>\n%s\n| None =>\n%s\nend" % (v.coq, v.coq, ind(some), ind(none))
        elif v.ty == "SEG":
            some, none = (kt(env.copy()), kf(env.copy())) if pos else (kf(env.copy()), kt(env.copy()))
            return "match %s with\n| Some _ =>\n%s\n| None =>\n%s\nend" % (v.coq, ind(some), ind(none))
        elif v.ty == "Z":          # already narrowed: the value is not None
            return (kt if pos else kf)(env.copy())
        elif v.ty == "none":
            return (kf if pos else kt)(env.copy())
        else: fail(t, "None test on %s" % v.ty)
    if truthy_list(t, env):
        v = env.v[t.id]
        h = fresh("g")
        e1 = env.copy(); e1.heads[t.id] = h
        return "match %s with\n| %s :: _ =>\n%s\n| [] =>\n%s\nend" % (v.coq, h, ind(kt(e1)), ind(kf(env.copy())))
    c = ex(t, env, None)
    if c.ty != "bool": fail(t, "condition of type %s" % c.ty)
    return "if %s\nthen\n%s\nelse\n%s" % (c.coq, ind(kt(env.copy())), ind(kf(env.copy())))


def is_none_test(t):
    return isinstance(t, ast.Compare) and len(t.ops) == 1 and isinstance(t.ops[0], (ast.Is, ast.IsNot)) and is_none(t.comparators[0])


def truthy_list(t, env):
    return isinstance(t, ast.Name) and t.id in env.v and env.v[t.id].ty in ELEM


def ind(txt):
    return "\n".join("  " + l for l in txt.split("\n"))


# --------------------------------------------------------------------------- statements
def assigned(stmts):
    """names (re)bound by these statements, in order of first appearance"""
    out = []

    def add(x):
        if x not in out: out.append(x)

    def target(t):
        if isinstance(t, ast.Name): add(t.id)
        elif isinstance(t, ast.Tuple): [target(e) for e in t.elts]
        elif isinstance(t, ast.Subscript) and isinstance(t.value, ast.Name): add(t.value.id)
        else: fail(t, "assignment target")

    for s in stmts:
        if isinstance(s, ast.Assign): [target(t) for t in s.targets]
        elif isinstance(s, ast.AugAssign): target(s.target)
        elif isinstance(s, ast.AnnAssign):
            if s.value is not None: target(s.target)
        elif isinstance(s, ast.If): [add(x) for x in assigned(s.body) + assigned(s.orelse)]
        elif isinstance(s, ast.For): target(s.target); [add(x) for x in assigned(s.body)]
        elif isinstance(s, ast.Try):
            for h in s.handlers: [add(x) for x in assigned(h.body)]
            [add(x) for x in assigned(s.body)]
        elif isinstance(s, ast.Expr) and isinstance(s.value, ast.Call) and isinstance(s.value.func, ast.Attribute):
            c = s.value
            if is_self_actions(c.func.value) and c.func.attr == "append": add(ACTS)
            elif c.func.attr == "remove" and isinstance(c.func.value, ast.Name): add(c.func.value.id)
    return out


def is_self_actions(n):
    return isinstance(n, ast.Attribute) and n.attr == "actions" and isinstance(n.value, ast.Name) and n.value.id == "self"


def terminates(stmts):
    if not stmts: return False
    s = stmts[-1]
    if isinstance(s, (ast.Raise, ast.Continue)): return True
    if isinstance(s, ast.If): return bool(s.orelse) and terminates(s.body) and terminates(s.orelse)
    return False


def dead(env):
    raise Unsupported("%s: internal: continuation of a block that cannot fall through" % CUR["file"])


def is_docstring(s):
    return isinstance(s, ast.Expr) and isinstance(s.value, ast.Constant) and isinstance(s.value.value, str)


def binds(pre):
    return "".join("do %s, s <- %s;\n" % (x, t) for x, t in pre)


def tuple_pat(names):
    if not names: return "(_ : unit)"
    if len(names) == 1: return names[0]
    return "'(%s)" % ", ".join(names)


def tuple_ty(tys):
    return " * ".join(COQTY[t] for t in tys) if tys else "unit"


def join(node, names, env, branches):
    """branches: functions k -> text.  Runs each once to learn the types the variables end with, then again with the
    continuation that returns them.  Returns (types, [texts])."""
    seen = []

    def probe(e):
        seen.append(e); return "_"
    save = CUR["n"]
    for b in branches: b(probe)
    CUR["n"] = save
    names = [x for x in names if all(x in e.v for e in seen)]
    tys = []
    for x in names:
        ty = env.v[x].ty if x in env.v else seen[0].v[x].ty
        for e in seen: ty = unify(node, ty, e.v[x].ty)
        if ty not in COQTY: fail(node, "variable %s of type %s cannot leave a branch" % (x, ty))
        tys.append(ty)

    def kjoin(e):
        vals = [coerce(node, e.v[x], ty) for x, ty in zip(names, tys)]
        return "Ok %s s" % ("(%s)" % ", ".join(vals) if len(vals) > 1 else (vals[0] if vals else "tt"))
    return names, tys, [b(kjoin) for b in branches]


def rebind(env, names, tys):
    e = env.copy()
    for x, ty in zip(names, tys): e.v[x] = V("acts" if x == ACTS else cname(x), ty)
    return e


def cn(x):
    return "acts" if x == ACTS else cname(x)


def block(stmts, env, k, loopk=None):
    if not stmts: return k(env)
    s, rest = stmts[0], stmts[1:]
    go = lambda e: block(rest, e, k, loopk)
    if is_docstring(s): return go(env)
    if isinstance(s, ast.AnnAssign) and s.value is None:
        t = s.target
        if isinstance(t, ast.Attribute) and isinstance(t.value, ast.Name) and t.value.id == "self" and t.attr == "tracks" and s.simple == 0:
            return go(env)
        fail(s, "annotation")
    if isinstance(s, ast.Raise):
        if rest: fail(rest[0], "statement after raise")
        if s.exc is None and s.cause is None:
            if env.exc: return "Err (EInvalid %s) s" % env.exc
            fail(s, "bare raise outside an InvalidActionError handler")
        c = s.exc
        if s.cause is None and isinstance(c, ast.Call) and isinstance(c.func, ast.Name) and len(c.args) == 1:
            message(c.args[0], env)
            if c.func.id == "InvalidActionError":
                if not c.keywords: return "Err (EInvalid false) s"
                if len(c.keywords) == 1 and c.keywords[0].arg == "forceable" and type(getattr(c.keywords[0].value, "value", None)) is bool:
                    return "Err (EInvalid %s) s" % ("true" if c.keywords[0].value.value else "false")
            if c.func.id == "ValueError" and not c.keywords: return "Err EValue s"
        fail(s, "raise")
    if isinstance(s, ast.Continue):
        if rest: fail(rest[0], "statement after continue")
        if loopk is None: fail(s, "continue outside a loop")
        return loopk(env)
    if isinstance(s, ast.Assert):
        # assert len(np.unique(P[0])) == 1, "<text>"      P : pixels
        t = s.test
        ok = (isinstance(s.msg, ast.Constant) and isinstance(t, ast.Compare) and len(t.ops) == 1 and isinstance(t.ops[0], ast.Eq)
              and const_int(t.comparators[0]) == 1 and isinstance(t.left, ast.Call) and isinstance(t.left.func, ast.Name)
              and t.left.func.id == "len" and len(t.left.args) == 1)
        if ok:
            u = t.left.args[0]
            ok = (isinstance(u, ast.Call) and isinstance(u.func, ast.Attribute) and isinstance(u.func.value, ast.Name)
                  and u.func.value.id == "np" and u.func.attr == "unique" and len(u.args) == 1 and not u.keywords
                  and ex(u.args[0], env, None).ty == "pxaxis0")
        if ok: return go(env)
        fail(s, "assert")
    if isinstance(s, ast.If):
        bt, ot = terminates(s.body), terminates(s.orelse)
        if bt and ot:
            if rest: fail(rest[0], "unreachable statement")
            return emit_if(s.test, env, lambda e: block(s.body, e, dead, loopk), lambda e: block(s.orelse, e, dead, loopk))
        # a compound condition duplicates its else-continuation: keep that continuation small (join form below)
        simple = not any(isinstance(x, ast.BoolOp) for x in ast.walk(s.test))
        if bt and simple: return emit_if(s.test, env, lambda e: block(s.body, e, dead, loopk), lambda e: block(s.orelse + rest, e, k, loopk))
        if ot and simple: return emit_if(s.test, env, lambda e: block(s.body + rest, e, k, loopk), lambda e: block(s.orelse, e, dead, loopk))
        if not rest: return emit_if(s.test, env, lambda e: block(s.body, e, k, loopk), lambda e: block(s.orelse, e, k, loopk))

        def whole(kk):
            return emit_if(s.test, env, lambda e: block(s.body, e, kk, loopk), lambda e: block(s.orelse, e, kk, loopk))
        cand = assigned(s.body) + [x for x in assigned(s.orelse) if x not in assigned(s.body)]
        # a variable first bound inside the `if` leaves it only when it is read somewhere below (in source order)
        cand = [x for x in cand if x in env.v or x in CUR["reads"](s.end_lineno)]
        names, tys, (txt,) = join(s, cand, env, [whole])
        e2 = rebind(env, names, tys)
        for x in assigned(s.body) + assigned(s.orelse):
            if x not in names: e2.v.pop(x, None)
        return "bind (A := %s) (\n%s)\n(fun %s s =>\n%s)" % (tuple_ty(tys), ind(txt), tuple_pat([cn(x) for x in names]), go(e2))
    if isinstance(s, ast.For):
        if s.orelse: fail(s, "for-else")
        ipre = []                 # a raising iterable expression is evaluated once, before the loop
        it = s.iter
        if isinstance(it, ast.Call) and isinstance(it.func, ast.Name) and it.func.id == "reversed" and len(it.args) == 1 and is_self_actions(it.args[0]):
            itv = V("(rev acts)", "acts")
        else:
            itv = ex(it, env, ipre)
        if itv.ty not in ELEM: fail(s, "loop over %s" % itv.ty)
        el = ELEM[itv.ty]
        x = fresh("x")
        e0 = env.copy(); head = ""
        if isinstance(s.target, ast.Name):
            x = cname(s.target.id); e0.v[s.target.id] = V(x, el)
            tnames = [s.target.id]
        elif isinstance(s.target, ast.Tuple) and el == "group" and len(s.target.elts) == 2 and all(isinstance(e, ast.Name) for e in s.target.elts):
            a, b = (e.id for e in s.target.elts)
            e0.v[a] = V(cname(a), "px"); e0.v[b] = V(cname(b), "Z")
            head = "let '(%s, %s) := %s in\n" % (cname(a), cname(b), x)
            tnames = [a, b]
        else: fail(s, "loop target")
        carried = [v for v in assigned(s.body) if v in env.v]
        if isinstance(it, ast.Name) and it.id in assigned(s.body): fail(s, "the loop changes the list it iterates over")
        for v in tnames:
            if v in assigned(s.body): fail(s, "the loop body rebinds its target")
        # loop-local names must not be read before they are assigned: they are absent from e0, ex() fails on them
        for v in assigned(s.body):
            if v not in env.v: e0.v.pop(v, None)
        ends = []

        def body(kk):
            def kend(e):
                ends.append(e); return kk(e)
            return block(s.body, e0, kend, kend)
        names, tys, (txt,) = join(s, carried, env, [body])
        if names != carried: fail(s, "loop-carried variable not assigned on every path")
        init = [coerce(s, env.v[v], ty) for v, ty in zip(names, tys)]
        e2 = rebind(env, names, tys)
        # `ndim = len(pixels)` has no model content; the name stays visible after the loop (Python's rule)
        # if every way through the body, `continue` included, has assigned it
        for nm, val in ends[0].v.items():
            if val.ty == "ndim" and all(nm in e.v and e.v[nm].ty == "ndim" for e in ends): e2.v[nm] = val
        pat = tuple_pat([cn(v) for v in names])
        return binds(ipre) + "bind (A := %s) (py_for %s %s s (fun %s %s s =>\n%s))\n(fun %s s =>\n%s)" % (
            tuple_ty(tys), itv.coq, "(%s)" % ", ".join(init) if len(init) > 1 else (init[0] if init else "tt"),
            x, pat, ind(head + txt), pat, go(e2))
    if isinstance(s, ast.Try):
        if (len(s.body) != 1 or s.orelse or s.finalbody or len(s.handlers) != 1 or s.handlers[0].name is not None
                or not (isinstance(s.handlers[0].type, ast.Name) and s.handlers[0].type.id == "InvalidActionError")):
            fail(s, "try statement")
        if not is_append(s.body[0]): fail(s.body[0], "try body")
        h = s.handlers[0]
        if not terminates(h.body): fail(h, "handler that falls through")
        f = fresh("f")
        eh = env.copy(); eh.exc = f
        names, tys, (txt,) = join(s, assigned(s.body), env, [lambda kk: block(s.body, env, kk, None)])
        htxt = block(h.body, eh, dead, None)
        e2 = rebind(env, names, tys)
        return "bind (A := %s) (py_try_invalid (\n%s)\n(fun %s s =>\n%s))\n(fun %s s =>\n%s)" % (
            tuple_ty(tys), ind(txt), f, ind(htxt), tuple_pat([cn(v) for v in names]), go(e2))
    if isinstance(s, ast.AugAssign) and isinstance(s.target, ast.Name) and isinstance(s.op, (ast.Add, ast.Sub)):
        pre = []
        cur = ex(s.target, env, pre); v = ex(s.value, env, pre)
        if cur.ty != "Z" or v.ty != "Z": fail(s, "augmented assignment")
        e2 = env.copy(); e2.v[s.target.id] = V(cname(s.target.id), "Z")
        return binds(pre) + "let %s := %s %s %s in\n" % (cname(s.target.id), cur.coq, "+" if isinstance(s.op, ast.Add) else "-", v.coq) + go(e2)
    if isinstance(s, ast.AnnAssign) and isinstance(s.target, ast.Name) and s.simple == 1:
        return block([ast.copy_location(ast.Assign(targets=[s.target], value=s.value), s)] + rest, env, k, loopk)
    if isinstance(s, ast.Assign) and len(s.targets) == 1:
        t, val = s.targets[0], s.value
        # p, c = T.get_track_neighbors(k, t)
        if (isinstance(t, ast.Tuple) and len(t.elts) == 2 and all(isinstance(e, ast.Name) for e in t.elts) and isinstance(val, ast.Call)
                and isinstance(val.func, ast.Attribute) and val.func.attr == "get_track_neighbors"):
            if ex(val.func.value, env, None).ty != "TRACKS" or len(val.args) != 2 or val.keywords: fail(s, "get_track_neighbors")
            pre = []
            a = [ex(x, env, pre) for x in val.args]
            if any(v.ty != "Z" for v in a): fail(s, "get_track_neighbors arguments")
            p, c = (e.id for e in t.elts)
            e2 = env.copy(); e2.v[p] = V(cname(p), "optZ"); e2.v[c] = V(cname(c), "optZ")
            return binds(pre) + "let '(s, (%s, %s)) := track_neighbors s %s %s in\n" % (cname(p), cname(c), a[0].coq, a[1].coq) + go(e2)
        if isinstance(t, ast.Tuple) and all(isinstance(e, ast.Name) for e in t.elts) and len(t.elts) == 2:
            v = ex(val, env, None)
            if v.ty != "pair": fail(s, "tuple assignment")
            e2 = env.copy()
            for e, cpt in zip(t.elts, v.parts()): e2.v[e.id] = V(cpt, "Z")
            return go(e2)
        if isinstance(t, ast.Subscript) and isinstance(t.value, ast.Name):
            pre = []
            d = ex(t.value, env, pre); kk = ex(t.slice, env, pre); v = ex(val, env, pre)
            if d.ty != "attrs" or kk.ty != "key" or v.ty != "Z": fail(s, "item assignment")
            e2 = env.copy(); e2.v[t.value.id] = V(cname(t.value.id), "attrs")
            return binds(pre) + "let %s := set %s (VZ %s) %s in\n" % (cname(t.value.id), kk.coq, v.coq, d.coq) + go(e2)
        if isinstance(t, ast.Name):
            if isinstance(val, ast.Name) and env.v.get(val.id) is not None and env.v[val.id].ty in ("listZ", "listE", "listG", "attrs"):
                fail(s, "aliasing of a mutable value")
            pre = []
            v = ex(val, env, pre)
            e2 = env.copy()
            if v.ty in ("TRACKS", "GRAPH", "FEATURES", "POSKEY", "key", "none", "nil", "ndim"):
                e2.v[t.id] = v                       # aliases and constants: no code
                return binds(pre) + go(e2)
            if v.ty not in COQTY: fail(s, "assignment of a value of type %s" % v.ty)
            if pre and pre[-1][0] == v.coq:          # the value is the last raising sub-expression: bind it under the variable's name
                pre[-1] = (cname(t.id), pre[-1][1])
                e2.v[t.id] = V(cname(t.id), v.ty)
                return binds(pre) + go(e2)
            e2.v[t.id] = V(cname(t.id), v.ty)
            return binds(pre) + "let %s := %s in\n" % (cname(t.id), v.pair() if v.ty == "pair" else v.coq) + go(e2)
        fail(s, "assignment")
    if isinstance(s, ast.Expr) and isinstance(s.value, ast.Call):
        c = s.value
        if is_append(s):
            pre = []
            term, wrap = constructor(c.args[0], env, pre)
            e2 = env.copy(); e2.v[ACTS] = V("acts", "acts")
            x = "b" if wrap == "ABasic b" else "a"
            return binds(pre) + "do %s, s <- %s;\nlet acts := acts ++ [%s] in\n" % (x, term, wrap) + go(e2)
        f = c.func
        if isinstance(f, ast.Attribute) and f.attr == "remove" and isinstance(f.value, ast.Name) and len(c.args) == 1 and not c.keywords:
            l = ex(f.value, env, None); pre = []
            v = ex(c.args[0], env, pre)
            if l.ty != "listZ" or v.ty != "Z": fail(s, "remove")
            e2 = env.copy(); e2.v[f.value.id] = V(cname(f.value.id), "listZ")
            return binds(pre) + "let %s := remove1 %s %s in\n" % (cname(f.value.id), v.coq, l.coq) + go(e2)
        if isinstance(f, ast.Attribute) and f.attr == "inverse" and isinstance(f.value, ast.Name) and not c.args and not c.keywords:
            a = ex(f.value, env, None)
            if a.ty != "action": fail(s, "inverse")
            return "do _i, s <- inv_action s %s;\n" % a.coq + go(env)
    if isinstance(s, ast.Expr) and isinstance(s.value, ast.Subscript):
        # T.segmentation[pixels]  evaluated for its IndexError only
        pre = []
        b = ex(s.value.value, env, None); p = ex(s.value.slice, env, pre)
        if b.ty == "SEG" and p.ty == "px" and not pre:
            return "do _u, s <- py_seg_index s %s;\n" % p.coq + go(env)
        fail(s, "expression statement")
    if isinstance(s, ast.Expr) and isinstance(s.value, ast.Call):
        c = s.value; f = c.func
        if (isinstance(f, ast.Attribute) and f.attr == "warn" and isinstance(f.value, ast.Name) and f.value.id == "warnings" and len(c.args) == 1
                and len(c.keywords) == 1 and c.keywords[0].arg == "stacklevel" and const_int(c.keywords[0].value) is not None):
            message(c.args[0], env)
            return go(env)
    fail(s, "statement")


def message(n, env):
    """an error / warning text: constants and f-strings whose holes cannot raise"""
    if isinstance(n, ast.Constant) and isinstance(n.value, str): return
    if isinstance(n, ast.JoinedStr):
        for p in n.values:
            if isinstance(p, ast.Constant): continue
            if isinstance(p, ast.FormattedValue) and p.format_spec is None and p.conversion == -1:
                h = p.value
                if isinstance(h, ast.Name) and h.id in env.v: continue
                if (isinstance(h, ast.Call) and isinstance(h.func, ast.Attribute) and h.func.attr == "get_time" and len(h.args) == 1
                        and isinstance(h.args[0], ast.Name) and h.args[0].id in env.v and ex(h.func.value, env, None).ty == "TRACKS"):
                    continue
            fail(n, "message")
        return
    fail(n, "message")


def is_append(s):
    return (isinstance(s, ast.Expr) and isinstance(s.value, ast.Call) and isinstance(s.value.func, ast.Attribute) and s.value.func.attr == "append"
            and is_self_actions(s.value.func.value) and len(s.value.args) == 1 and not s.value.keywords)


def constructor(c, env, pre):
    """an action constructor call -> (monadic term, how its result enters acts)"""
    if not (isinstance(c, ast.Call) and isinstance(c.func, ast.Name)): fail(c, "append of something that is not an action constructor")
    name, args = c.func.id, list(c.args)
    kw = {k.arg: k.value for k in c.keywords}
    if None in kw or len(kw) != len(c.keywords): fail(c, "keywords")
    if not args or ex(args[0], env, None).ty != "TRACKS": fail(c, "first argument must be the tracks")
    args = args[1:]

    kworder = [k for k in kw if k != "_top_level"]
    asked = []

    def arg(i, key, ty, default=None):
        if i >= len(args) and key in kw: asked.append(key)
        n = args[i] if i < len(args) else kw.pop(key, None)
        if i < len(args) and key in kw: fail(c, "argument given twice")
        if n is None:
            if default is None: fail(c, "missing argument %s" % key)
            return default
        v = ex(n, env, pre)
        if ty == "pair":
            if v.ty != "pair": fail(n, "edge expected")
            return "%s %s" % v.parts()
        return coerce(n, v, ty)

    def done(nargs):
        if len(args) > nargs or kw: fail(c, "unexpected arguments")
        if pre and asked != kworder: fail(c, "keyword arguments with raising sub-expressions, not in parameter order")

    def nested():
        tl = kw.pop("_top_level", None)
        if not (isinstance(tl, ast.Constant) and tl.value is False): fail(c, "nested user action without _top_level=False")

    if name in ("DeleteEdge", "AddEdge"):
        e = arg(0, "edge", "pair"); done(1)
        return ("do_del_edge s %s" % e if name == "DeleteEdge" else "do_add_edge s %s []" % e), "ABasic b"
    if name == "UpdateTrackIDs":
        n = arg(0, "start_node", "Z"); t = arg(1, "track_id", "Z"); l = arg(2, "lineage_id", "optZ", "None"); done(3)
        return "do_upd_track s %s %s %s" % (n, t, l), "ABasic b"
    if name == "AddNode":
        n = arg(0, "node", "Z"); a = arg(1, "attributes", "attrs"); p = arg(2, "pixels", "optpx", "None"); done(3)
        return "do_add_node s %s %s %s" % (n, a, p), "ABasic b"
    if name == "DeleteNode":
        n = arg(0, "node", "Z"); p = arg(1, "pixels", "optpx", "None"); done(2)
        return "do_del_node s %s %s" % (n, p), "ABasic b"
    if name == "UpdateNodeAttrs":
        n = arg(0, "node", "Z"); a = arg(1, "attrs", "attrs"); done(2)
        return "do_upd_attrs s %s %s" % (n, a), "ABasic b"
    if name == "UpdateNodeSeg":
        n = arg(0, "node", "Z"); p = arg(1, "pixels", "px"); b = arg(2, "added", "bool", "true"); done(3)
        return "do_upd_seg s %s %s %s" % (n, p, b), "ABasic b"
    if name == "UserDeleteEdge":
        nested(); e = arg(0, "edge", "pair"); done(1)
        return "user_delete_edge s %s false" % e, "a"
    if name == "UserAddEdge":
        nested(); e = arg(0, "edge", "pair"); f = arg(1, "force", "bool", "false"); done(2)
        return "user_add_edge s %s %s false" % (e, f), "a"
    if name == "UserDeleteNode":
        nested(); n = arg(0, "node", "Z"); p = arg(1, "pixels", "optpx", "None"); done(2)
        return "user_delete_node s %s %s false" % (n, p), "a"
    if name == "UserAddNode":
        nested(); n = arg(0, "node", "Z"); a = arg(1, "attributes", "attrs"); p = arg(2, "pixels", "optpx", "None")
        f = arg(3, "force", "bool", "false"); done(4)
        return "user_add_node s %s %s %s %s false" % (n, a, p, f), "a"
    fail(c, "unknown action constructor")


# --------------------------------------------------------------------------- classes
def tracks_call(s, attrs, nargs):
    """`T.<attrs...>(args)` as an expression statement -> its argument list, else None"""
    if not (isinstance(s, ast.Expr) and isinstance(s.value, ast.Call) and not s.value.keywords and len(s.value.args) in nargs): return None
    f = s.value.func
    for a in reversed(attrs):
        if not (isinstance(f, ast.Attribute) and f.attr == a): return None
        f = f.value
    if isinstance(f, ast.Name) and f.id == "tracks": return s.value.args
    if isinstance(f, ast.Attribute) and f.attr == "tracks" and isinstance(f.value, ast.Name) and f.value.id == "self": return s.value.args
    return None


def translate_class(path, cls_name, model):
    CUR["file"] = path; CUR["n"] = 0
    src = open(path).read()
    tree = ast.parse(src)
    cls = [n for n in tree.body if isinstance(n, ast.ClassDef) and n.name == cls_name]
    if len(cls) != 1: raise Unsupported("%s: class %s not found" % (path, cls_name))
    cls = cls[0]
    if [ast.unparse(b) for b in cls.bases] != ["ActionGroup"] or cls.keywords or cls.decorator_list: fail(cls, "class header")
    members = [m for m in cls.body if not is_docstring(m)]
    if len(members) != 1 or not isinstance(members[0], ast.FunctionDef) or members[0].name != "__init__" or members[0].decorator_list:
        fail(cls, "class body must be exactly __init__")
    fn = members[0]
    a = fn.args
    if a.vararg or a.kwarg or a.kwonlyargs or a.posonlyargs or [x.arg for x in a.args[:2]] != ["self", "tracks"]: fail(fn, "signature")
    ndef = len(a.defaults)
    env = Env(); params = []; top = None
    for i, p in enumerate(a.args[1:]):
        ty = ANNOT.get(ast.unparse(p.annotation) if p.annotation else None)
        if ty is None: fail(p, "parameter annotation")
        j = i + 1 - (len(a.args) - ndef)
        if j >= 0:
            d = a.defaults[j]
            okd = (ty == "bool" and isinstance(d, ast.Constant) and type(d.value) is bool) or (ty == "optpx" and is_none(d))
            if not okd: fail(p, "default value")
        if p.arg == "_top_level":
            if ty != "bool" or i != len(a.args) - 2: fail(p, "_top_level")
            top = True; continue
        if ty == "TRACKS": env.v[p.arg] = V("", "TRACKS")
        elif ty == "pair":
            c0, c1 = cname(p.arg) + "_0", cname(p.arg) + "_1"
            env.v[p.arg] = V(None, "pair", comps=(c0, c1)); params += [(c0, "Z"), (c1, "Z")]
        else:
            env.v[p.arg] = V(cname(p.arg), ty); params.append((cname(p.arg), COQTY[ty]))
    body = [s for s in fn.body if not is_docstring(s)]
    # first statement: super().__init__(tracks, actions=[])
    s0 = body[0] if body else None
    if not (isinstance(s0, ast.Expr) and ast.unparse(s0.value) == "super().__init__(tracks, actions=[])"): fail(fn, "first statement must be super().__init__(tracks, actions=[])")
    body = body[1:]
    env.v[ACTS] = V("acts", "acts")
    # tail
    if top:
        last = body[-1] if body else None
        if not (isinstance(last, ast.If) and isinstance(last.test, ast.Name) and last.test.id == "_top_level" and not last.orelse): fail(fn, "tail `if _top_level:`")
        tail, body = last.body, body[:-1]
    else:
        tail, body = body[-2:], body[:-2]
    if len(tail) != 2: fail(fn, "tail")
    h = tracks_call(tail[0], ["action_history", "add_new_action"], (1,))
    if h is None or not (isinstance(h[0], ast.Name) and h[0].id == "self"): fail(tail[0], "tail: add_new_action(self)")
    em = tracks_call(tail[1], ["refresh", "emit"], (0, 1))
    if em is None: fail(tail[1], "tail: refresh.emit")
    for st in ast.walk(ast.Module(body=body, type_ignores=[])):
        if isinstance(st, ast.Name) and st.id == "_top_level": fail(st, "_top_level used outside the tail")
        if isinstance(st, (ast.FunctionDef, ast.Lambda, ast.Return, ast.Global, ast.Nonlocal, ast.While, ast.With, ast.Break, ast.Delete)): fail(st, "statement")
    loads = [(x.lineno, x.id) for x in ast.walk(fn) if isinstance(x, ast.Name) and isinstance(x.ctx, ast.Load)]
    CUR["reads"] = lambda line: {i for l, i in loads if l > line}
    dyn = False
    if not em: payload = "None"
    elif isinstance(em[0], ast.Name) and em[0].id in env.v and env.v[em[0].id].ty == "Z": payload = "(Some %s)" % env.v[em[0].id].coq
    elif isinstance(em[0], ast.Name): dyn = True
    else: fail(tail[1], "refresh payload")

    def final(e):
        if not dyn: return "Ok (AGroup acts) s"
        return "Ok (AGroup acts, %s) s" % coerce(tail[1], ex(em[0], e, None), "optZ")
    core = block(body, env, final)
    ps = "".join(" (%s : %s)" % p for p in params)
    names = " ".join(p[0] for p in params)
    out = ["(* class %s  <-  %s   sha256=%s *)" % (cls_name, os.path.relpath(path, os.path.dirname(os.path.dirname(path))), hashlib.sha256(src.encode()).hexdigest()[:16])]
    out.append("Definition gen_%s_core (s : state)%s : res %s :=\n  let acts := @nil action in\n%s." % (model, ps, "(action * option Z)" if dyn else "action", ind(core)))
    if dyn:
        out.append("Definition gen_%s (s : state)%s : res action :=\n  top_wrap_dyn (gen_%s_core s %s)." % (model, ps, model, names))
    elif top:
        out.append("Definition gen_%s (s : state)%s (top : bool) : res action :=\n  top_wrap top %s (gen_%s_core s %s)." % (model, ps, payload, model, names))
    else:
        out.append("Definition gen_%s (s : state)%s : res action :=\n  top_wrap true %s (gen_%s_core s %s)." % (model, ps, payload, model, names))
    return "\n".join(out) + "\n"


HEADER = """(* GENERATED by harness/translate_user_actions.py from %s/src/funtracks/user_actions -- do not edit.
   Shallow embedding of the seven user-action constructors in the res monad of Model/Edit.v;
   the idiom table is at the top of the translator, the runtime combinators in Model/PyRt.v. *)
From Coq Require Import ZArith List Bool.
From FT Require Import Base.Dict Model.Edit Model.PyRt.
Import ListNotations.
Open Scope Z_scope.
"""


def main(repo=None):
    repo = repo or REPO
    d = os.path.join(repo, "src", "funtracks", "user_actions")
    parts = [HEADER % repo]
    for cls, fname, model in CLASSES:
        parts.append(translate_class(os.path.join(d, fname), cls, model))
    return "\n".join(parts)


LAST = {"ok": None, "msg": ""}      # outcome of the last regenerate()


def regenerate(out=OUT, repo=None):
    """(re)write the generated file from the current sources; returns the output path.
    A source outside the idiom table yields a file that does not type-check (fail closed)."""
    try:
        txt = main(repo)
        LAST.update(ok=True, msg="translated")
    except Unsupported as e:
        txt = "(* TRANSLATION FAILED: %s *)\nDefinition translation_failed : False := I.\n" % str(e).replace("*)", "* )")
        sys.stderr.write("translate_user_actions: Unsupported: %s\n" % e)
        LAST.update(ok=False, msg=str(e))
    except Exception as e:      # a bug of the translator must not look like a translation
        txt = "(* TRANSLATION FAILED: %s: %s *)\nDefinition translation_failed : False := I.\n" % (type(e).__name__, str(e).replace("*)", "* )"))
        sys.stderr.write("translate_user_actions: internal error %s: %s\n" % (type(e).__name__, e))
        LAST.update(ok=False, msg="%s: %s" % (type(e).__name__, e))
    os.makedirs(os.path.dirname(out), exist_ok=True)
    old = open(out).read() if os.path.exists(out) else None
    strip = lambda t: "\n".join(l for l in t.split("\n") if "sha256=" not in l and not l.startswith("(* GENERATED"))
    if old is None or strip(old) != strip(txt):
        open(out, "w").write(txt)
    return out


if __name__ == "__main__":
    if len(sys.argv) > 1 and sys.argv[1] == "--stdout":
        sys.stdout.write(main())
    else:
        print(regenerate(*(sys.argv[1:2] or [OUT])))
        sys.exit(0 if LAST["ok"] else 1)
