"""Fail-closed translator: the code the user actions call  ->  coq/Gen/CoreQueries_gen.v (data_model/solution_tracks.py),
CoreTracks_gen.v (data_model/tracks.py), CoreAnnot_gen.v (annotators/_track_annotator.py), CoreActions_gen.v (actions/*.py);
each imports only the earlier ones it really calls and fails closed on its own.  Gen/Core_gen.v only re-exports the four.

Each method listed in FUNCS is turned into one Gallina definition `gen_<name>` in the `res` monad of
Model/Edit.v (shallow embedding: the state `s` is threaded explicitly; `self` is the part of the state the
class lives in, see "objects" below).  Proofs/CoreTie.v proves every generated definition equal to the
hand-written model function (or to the slice of it that the method implements), so a change of the
Python changes the generated text and un-hooks the tie.

Anything not listed below raises `Unsupported(file:line ...)`; nothing is guessed or skipped.  This table,
the emitter below and Model/PyRt3.v (+ the few combinators reused from Model/PyRt.v) are the trusted part.

CLOSED IDIOM TABLE
 skipped                docstrings; annotations (`x: T = e` is `x = e`; `self.tracks: SolutionTracks`);
                        `warnings.warn(<text>, stacklevel=k)`  (texts: constants and f-strings over local names / fields of self)
 parameters (by annotation)   int, Node -> Z;  bool -> bool;  list[int] -> list Z;  int | None -> option Z;  Edge -> Z * Z;
                        SegMask -> pixels;  SegMask | None -> option pixels;  dict[str, Any] -> attrs;  dict[str, Any] | None -> option attrs;
                        BasicAction -> basic;  unannotated `node` -> Z;  `action: <Class>` -> the fields of that class (ACTION_FIELDS);
                        defaults (constructors only): None, True, False
 -- objects (T = `self` in SolutionTracks / Tracks, `self.tracks` in TrackAnnotator and in the action classes, the `tracks`
    parameter of a constructor;  A = `self` in TrackAnnotator, or `T.track_annotator`;  a local name bound to one is an alias)
 T.graph.has_node(x)  T.graph.successors(x)             has_node s x     successors s x  (a missing x has no successors:
                                                        NetworkXError NOT modelled, the hand model's convention)
 T.graph.has_edge(*e)                                   has_edge s (fst e) (snd e)
 T.get_time(x)  T.get_times(l)                          time_of s x      map (fun n => time_of s n) l   (a missing node
                                                        reads time 0: KeyError NOT modelled, the hand model's convention)
 T.get_pixels(x)                                        get_pixels s x   (Model/Edit.v; total, same convention)
 T.features.tracklet_key | lineage_key | time_key       KTrack | KLin | KTime;   A.tracklet_key | A.lineage_key   KTrack | KLin
 T.features.node_features | edge_features               reg_node (ft s) | reg_edge (ft s)   (iterated: the keys)
 pk = T.features.position_key;  isinstance(pk, list)    pos_is_list s;   for k in pk -> pos_keys (ft s);   pk [not] in d -> haskey (pos_single s) d
 <key> is None                                          key_is_none K  (= false: feature keys are always set)
 <key> in A.features / not in                           trk_act (ft s) | lin_act (ft s)  for KTrack | KLin   (/ negb ..)
 set(T.annotators.all_features.keys())                  annot_all_features s  (a set: only `.add(k)` and `k in ..` are admitted)
 T.get_node_attr(n, K, required=True)  K an id key      do z, s <- py_node_attr_req_z s n K     (KeyError; ids read as integers)
 T.get_node_attr(n, K)                 K an id key      do o, s <- py_node_attr_get_z s n K     (KeyError for a missing node)
 T.get_node_attr(n, k)                 k a variable     do o, s <- py_node_attr_get s n k       (an optional value; explicit None = None)
 T.get_edge_attr(e, k)                                  do o, s <- py_edge_attr_get s e k       (KeyError for a missing edge)
 T._set_node_attr(n, k, v)                              do _u, s <- py_set_node_attr s n k (VZ v | val_of_optz v | v | val_of_opt v)   (KeyError)
 T.graph.nodes[n].pop(k, None)                          do _u, s <- py_pop_node_attr s n k      (KeyError for a missing node)
 T.set_pixels(px, v)                                    do _u, s <- set_pixels s px v           (Model/Edit.v: ValueError / IndexError)
 T.graph.add_node(n) | add_edge(u, v, **d)              s := nx_add_node s n | nx_add_edge s u v d
 T.graph.remove_node(n) | remove_edge(*e)               do _u, s <- nx_remove_node s n | nx_remove_edge s (fst e) (snd e)   (NetworkXError)
 T.notify_annotators(self)  (self an action)            do _u, s <- py_regionprops_update s b; do _u, s <- py_edge_update s b;
                                                        do _u, s <- gen_track_annotator_update fuel s b     (b = the `basic` value of self's
                                                        fields; registry order Regionprops, Edge, Track; the first two are hand models)
 T.node_id_counter                                      nctr s ;  assignment / += :  upd_nctr s ..
 A.max_tracklet_id | A.max_lineage_id                   max_trk (bk s) | max_lin (bk s) ;  assignment: set_max_trk | set_max_lin
 A.tracklet_id_to_nodes | A.lineage_id_to_nodes  (= D)  trk_book (bk s) | lin_book (bk s);   a @property of T whose body is
                                                        `return <such a path>` is followed (T.track_id_to_node)
 k in D / k not in D;  D.get(k)                         haskey k D / negb ..;   lookup k D  (an optional list)
 D[k]  (read)                                           do l, s <- py_getitem D k s              (KeyError)
 D[k] = []                                              s := set_D s (set k [] D)                (only the empty display: no aliasing)
 del D[k]                                               do d, s <- py_delitem D k s; s := set_D s d   (KeyError)
 D[k].extend(l) .append(x) .remove(x) .sort(key=f)      read D[k] as above, then  s := set_D s (set k <new list> D)
 c = D[k]  (a local name for the list object)           the value is bound, the place remembered: c.sort(..) etc. write D[k] back and
                                                        rebind c.  Any other write to a lookup, or a call of a translated method, while
                                                        such a name is live makes its next use Unsupported
 T.action_history.undo() | .redo()                      do b, s <- hist_undo s | hist_redo s     (PyRt3)
 T.refresh.emit()                                       s := emit s None
 action.<field>  (action a parameter)                   the field;  action.attributes.get(K) -> py_attrs_get_z a K  (an option)
 isinstance(action, <Class>)  (action : BasicAction)    match action with <Ctor> fields => .. | _ => .. end   (statement conditions)
 self.<field>  (inside an action class)                 the field (a parameter of _apply / inverse; in __init__ bound by `self.<field> = e`)
 super().__init__(tracks)  (first statement)            self.tracks := tracks
 self._apply()  (end of __init__)                       do _r, s <- gen_<Class>_apply [fuel] s <fields>;  __init__ then yields the `basic` value
 <Class>(T, args, kw=..)  (an action constructor)       do r, s <- gen_<Class>_init [fuel] s args      (defaults filled in; keywords in parameter order)
 self.m(args) / T.m(args) / A.m(args), m in FUNCS       do x, s <- gen_m [fuel] s args   (list arguments must be locals that
                                                        are not names of a D[k] object)
 -- expressions
 ints, + -, == != < <= > >=                             Z, + -, =? negb(=?) <? <=? >? >=?
 a == b with a or b possibly None                       opt_eqb a b
 True False None;  not c;  c1 and c2, c1 or c2          true false None;  negb c;  && || (expression position: operands cannot raise)
 x is None / x is not None  (expression position)       negb (py_is_some x) / py_is_some x;  for an attribute value: py_value_is_none v
 a if c else b;  x if x is not None else b              if c then a else b;  match x with Some x => .. | None => b end
 len(l);  x in l / x not in l  (l a list)               Z.of_nat (length l);  memz x l / negb ..
 k in d / k not in d  (d a dict)                        haskey k d / negb ..
 all(k in d for k in l)                                 forallb (fun k => haskey k d) l
 e[0] e[1]  (e an edge)                                 fst e, snd e
 [];  [e1, .., en];  {};  [e for i in l];  range(n)     [];  [e1; ..];  [];  map (fun i => e) l;  py_range n
 {k: <read that may raise> for k in d}                  py_for (keys d) [] s (fun k acc s => do o, s <- <read>; Ok (set k .. acc) s)
 sorted(l, key=lambda n: e)                             py_sorted_by (fun n => e) l
 -- statements
 x = e;  x += e                                         let x := e in ..   (a raising sub-expression is bound first, in evaluation
                                                        order; a call that may change the state must be the last thing evaluated)
 x = y  (both local lists / dicts)                      allowed; afterwards in-place changes of either are Unsupported while both are live
 l.append(x) l.extend(m) l.remove(x) l.sort(key=f)      l := l ++ [x] | l ++ m | py_list_remove (ValueError) | py_sorted_by f l     (local lists)
 l[i] = v  (local list)                                 do l, s <- py_list_setitem l i v s       (IndexError)
 self.<field>[k] = v  (a dict field)                    field := set k v field
 st.add(k)  (a local set)                               st := st ++ [k]
 if / elif / else                                       if .. then .. else ..; as a statement condition also: `not`, short-circuit
                                                        `and` / `or` (later operands may raise), `x is [not] None` and truthiness of a
                                                        list / optional list (a match that narrows x), isinstance (above);
                                                        variables assigned inside and visible afterwards are returned through the monad
 for x in l: body  [with break]                         py_for l <carried> s (fun x <carried> s => body)  |  py_for_brk .. (CNext | CBreak)
                                                        l: a list, an edge ([fst e; snd e]), a dict (its keys);  for k, v in d.items()
 for i, x in enumerate(l): body                         the same over py_enumerate l; `l[i] = e` in the body is the one allowed change of l
 while c: body                                          py_while fuel <carried> s (fun .. => c) (fun .. => body)   (EFuel when the fuel runs
                                                        out; a generated function that reaches a loop takes `fuel : nat` as its first parameter)
 return e;  return a, b;  return                        Ok e s;  Ok (a, b) s;  Ok tt s   (not inside a loop, not inside a conditional that
                                                        also falls through)
 raise ValueError(msg)                                  Err EValue s
 assert x is not None                                   match x with Some x => .. | None => Err EValue s  (AssertionError has no code)
"""
import ast
import hashlib
import os
import re
import sys


class Unsupported(Exception):
    pass


REPO = os.environ.get("VERIF_REPO", "/repo")
OUT = "/verif/coq/Gen/Core_gen.v"

ST = "data_model/solution_tracks.py"
TR = "data_model/tracks.py"
TA = "annotators/_track_annotator.py"
AU = "actions/update_track_id.py"
AN = "actions/add_delete_node.py"
AE = "actions/add_delete_edge.py"
AA = "actions/update_node_attrs.py"
AS = "actions/update_segmentation.py"
# (source file, class, method, generated name); translated in this order (callees first)
FUNCS = [
    (ST, "SolutionTracks", "get_next_track_id", "gen_get_next_track_id"),
    (ST, "SolutionTracks", "get_next_lineage_id", "gen_get_next_lineage_id"),
    (ST, "SolutionTracks", "get_track_id", "gen_get_track_id"),
    (ST, "SolutionTracks", "get_lineage_id", "gen_get_lineage_id"),
    (ST, "SolutionTracks", "get_track_neighbors", "gen_get_track_neighbors"),
    (ST, "SolutionTracks", "has_track_id_at_time", "gen_has_track_id_at_time"),
    (TR, "Tracks", "_get_new_node_ids", "gen_get_new_node_ids"),
    (TR, "Tracks", "undo", "gen_undo"),
    (TR, "Tracks", "redo", "gen_redo"),
    (TA, "TrackAnnotator", "_add_to_tracklet_bookkeeping", "gen_add_to_tracklet_bookkeeping"),
    (TA, "TrackAnnotator", "_remove_from_tracklet_bookkeeping", "gen_remove_from_tracklet_bookkeeping"),
    (TA, "TrackAnnotator", "_add_to_lineage_bookkeeping", "gen_add_to_lineage_bookkeeping"),
    (TA, "TrackAnnotator", "_remove_from_lineage_bookkeeping", "gen_remove_from_lineage_bookkeeping"),
    (TA, "TrackAnnotator", "_update_tracklet_bookkeeping", "gen_update_tracklet_bookkeeping"),
    (TA, "TrackAnnotator", "_update_lineage_bookkeeping", "gen_update_lineage_bookkeeping"),
    (TA, "TrackAnnotator", "_handle_add_node", "gen_handle_add_node"),
    (TA, "TrackAnnotator", "_handle_delete_node", "gen_handle_delete_node"),
    (TA, "TrackAnnotator", "_handle_update_track_ids", "gen_handle_update_track_ids"),
    (TA, "TrackAnnotator", "update", "gen_track_annotator_update"),
    (AU, "UpdateTrackIDs", "_apply", "gen_UpdateTrackIDs_apply"),
    (AU, "UpdateTrackIDs", "__init__", "gen_UpdateTrackIDs_init"),       # gen_<Class>_init / _apply / _inverse: fixed naming
    (AU, "UpdateTrackIDs", "inverse", "gen_UpdateTrackIDs_inverse"),
    (AS, "UpdateNodeSeg", "_apply", "gen_UpdateNodeSeg_apply"),
    (AS, "UpdateNodeSeg", "__init__", "gen_UpdateNodeSeg_init"),
    (AS, "UpdateNodeSeg", "inverse", "gen_UpdateNodeSeg_inverse"),
    (AE, "AddEdge", "_apply", "gen_AddEdge_apply"),
    (AE, "AddEdge", "__init__", "gen_AddEdge_init"),
    (AE, "DeleteEdge", "_apply", "gen_DeleteEdge_apply"),
    (AE, "DeleteEdge", "__init__", "gen_DeleteEdge_init"),
    (AE, "AddEdge", "inverse", "gen_AddEdge_inverse"),
    (AE, "DeleteEdge", "inverse", "gen_DeleteEdge_inverse"),
    (AN, "AddNode", "_apply", "gen_AddNode_apply"),
    (AN, "AddNode", "__init__", "gen_AddNode_init"),
    (AN, "DeleteNode", "_apply", "gen_DeleteNode_apply"),
    (AN, "DeleteNode", "__init__", "gen_DeleteNode_init"),
    (AN, "AddNode", "inverse", "gen_AddNode_inverse"),
    (AN, "DeleteNode", "inverse", "gen_DeleteNode_inverse"),
    (AA, "UpdateNodeAttrs", "_apply", "gen_UpdateNodeAttrs_apply"),
    (AA, "UpdateNodeAttrs", "__init__", "gen_UpdateNodeAttrs_init"),
    (AA, "UpdateNodeAttrs", "inverse", "gen_UpdateNodeAttrs_inverse"),
]
# one generated file per source group (so that a refused source only takes down what really depends on it)
GROUPS = [("queries", "CoreQueries_gen", "data_model/solution_tracks.py"), ("tracks", "CoreTracks_gen", "data_model/tracks.py"),
          ("annot", "CoreAnnot_gen", "annotators/_track_annotator.py"), ("actions", "CoreActions_gen", "actions/*.py")]
GROUP_FILE = {g: f for g, f, _ in GROUPS}


def group_of_rel(rel):
    return {ST: "queries", TR: "tracks", TA: "annot"}.get(rel, "actions")


KIND = {"SolutionTracks": "TRACKS", "Tracks": "TRACKS", "TrackAnnotator": "ANNOT", "UpdateTrackIDs": "ACT", "AddNode": "ACT", "DeleteNode": "ACT",
        "AddEdge": "ACT", "DeleteEdge": "ACT", "UpdateNodeAttrs": "ACT", "UpdateNodeSeg": "ACT"}
# classes a TRACKS receiver resolves methods / properties in, most derived first
TRACKS_CLASSES = [(ST, "SolutionTracks"), (TR, "Tracks")]

ANNOT_TY = {"int": "Z", "Node": "Z", "bool": "bool", "list[int]": "listZ", "int | None": "optZ", "BasicAction": "basic",
            "SegMask | None": "optpx", "SegMask": "px", "dict[str, Any]": "attrs", "dict[str, Any] | None": "optattrs",
            "Tracks": "TRACKS", "SolutionTracks": "TRACKS", "Edge": "pairZZ", None: None}
UNANNOTATED = {"node": "Z"}
# action class -> (constructor of Model/Edit.v `basic`, its fields in constructor order; an `edge` field is two integers)
ACTION_FIELDS = {
    "UpdateTrackIDs": [("start_node", "Z"), ("old_tracklet_id", "Z"), ("new_tracklet_id", "Z"),
                       ("old_lineage_id", "optZ"), ("new_lineage_id", "optZ")],
    "AddNode": [("node", "Z"), ("attributes", "attrs"), ("pixels", "optpx")],
    "DeleteNode": [("node", "Z"), ("attributes", "attrs"), ("pixels", "optpx")],
    "AddEdge": [("edge", "pairZZ"), ("attributes", "attrs")],
    "DeleteEdge": [("edge", "pairZZ"), ("attributes", "attrs")],
    "UpdateNodeAttrs": [("node", "Z"), ("prev_attrs", "attrs"), ("new_attrs", "attrs")],
    "UpdateNodeSeg": [("node", "Z"), ("pixels", "px"), ("added", "bool")],
}
ACTION_CTOR = {"UpdateTrackIDs": "BUpdTrack", "AddNode": "BAddNode", "DeleteNode": "BDelNode", "AddEdge": "BAddEdge", "DeleteEdge": "BDelEdge",
               "UpdateNodeAttrs": "BUpdAttrs", "UpdateNodeSeg": "BUpdSeg"}
COQTY = {"Z": "Z", "bool": "bool", "optZ": "option Z", "listZ": "list Z", "optlistZ": "option (list Z)", "attrs": "attrs",
         "unit": "unit", "pairOO": "(option Z * option Z)", "pairZZ": "(Z * Z)", "listZZ": "list (Z * Z)",
         "basic": "basic", "optpx": "option pixels", "px": "pixels", "optattrs": "option attrs",
         "value": "value", "optvalue": "option value", "setZ": "list Z", "listKV": "list (Z * value)", "pairKV": "(Z * value)"}
ELEM = {"listZ": "Z", "listZZ": "pairZZ", "listKV": "pairKV"}
BOOKS = {"trk": ("(trk_book (bk s))", "set_trk_book s %s"), "lin": ("(lin_book (bk s))", "set_lin_book s %s")}
FIELDS = {"nctr": ("(nctr s)", "upd_nctr s %s"), "max_trk": ("(max_trk (bk s))", "set_max_trk s %s"),
          "max_lin": ("(max_lin (bk s))", "set_max_lin s %s")}
ATTR = {
    ("TRACKS", "graph"): ("GRAPH", None), ("TRACKS", "features"): ("FEATURES", None), ("TRACKS", "track_annotator"): ("ANNOT", None),
    ("TRACKS", "action_history"): ("HISTORY", None), ("TRACKS", "refresh"): ("REFRESH", None), ("TRACKS", "node_id_counter"): ("FIELD", "nctr"),
    ("ANNOT", "tracks"): ("TRACKS", None), ("ANNOT", "features"): ("AFEATS", None),
    ("ANNOT", "tracklet_key"): ("key", "KTrack"), ("ANNOT", "lineage_key"): ("key", "KLin"),
    ("ANNOT", "tracklet_id_to_nodes"): ("BOOK", "trk"), ("ANNOT", "lineage_id_to_nodes"): ("BOOK", "lin"),
    ("ANNOT", "max_tracklet_id"): ("FIELD", "max_trk"), ("ANNOT", "max_lineage_id"): ("FIELD", "max_lin"),
    ("FEATURES", "tracklet_key"): ("key", "KTrack"), ("FEATURES", "lineage_key"): ("key", "KLin"), ("FEATURES", "time_key"): ("key", "KTime"),
    ("FEATURES", "position_key"): ("POSKEY", None), ("TRACKS", "annotators"): ("REGISTRY", None), ("REGISTRY", "all_features"): ("ALLFEATS", None),
    ("GRAPH", "nodes"): ("NODEVIEW", None),
}
FEATURE_LISTS = {"node_features": "(reg_node (ft s))", "edge_features": "(reg_edge (ft s))"}
ACTIVE = {"KTrack": "(trk_act (ft s))", "KLin": "(lin_act (ft s))"}

CUR = {"file": "?", "n": 0, "fuel": False, "self": None, "trees": {}, "sigs": {}, "repo": REPO, "uses": set(), "failed": {}}
GROUP_OF_GEN = {}      # generated name -> group (filled from FUNCS below)


def use_sig(gen, node=None):
    """the signature of an already translated definition (None: not translated yet); records the cross-file use"""
    if gen in CUR["failed"]:
        raise Unsupported("%s:%s: calls %s, whose source was refused: %s" % (CUR["file"], getattr(node, "lineno", "?"), gen, CUR["failed"][gen]))
    sig = CUR["sigs"].get(gen)
    if sig is not None and gen in GROUP_OF_GEN: CUR["uses"].add(GROUP_OF_GEN[gen])
    return sig


def fail(node, why):
    raise Unsupported("%s:%s: %s: %s" % (CUR["file"], getattr(node, "lineno", "?"), why, ast.dump(node)[:160] if isinstance(node, ast.AST) else node))


def fresh(prefix):
    CUR["n"] += 1
    return "%s%d" % (prefix, CUR["n"])


def cname(x):
    return "v_" + x.replace(".", "_")


def var_key(n):
    """the environment key of a local name or of a field of self"""
    if isinstance(n, ast.Name): return n.id
    if isinstance(n, ast.Attribute) and isinstance(n.value, ast.Name) and n.value.id == "self": return "self." + n.attr
    return None


def ind(txt):
    return "\n".join("  " + l for l in txt.split("\n"))


class V:
    """a translated expression: Coq text and type; for the value of a D[k] object the place (book, key text)"""

    def __init__(self, coq, ty, place=None, arg=None):
        self.coq, self.ty, self.place, self.arg = coq, ty, place, arg


class Env:
    def __init__(self, v=None, grp=None, dead=None, const=None, iterating=None):
        self.v = dict(v or {})                # python name -> V
        self.grp = dict(grp or {})            # local list name -> alias group id
        self.dead = set(dead or ())           # names of D[k] objects that can no longer be trusted
        self.const = set(const or ())         # names that must not be rebound (enumerate index)
        self.iterating = dict(iterating or {})    # list name being enumerated -> its index variable

    def copy(self):
        return Env(self.v, self.grp, self.dead, self.const, self.iterating)

    def aliased(self, x):
        g = self.grp.get(x)
        return g is not None and sum(1 for y, h in self.grp.items() if h == g and y in self.v) > 1

    def kill_places(self):
        for x, val in self.v.items():
            if val.place: self.dead.add(x)


class Ctx:
    def __init__(self, ret, brk=None, in_loop=False):
        self.ret, self.brk, self.in_loop = ret, brk, in_loop


def unify(node, t1, t2):
    if t1 == t2: return t1
    for a, b in ((t1, t2), (t2, t1)):
        if a in ("Z", "none") and b == "optZ": return "optZ"
        if a == "none" and b == "Z": return "optZ"
        if a == "nil" and b in ELEM: return b
        if a in ("px", "none") and b == "optpx": return "optpx"
        if a == "none" and b == "px": return "optpx"
        if a in ("value", "none") and b == "optvalue": return "optvalue"
        if a == "emptydict" and b == "attrs": return "attrs"
        if a == "key" and b == "Z": return "Z"
        if a == "none" and b == "unit": return "unit"
        if a == "pairNN" and b == "pairOO": return "pairOO"
    fail(node, "one variable (or the result) gets the types %s and %s" % (t1, t2))


def coerce(node, v, ty):
    if v.ty == ty: return v.coq
    if ty == "optZ" and v.ty == "Z": return "(Some %s)" % v.coq
    if ty == "optZ" and v.ty == "none": return "None"
    if ty in ELEM and v.ty == "nil": return "[]"
    if ty == "unit" and v.ty == "none": return "tt"
    if ty == "optpx" and v.ty == "px": return "(Some %s)" % v.coq
    if ty in ("optpx", "optattrs") and v.ty == "none": return "None"
    if ty == "optattrs" and v.ty == "attrs": return "(Some %s)" % v.coq
    if ty == "attrs" and v.ty == "emptydict": return "[]"
    if ty == "Z" and v.ty == "key": return v.coq
    if ty == "optvalue" and v.ty == "value": return "(Some %s)" % v.coq
    if ty == "optvalue" and v.ty == "none": return "None"
    if ty == "pairOO" and v.ty == "pairNN": return v.coq
    fail(node, "expected %s, got %s" % (ty, v.ty))


def is_none(n):
    return isinstance(n, ast.Constant) and n.value is None


def action_fields(node, v, env):
    """the Coq texts of the fields of an action value (a narrowed `action` parameter, or `self` inside an action class)"""
    out = []
    for f, ty in ACTION_FIELDS[v.arg]:
        if v.ty == "ACTION": out.append("%s_%s" % (v.coq, f))
        else:
            fv = env.v.get("self." + f)
            if fv is None: fail(node, "field %s is not set yet" % f)
            out.append(coerce(node, fv, ty))
    return out


def action_value(node, v, env):
    parts = []
    for (f, ty), x in zip(ACTION_FIELDS[v.arg], action_fields(node, v, env)):
        parts.append("(fst %s) (snd %s)" % (x, x) if ty == "pairZZ" else x)
    return "(%s %s)" % (ACTION_CTOR[v.arg], " ".join(parts))


def bind_args(n, args, kws, params, env, sub):
    """the arguments of a Python call against the callee's parameters [(name, type, default text)] -> Coq texts"""
    kw = [(k.arg, k.value) for k in kws]
    if any(k is None for k, _ in kw): fail(n, "keywords")
    names = [pn for pn, _, _ in params]
    order = [names.index(k) for k, _ in kw if k in names]
    if len(order) != len(kw) or order != sorted(order) or len(set(order)) != len(order) or (order and order[0] < len(args)): fail(n, "keyword arguments")
    if len(args) > len(params): fail(n, "too many arguments")
    kwd = dict(kw)
    texts = []
    for i, (pn, pty, dflt) in enumerate(params):
        a = args[i] if i < len(args) else kwd.get(pn)
        if a is None:
            if dflt is None: fail(n, "missing argument %s" % pn)
            texts.append(dflt); continue
        v = sub(a)
        if pty.startswith("ACTION:"):
            if v.ty not in ("ACTION", "SELFACT") or v.arg != pty[7:]: fail(a, "expected an action of class %s" % pty[7:])
            texts += action_fields(a, v, env)
            continue
        if pty in ELEM and (v.place or (isinstance(a, ast.Name) and env.aliased(a.id))): fail(a, "a shared list passed to a method")
        texts.append(coerce(a, v, pty))
    return texts


def is_docstring(s):
    return isinstance(s, ast.Expr) and isinstance(s.value, ast.Constant) and isinstance(s.value.value, str)


def mentions_state(txt):
    return re.search(r"(?<![A-Za-z0-9_'])s(?![A-Za-z0-9_'])", txt) is not None


# --------------------------------------------------------------------------- sources
def tree_of(rel):
    if rel not in CUR["trees"]:
        path = os.path.join(CUR["repo"], "src", "funtracks", rel)
        src = open(path).read()
        CUR["trees"][rel] = (ast.parse(src), src, path)
    return CUR["trees"][rel]


def find_method(rel, cls_name, name):
    tree, _, path = tree_of(rel)
    cls = [n for n in tree.body if isinstance(n, ast.ClassDef) and n.name == cls_name]
    if len(cls) != 1: raise Unsupported("%s: class %s not found" % (path, cls_name))
    ms = [m for m in cls[0].body if isinstance(m, ast.FunctionDef) and m.name == name]
    if len(ms) > 1: raise Unsupported("%s: %s.%s defined twice" % (path, cls_name, name))
    return ms[0] if ms else None


def property_value(name, node):
    """T.<name> where <name> is a @property of SolutionTracks / Tracks whose body is `return <path>`"""
    for rel, cls in TRACKS_CLASSES:
        m = find_method(rel, cls, name)
        if m is None: continue
        if [ast.unparse(d) for d in m.decorator_list] != ["property"] or len(m.args.args) != 1: fail(node, "attribute %s: not a plain property" % name)
        body = [s for s in m.body if not is_docstring(s)]
        if len(body) != 1 or not isinstance(body[0], ast.Return) or body[0].value is None: fail(node, "property %s: body is not a single return" % name)
        save = CUR["file"]; CUR["file"] = tree_of(rel)[2]
        try:
            v = ex(body[0].value, Env({"self": V("", "TRACKS")}), None)
        finally:
            CUR["file"] = save
        if v.ty != "BOOK": fail(node, "property %s: unsupported value" % name)
        return v
    fail(node, "unknown attribute %s" % name)


def resolve_call(kind, name):
    """a call of a translated method on a receiver of this kind -> its signature, else None"""
    for (rel, cls, meth, gen) in FUNCS:
        if meth == name and KIND[cls] == kind: return use_sig(gen) or "later"
    return None


# --------------------------------------------------------------------------- expressions
def ex(n, env, pre, top=False):
    """translate an expression.  `pre` collects the monadic bindings (name, term, effect) that run first, in evaluation
    order (None: raising sub-expressions are refused here).  An effect binding (a call that may change the state) must
    be the last thing evaluated: checked by the statement translator through `finish`."""

    def hoist(term, ty, prefix="t", effect=False, place=None):
        if pre is None: fail(n, "raising expression not allowed in this position")
        if any(e for (_, _, e) in pre): fail(n, "evaluated after a call that may change the state")
        x = fresh(prefix)
        pre.append((x, term, effect))
        return V(x, ty, place=place)

    def sub(m):
        return ex(m, env, pre)

    def Zof(m):
        v = sub(m)
        if v.ty != "Z": fail(m, "integer expected, got %s" % v.ty)
        return v.coq

    if isinstance(n, ast.Constant):
        if type(n.value) is int: return V("(%d)" % n.value, "Z")
        if type(n.value) is bool: return V("true" if n.value else "false", "bool")
        if n.value is None: return V("None", "none")
        fail(n, "constant")
    if isinstance(n, ast.Name):
        if n.id in env.v:
            if n.id in env.dead: fail(n, "name of a lookup entry used after the lookups may have changed")
            return env.v[n.id]
        fail(n, "unknown (or possibly unbound) variable")
    if isinstance(n, ast.Attribute):
        b = sub(n.value)
        if b.ty == "SELFACT":
            fv = env.v.get("self." + n.attr)
            if fv is None: fail(n, "field %s is not set (yet)" % n.attr)
            return fv
        if b.ty == "ACTION":
            for f, ty in ACTION_FIELDS[b.arg]:
                if f == n.attr: return V("%s_%s" % (b.coq, f), ty)
            fail(n, "action field")
        hit = ATTR.get((b.ty, n.attr))
        if hit:
            ty, arg = hit
            if ty == "key": return V(arg, "key")
            if ty == "FIELD": return V(FIELDS[arg][0], "Z", arg=arg)
            if ty == "BOOK": return V(BOOKS[arg][0], "BOOK", arg=arg)
            return V("", ty)
        if b.ty == "FEATURES" and n.attr in FEATURE_LISTS: return V(FEATURE_LISTS[n.attr], "listZ")
        if b.ty == "TRACKS": return property_value(n.attr, n)
        fail(n, "attribute")
    if isinstance(n, ast.Dict):
        if not n.keys: return V("[]", "emptydict")
        fail(n, "dict display")
    if isinstance(n, ast.IfExp):
        # a if c else b ;   x if x is not None else b  (x a local: narrowed in its branch)
        tst = n.test
        if none_test(tst) and var_key(tst.left) in env.v:
            x = var_key(tst.left); xv = ex(tst.left, env, None)
            nty = {"optZ": "Z", "optpx": "px", "optattrs": "attrs", "optvalue": "value"}.get(xv.ty)
            if nty is None: fail(n, "conditional expression on a %s" % xv.ty)
            e1 = env.copy(); e1.v[x] = V(cname(x), nty)
            some_n, none_n = (n.body, n.orelse) if isinstance(tst.ops[0], ast.IsNot) else (n.orelse, n.body)
            a = ex(some_n, e1, None); b = ex(none_n, env, None)
            ty = unify(n, a.ty, b.ty)
            if ty not in COQTY: fail(n, "conditional expression of type %s" % ty)
            return V("(match %s with Some %s => %s | None => %s end)" % (xv.coq, cname(x), coerce(n, a, ty), coerce(n, b, ty)), ty)
        c = sub(tst)
        if c.ty != "bool": fail(n, "conditional expression")
        a = ex(n.body, env, None); b = ex(n.orelse, env, None)
        ty = unify(n, a.ty, b.ty)
        if ty not in COQTY: fail(n, "conditional expression of type %s" % ty)
        return V("(if %s then %s else %s)" % (c.coq, coerce(n, a, ty), coerce(n, b, ty)), ty)
    if isinstance(n, ast.DictComp) and len(n.generators) == 1:
        # {k: <T.get_node_attr(n, k)> for k in d}     built entry by entry; the value may raise
        g = n.generators[0]
        if g.is_async or g.ifs or not isinstance(g.target, ast.Name) or not isinstance(n.key, ast.Name) or n.key.id != g.target.id: fail(n, "dict comprehension")
        it = sub(g.iter)
        if it.ty == "attrs": it = V("(keys %s)" % it.coq, "listZ")
        if it.ty != "listZ": fail(n, "dict comprehension over %s" % it.ty)
        e2 = env.copy(); e2.v[g.target.id] = V(cname(g.target.id), "Z")
        ipre = []
        val = ex(n.value, e2, ipre)
        if val.ty not in ("value", "optvalue") or any(e for (_, _, e) in ipre): fail(n, "dict comprehension value")
        vtxt = val.coq if val.ty == "value" else "(val_of_opt %s)" % val.coq
        acc = fresh("d")
        return hoist("py_for %s (@nil (Z * value)) s (fun %s %s s =>\n%s)" % (it.coq, cname(g.target.id), acc, ind(binds(ipre) + "Ok (set %s %s %s) s" % (cname(g.target.id), vtxt, acc))), "attrs", "d")
    if isinstance(n, ast.List):
        if not n.elts: return V("[]", "nil")
        return V("[%s]" % "; ".join(Zof(e) for e in n.elts), "listZ")
    if isinstance(n, ast.Subscript):
        b = sub(n.value)
        if b.ty == "BOOK":
            k = Zof(n.slice)
            return hoist("py_getitem %s %s s" % (b.coq, k), "listZ", "l", place=(b.arg, k))
        if b.ty == "pairZZ" and isinstance(n.slice, ast.Constant) and n.slice.value in (0, 1) and type(n.slice.value) is int:
            return V("(%s %s)" % ("fst" if n.slice.value == 0 else "snd", b.coq), "Z")
        if b.ty == "NODEVIEW": return V(Zof(n.slice), "NODEDICT")
        fail(n, "subscript")
    if isinstance(n, ast.BinOp) and isinstance(n.op, (ast.Add, ast.Sub)):
        l = Zof(n.left); r = Zof(n.right)
        return V("(%s %s %s)" % (l, "+" if isinstance(n.op, ast.Add) else "-", r), "Z")
    if isinstance(n, ast.UnaryOp) and isinstance(n.op, ast.Not):
        v = sub(n.operand)
        if v.ty != "bool": fail(n, "not of a non-boolean")
        return V("(negb %s)" % v.coq, "bool")
    if isinstance(n, ast.BoolOp):
        vs = [sub(n.values[0])] + [ex(x, env, None) for x in n.values[1:]]      # short circuit: later operands must not raise
        if any(v.ty != "bool" for v in vs): fail(n, "and / or of non-booleans")
        return V("(%s)" % (" && " if isinstance(n.op, ast.And) else " || ").join(v.coq for v in vs), "bool")
    if isinstance(n, ast.Compare) and len(n.ops) == 1:
        op, l, r = n.ops[0], n.left, n.comparators[0]
        if isinstance(op, (ast.In, ast.NotIn)):
            a = sub(l); d = sub(r)
            if d.ty == "BOOK" and a.ty == "Z": t = "(haskey %s %s)" % (a.coq, d.coq)
            elif d.ty == "attrs" and a.ty in ("key", "Z"): t = "(haskey %s %s)" % (a.coq, d.coq)
            elif d.ty == "attrs" and a.ty == "POSKEY": t = "(haskey (pos_single s) %s)" % d.coq
            elif d.ty == "setZ" and a.ty in ("key", "Z"): t = "(memz %s %s)" % (a.coq, d.coq)
            elif d.ty == "AFEATS" and a.ty == "key" and a.coq in ACTIVE: t = ACTIVE[a.coq]
            elif d.ty == "listZ" and a.ty == "Z": t = "(memz %s %s)" % (a.coq, d.coq)
            else: fail(n, "membership test")
            return V(t if isinstance(op, ast.In) else "(negb %s)" % t, "bool")
        if isinstance(op, (ast.Is, ast.IsNot)):
            if not is_none(r): fail(n, "is")
            v = sub(l)
            if v.ty == "key": isn, isnt = "(key_is_none %s)" % v.coq, "(negb (key_is_none %s))" % v.coq
            elif v.ty == "value": isn, isnt = "(py_value_is_none %s)" % v.coq, "(negb (py_value_is_none %s))" % v.coq
            elif v.ty in ("optpx", "optattrs", "optvalue"): isn, isnt = "(negb (py_is_some %s))" % v.coq, "(py_is_some %s)" % v.coq
            elif v.ty == "optZ": isn, isnt = "(negb (py_is_some %s))" % v.coq, "(py_is_some %s)" % v.coq
            elif v.ty == "Z": isn, isnt = "false", "true"
            elif v.ty == "none": isn, isnt = "true", "false"
            else: fail(n, "None test on %s" % v.ty)
            return V(isnt if isinstance(op, ast.IsNot) else isn, "bool")
        lv = sub(l); rv = sub(r)
        if isinstance(op, (ast.Eq, ast.NotEq)) and "optZ" in (lv.ty, rv.ty) and lv.ty in ("optZ", "Z", "none") and rv.ty in ("optZ", "Z", "none"):
            t = "(opt_eqb %s %s)" % (coerce(l, lv, "optZ"), coerce(r, rv, "optZ"))
            return V(t if isinstance(op, ast.Eq) else "(negb %s)" % t, "bool")
        if lv.ty != "Z" or rv.ty != "Z": fail(n, "comparison of %s and %s" % (lv.ty, rv.ty))
        sym = {ast.Eq: "=?", ast.Lt: "<?", ast.LtE: "<=?", ast.Gt: ">?", ast.GtE: ">=?"}.get(type(op))
        if sym: return V("(%s %s %s)" % (lv.coq, sym, rv.coq), "bool")
        if isinstance(op, ast.NotEq): return V("(negb (%s =? %s))" % (lv.coq, rv.coq), "bool")
        fail(n, "comparison operator")
    if isinstance(n, ast.ListComp) and len(n.generators) == 1:
        g = n.generators[0]
        if g.is_async or g.ifs or not isinstance(g.target, ast.Name): fail(n, "comprehension")
        it = sub(g.iter)
        if it.ty != "listZ": fail(n, "comprehension over %s" % it.ty)
        e2 = env.copy(); e2.v[g.target.id] = V(cname(g.target.id), "Z")
        e = ex(n.elt, e2, None)
        if e.ty != "Z": fail(n, "comprehension element")
        return V("(map (fun %s => %s) %s)" % (cname(g.target.id), e.coq, it.coq), "listZ")
    if isinstance(n, ast.Call):
        return call(n, env, pre, hoist, sub, Zof)
    fail(n, "expression")


def key_lambda(n, env):
    """key=lambda x: e  ->  (fun x => e), e an integer that cannot raise"""
    if not (isinstance(n, ast.Lambda) and len(n.args.args) == 1 and not (n.args.vararg or n.args.kwarg or n.args.kwonlyargs or n.args.defaults or n.args.posonlyargs)):
        fail(n, "sort key")
    x = n.args.args[0].arg
    e2 = env.copy(); e2.v[x] = V(cname(x), "Z")
    b = ex(n.body, e2, None)
    if b.ty != "Z": fail(n, "sort key of type %s" % b.ty)
    return "(fun %s => %s)" % (cname(x), b.coq)


def sort_key(c, env):
    if len(c.keywords) != 1 or c.keywords[0].arg != "key": fail(c, "sort arguments")
    return key_lambda(c.keywords[0].value, env)


def call(n, env, pre, hoist, sub, Zof):
    f, args, kws = n.func, n.args, n.keywords
    if isinstance(f, ast.Name) and f.id in ACTION_FIELDS:       # an action constructor: applies the action
        sig = use_sig("gen_%s_init" % f.id, n)
        if sig is None: fail(n, "constructor of a class that is not translated (yet)")
        params, rty, fuel, gen = sig
        if not args or sub(args[0]).ty != "TRACKS": fail(n, "first argument must be the tracks")
        texts = bind_args(n, args[1:], kws, params, env, sub)
        if fuel: CUR["fuel"] = True
        return hoist("%s%s s%s" % (gen, " fuel" if fuel else "", "".join(" " + x for x in texts)), rty, "r", effect=True)
    if isinstance(f, ast.Name):
        if f.id == "sorted" and len(args) == 1:
            v = sub(args[0])
            if v.ty != "listZ": fail(n, "sorted of %s" % v.ty)
            return V("(py_sorted_by %s %s)" % (sort_key(n, env), v.coq), "listZ")
        if kws: fail(n, "keyword arguments")
        if f.id == "len" and len(args) == 1:
            v = sub(args[0])
            if v.ty in ELEM: return V("(Z.of_nat (length %s))" % v.coq, "Z")
            fail(n, "len of %s" % v.ty)
        if f.id == "range" and len(args) == 1: return V("(py_range %s)" % Zof(args[0]), "listZ")
        if f.id == "isinstance" and len(args) == 2 and isinstance(args[1], ast.Name) and args[1].id == "list" and sub(args[0]).ty == "POSKEY":
            return V("(pos_is_list s)", "bool")
        if f.id == "set" and len(args) == 1 and ast.unparse(args[0]).endswith(".keys()"):
            inner = args[0]
            if isinstance(inner, ast.Call) and not inner.args and not inner.keywords and sub(inner.func.value).ty == "ALLFEATS":
                return V("(annot_all_features s)", "setZ")
        if f.id == "all" and len(args) == 1 and isinstance(args[0], ast.GeneratorExp) and len(args[0].generators) == 1:
            ge, g = args[0], args[0].generators[0]
            if not g.ifs and not g.is_async and isinstance(g.target, ast.Name):
                it = sub(g.iter)
                if it.ty == "POSKEY": it = V("(pos_keys (ft s))", "listZ")
                e2 = env.copy(); e2.v[g.target.id] = V(cname(g.target.id), "Z")
                c = ex(ge.elt, e2, None)
                if it.ty == "listZ" and c.ty == "bool": return V("(forallb (fun %s => %s) %s)" % (cname(g.target.id), c.coq, it.coq), "bool")
            fail(n, "all(...)")
        fail(n, "call of %s" % f.id)
    if not isinstance(f, ast.Attribute): fail(n, "call")
    recv = sub(f.value)
    m = f.attr
    kw = {k.arg: k.value for k in kws}
    if None in kw or len(kw) != len(kws): fail(n, "keywords")
    if recv.ty == "GRAPH" and not kw and len(args) == 1:
        if m == "has_node": return V("(has_node s %s)" % Zof(args[0]), "bool")
        if m == "successors": return V("(successors s %s)" % Zof(args[0]), "listZ")
        if m == "has_edge" and isinstance(args[0], ast.Starred):
            e = sub(args[0].value)
            if e.ty == "pairZZ": return V("(has_edge s (fst %s) (snd %s))" % (e.coq, e.coq), "bool")
    if recv.ty == "attrs" and m == "items" and not kw and not args: return V(recv.coq, "listKV")
    if recv.ty == "BOOK" and m == "get" and not kw and len(args) == 1:
        return V("(lookup %s %s)" % (Zof(args[0]), recv.coq), "optlistZ")
    if recv.ty == "attrs" and m == "get" and not kw and len(args) == 1:
        k = sub(args[0])
        if k.ty == "key": return V("(py_attrs_get_z %s %s)" % (recv.coq, k.coq), "optZ")
    if recv.ty == "HISTORY" and m in ("undo", "redo") and not kw and not args:
        return hoist("hist_%s s" % m, "bool", "b", effect=True)
    if recv.ty == "SELFACT":
        sig = use_sig("gen_%s_%s" % (recv.arg, m.lstrip("_")), n)
        if sig is None or m not in ("_apply", "inverse") or args or kws: fail(n, "method of an action class")
        params, rty, fuel, gen = sig
        if fuel: CUR["fuel"] = True
        return hoist("%s%s s%s" % (gen, " fuel" if fuel else "", "".join(" " + x for x in action_fields(n, recv, env))), rty, "r", effect=True)
    if recv.ty in ("TRACKS", "ANNOT"):
        sig = resolve_call(recv.ty, m)
        if sig == "later": fail(n, "call of a method that is translated later (or recursion)")
        if sig is not None:
            params, rty, fuel, gen = sig
            texts = bind_args(n, args, kws, params, env, sub)
            if fuel: CUR["fuel"] = True
            return hoist("%s%s s%s" % (gen, " fuel" if fuel else "", "".join(" " + x for x in texts)), rty, "r", effect=True)
    if recv.ty == "TRACKS":
        if m == "get_time" and not kw and len(args) == 1: return V("(time_of s %s)" % Zof(args[0]), "Z")
        if m == "get_times" and not kw and len(args) == 1:
            v = sub(args[0])
            if v.ty == "listZ": return V("(map (fun n => time_of s n) %s)" % v.coq, "listZ")
        if m == "get_pixels" and not kw and len(args) == 1: return V("(get_pixels s %s)" % Zof(args[0]), "optpx")
        if m == "get_edge_attr" and not kw and len(args) == 2:
            e = sub(args[0]); k = sub(args[1])
            if e.ty == "pairZZ" and k.ty in ("key", "Z"): return hoist("py_edge_attr_get s %s %s" % (e.coq, k.coq), "optvalue")
        if m == "get_node_attr" and len(args) == 2 and not kw and sub(args[1]).ty == "Z":      # an arbitrary key
            return hoist("py_node_attr_get s %s %s" % (Zof(args[0]), sub(args[1]).coq), "optvalue")
        if m == "get_node_attr" and len(args) == 2:
            nd = Zof(args[0]); k = sub(args[1])
            if k.ty != "key": fail(n, "attribute key")
            if not kw: return hoist("py_node_attr_get_z s %s %s" % (nd, k.coq), "optZ")
            if list(kw) == ["required"] and isinstance(kw["required"], ast.Constant) and kw["required"].value is True:
                return hoist("py_node_attr_req_z s %s %s" % (nd, k.coq), "Z")
    fail(n, "method call")


def finish(node, v, pre):
    """the value is used after its bindings ran: when one of them may change the state, the value must not read the state"""
    if pre and any(e for (_, _, e) in pre) and mentions_state(v.coq): fail(node, "reads the state in the same expression as a call that may change it")
    return v


def binds(pre):
    return "".join("do %s, s <- %s;\n" % (x, t) for x, t, _ in pre)


# --------------------------------------------------------------------------- conditions
def none_test(t):
    return isinstance(t, ast.Compare) and len(t.ops) == 1 and isinstance(t.ops[0], (ast.Is, ast.IsNot)) and is_none(t.comparators[0])


def emit_if(t, env, kt, kf):
    """conditional on a statement condition; kt / kf build the two branches from the (narrowed) environment"""
    if isinstance(t, ast.UnaryOp) and isinstance(t.op, ast.Not): return emit_if(t.operand, env, kf, kt)
    if isinstance(t, ast.BoolOp):
        first, rest = t.values[0], t.values[1:]
        nxt = rest[0] if len(rest) == 1 else ast.copy_location(ast.BoolOp(op=t.op, values=rest), t)
        if isinstance(t.op, ast.And): return emit_if(first, env, lambda e: emit_if(nxt, e, kt, kf), kf)
        return emit_if(first, env, kt, lambda e: emit_if(nxt, e, kt, kf))
    if none_test(t) and var_key(t.left) in env.v:
        x = var_key(t.left)
        v = ex(t.left, env, None)
        pos = isinstance(t.ops[0], ast.IsNot)
        nty = {"optZ": "Z", "optpx": "px", "optattrs": "attrs", "optvalue": "value"}.get(v.ty)
        if nty:
            e1 = env.copy(); e1.v[x] = V(cname(x), nty)
            some, none = (kt(e1), kf(env.copy())) if pos else (kf(e1), kt(env.copy()))
            return "match %s with\n| Some %s =>\n%s\n| None =>\n%s\nend" % (v.coq, cname(x), ind(some), ind(none))
        if v.ty == "Z": return (kt if pos else kf)(env.copy())
        if v.ty == "none": return (kf if pos else kt)(env.copy())
    if isinstance(t, ast.Name) and t.id in env.v and env.v[t.id].ty in ("listZ", "optlistZ", "nil"):
        v = ex(t, env, None)
        if v.ty == "nil": return kf(env.copy())
        e1 = env.copy(); e1.v[t.id] = V(cname(t.id), "listZ", place=v.place)
        pat = "(_ :: _) as %s" % cname(t.id)
        if v.ty == "optlistZ": pat = "Some (%s)" % pat
        return "match %s with\n| %s =>\n%s\n| _ =>\n%s\nend" % (v.coq, pat, ind(kt(e1)), ind(kf(env.copy())))
    if isinstance(t, ast.Call) and isinstance(t.func, ast.Name) and t.func.id == "isinstance" and not (len(t.args) == 2 and isinstance(t.args[1], ast.Name) and t.args[1].id == "list"):
        if len(t.args) == 2 and not t.keywords and isinstance(t.args[0], ast.Name) and isinstance(t.args[1], ast.Name) and t.args[1].id in ACTION_FIELDS:
            x = t.args[0].id; cls = t.args[1].id
            v = ex(t.args[0], env, None)
            if v.ty == "basic":
                e1 = env.copy(); e1.v[x] = V(v.coq, "ACTION", arg=cls)
                pat = "%s %s" % (ACTION_CTOR[cls], " ".join("%s_%s" % (v.coq, f) for f, _ in ACTION_FIELDS[cls]))
                return "match %s with\n| %s =>\n%s\n| _ =>\n%s\nend" % (v.coq, pat, ind(kt(e1)), ind(kf(env.copy())))
        fail(t, "isinstance")
    pre = []
    c = finish(t, ex(t, env, pre, top=True), pre)
    if c.ty == "listZ" and not isinstance(t, ast.Name):       # truthiness of a list that was just read (D[k])
        return binds(pre) + "match %s with\n| _ :: _ =>\n%s\n| [] =>\n%s\nend" % (c.coq, ind(kt(env.copy())), ind(kf(env.copy())))
    if c.ty != "bool": fail(t, "condition of type %s" % c.ty)
    return binds(pre) + "if %s\nthen\n%s\nelse\n%s" % (c.coq, ind(kt(env.copy())), ind(kf(env.copy())))


# --------------------------------------------------------------------------- statements
def assigned(stmts):
    """names (re)bound or changed in place by these statements, in order of first appearance"""
    out = []

    def add(x):
        if x not in out: out.append(x)

    def target(t):
        if isinstance(t, ast.Name): add(t.id)
        elif isinstance(t, ast.Tuple): [target(e) for e in t.elts]
        elif isinstance(t, ast.Subscript) and var_key(t.value): add(var_key(t.value))
        elif isinstance(t, ast.Attribute) and var_key(t): add(var_key(t))
        elif isinstance(t, (ast.Attribute, ast.Subscript)): pass       # a field of the state
        else: fail(t, "assignment target")

    for s in stmts:
        if isinstance(s, ast.Assign): [target(t) for t in s.targets]
        elif isinstance(s, ast.AugAssign): target(s.target)
        elif isinstance(s, ast.AnnAssign):
            if s.value is not None: target(s.target)
        elif isinstance(s, ast.If): [add(x) for x in assigned(s.body) + assigned(s.orelse)]
        elif isinstance(s, (ast.For, ast.While)):
            if isinstance(s, ast.For): target(s.target)
            [add(x) for x in assigned(s.body)]
        elif isinstance(s, ast.Expr) and isinstance(s.value, ast.Call) and isinstance(s.value.func, ast.Attribute):
            c = s.value
            if c.func.attr in ("append", "extend", "remove", "sort", "add") and isinstance(c.func.value, ast.Name): add(c.func.value.id)
    return out


def terminates(stmts):
    if not stmts: return False
    s = stmts[-1]
    if isinstance(s, (ast.Raise, ast.Return, ast.Break)): return True
    if isinstance(s, ast.If): return bool(s.orelse) and terminates(s.body) and terminates(s.orelse)
    return False


def has_break(stmts):
    for s in stmts:
        if isinstance(s, ast.Break): return True
        if isinstance(s, ast.If) and (has_break(s.body) or has_break(s.orelse)): return True
    return False


def dead(env):
    raise Unsupported("%s: internal: continuation of a block that cannot fall through" % CUR["file"])


def tuple_pat(names):
    if not names: return "(_ : unit)"
    if len(names) == 1: return names[0]
    return "'(%s)" % ", ".join(names)


def tuple_ty(tys):
    return " * ".join(COQTY[t] for t in tys) if tys else "unit"


def tuple_val(vals):
    return "(%s)" % ", ".join(vals) if len(vals) > 1 else (vals[0] if vals else "tt")


def probe(run):
    """run a text producer with a continuation that only records the environments it is called with"""
    seen = []
    save = (CUR["n"], CUR["fuel"])
    run(lambda e: (seen.append(e), "_")[1])
    CUR["n"] = save[0]
    return seen


def join(node, names, env, whole):
    """whole: k -> text.  Learn the types the variables end with, then build the text whose leaves return them."""
    seen = probe(whole)
    names = [x for x in names if all(x in e.v for e in seen)]
    tys = []
    for x in names:
        ty = env.v[x].ty if x in env.v else seen[0].v[x].ty
        for e in seen: ty = unify(node, ty, e.v[x].ty)
        if ty not in COQTY: fail(node, "variable %s of type %s cannot leave a branch" % (x, ty))
        tys.append(ty)
    ends = []

    def kjoin(e):
        ends.append(e)
        return "Ok %s s" % tuple_val([coerce(node, e.v[x], ty) for x, ty in zip(names, tys)])
    return names, tys, whole(kjoin), ends


def union(e, x, y):
    gx, gy = e.grp.get(x), e.grp.get(y)
    g = gx or gy or fresh("g")
    for w, q in list(e.grp.items()):
        if q is not None and q in (gx, gy): e.grp[w] = g
    e.grp[x] = e.grp[y] = g


def merge_ends(env, names, tys, ends, dropped=()):
    """the environment after a join: joined variables rebound, facts that hold on every path kept"""
    e = env.copy()
    for x, ty in zip(names, tys):
        place = ends[0].v[x].place if ends and all(z.v[x].place == ends[0].v[x].place for z in ends) else None
        e.v[x] = V(cname(x), ty, place=place)
    for x in dropped: e.v.pop(x, None)
    for z in ends: e.dead |= z.dead
    # alias groups: two names are aliased afterwards if they are on some path
    for z in ends:
        for x, g in z.grp.items():
            for y, h in z.grp.items():
                if x < y and g == h and x in e.v and y in e.v: union(e, x, y)
    return e


def alias_pairs(e, names):
    return {(x, y) for x in names for y in names if x < y and x in e.grp and e.grp.get(x) == e.grp.get(y)}


def loop_env(node, env, carried, run_body):
    """types (and alias facts) of the loop-carried variables that are stable under one more iteration"""
    tys = [env.v[x].ty for x in carried]
    base = env.copy()
    for _ in range(6):
        e0 = base.copy()
        for x, ty in zip(carried, tys): e0.v[x] = V(cname(x), ty, place=None)
        ends = probe(lambda kk: run_body(e0, kk))
        new = list(tys)
        for e in ends:
            for i, x in enumerate(carried):
                if x not in e.v: fail(node, "loop-carried variable %s not bound on every path" % x)
                new[i] = unify(node, new[i], e.v[x].ty)
        more = set()
        for e in ends: more |= alias_pairs(e, carried)
        if new == tys and more <= alias_pairs(base, carried):
            for t, x in zip(tys, carried):
                if t not in COQTY: fail(node, "loop-carried variable %s of type %s" % (x, t))
            return tys, base
        tys = new
        for (x, y) in more: union(base, x, y)
    fail(node, "loop-carried variables do not stabilise")


def message(n, env):
    """an error / warning text: constants and f-strings over local names"""
    if isinstance(n, ast.Constant) and isinstance(n.value, str): return
    if isinstance(n, ast.JoinedStr):
        for p in n.values:
            if isinstance(p, ast.Constant): continue
            if isinstance(p, ast.FormattedValue) and p.format_spec is None and p.conversion == -1 and var_key(p.value) in env.v: continue
            fail(n, "message")
        return
    fail(n, "message")


def local_list(node, name, env, mutate):
    """a local list about to be changed in place (or rebound): it must not be shared"""
    v = env.v.get(name)
    if v is None or v.ty not in ("listZ", "nil"): fail(node, "in-place change of something that is not a local list")
    if name in env.dead: fail(node, "name of a lookup entry used after the lookups may have changed")
    if mutate and env.aliased(name): fail(node, "in-place change of a list that has two names")
    return v


def write_place(env, place, newlist):
    """D[k] := newlist ;  returns the text"""
    book, k = place
    return "let s := %s in\n" % (BOOKS[book][1] % ("(set %s %s %s)" % (k, newlist, BOOKS[book][0])))


def list_method(s, c, env, go):
    """l.append(x) / .extend(m) / .remove(x) / .sort(key=f)  on a local list, a named D[k] object, or D[k] itself"""
    f = c.func; m = f.attr
    pre = []
    if isinstance(f.value, ast.Name):
        name = f.value.id
        cur = local_list(s, name, env, True)
        place = cur.place
    else:
        name = None
        cur = ex(f.value, env, pre)
        if cur.ty != "listZ" or not cur.place: fail(s, "in-place change of something that is not a lookup entry")
        place = cur.place
    curtxt = "[]" if cur.ty == "nil" else cur.coq
    new = fresh("l") if name is None else cname(name)
    if m == "sort":
        if c.args: fail(s, "sort arguments")
        head = "let %s := py_sorted_by %s %s in\n" % (new, sort_key(c, env), curtxt)
    else:
        if c.keywords or len(c.args) != 1: fail(s, "%s arguments" % m)
        a = ex(c.args[0], env, pre)
        if m == "append" and a.ty == "Z": head = "let %s := %s ++ [%s] in\n" % (new, curtxt, a.coq)
        elif m == "extend" and a.ty in ("listZ", "nil"): head = "let %s := %s ++ %s in\n" % (new, curtxt, "[]" if a.ty == "nil" else a.coq)
        elif m == "remove" and a.ty == "Z": head = "do %s, s <- py_list_remove %s %s s;\n" % (new, curtxt, a.coq)
        else: fail(s, "%s of %s" % (m, a.ty))
    if any(e for (_, _, e) in pre): fail(s, "call that may change the state inside an in-place change")
    e2 = env.copy()
    txt = binds(pre) + head
    if place:
        e2.kill_places()
        txt += write_place(env, place, new)
    if name is not None:
        e2.v[name] = V(cname(name), "listZ", place=place)
        e2.dead.discard(name)
    return txt + go(e2)


def block(stmts, env, k, ctx):
    if not stmts: return k(env)
    s, rest = stmts[0], stmts[1:]
    go = lambda e: block(rest, e, k, ctx)
    if is_docstring(s): return go(env)
    if isinstance(s, ast.Return):
        if rest: fail(rest[0], "statement after return")
        if ctx.ret is None: fail(s, "return inside a loop, or inside a conditional that also falls through")
        if s.value is None: return ctx.ret(s, env, V("tt", "unit"), [])
        pre = []
        if isinstance(s.value, ast.Tuple) and len(s.value.elts) == 2:
            vs = [ex(e, env, pre) for e in s.value.elts]
            if all(v.ty == "none" for v in vs): v = V("(None, None)", "pairNN")
            else: v = V("(%s, %s)" % tuple(coerce(s, x, "optZ") for x in vs), "pairOO")
        else:
            v = ex(s.value, env, pre, top=True)
        return ctx.ret(s, env, finish(s, v, pre), pre)
    if isinstance(s, ast.Raise):
        if rest: fail(rest[0], "statement after raise")
        c = s.exc
        if s.cause is None and isinstance(c, ast.Call) and isinstance(c.func, ast.Name) and c.func.id == "ValueError" and len(c.args) == 1 and not c.keywords:
            message(c.args[0], env)
            return "Err EValue s"
        fail(s, "raise")
    if isinstance(s, ast.Break):
        if rest: fail(rest[0], "statement after break")
        if ctx.brk is None: fail(s, "break outside a loop, or inside a conditional that also falls through")
        return ctx.brk(env)
    if isinstance(s, ast.Assert):
        t = s.test
        if s.msg is None and none_test(t) and isinstance(t.ops[0], ast.IsNot) and isinstance(t.left, ast.Name):
            return emit_if(t, env, go, lambda e: "Err EValue s")
        fail(s, "assert")
    if isinstance(s, ast.If):
        bt, ot = terminates(s.body), terminates(s.orelse)
        if bt and ot:
            if rest: fail(rest[0], "unreachable statement")
            return emit_if(s.test, env, lambda e: block(s.body, e, dead, ctx), lambda e: block(s.orelse, e, dead, ctx))
        if bt: return emit_if(s.test, env, lambda e: block(s.body, e, dead, ctx), lambda e: block(s.orelse + rest, e, k, ctx))
        if ot: return emit_if(s.test, env, lambda e: block(s.body + rest, e, k, ctx), lambda e: block(s.orelse, e, dead, ctx))
        if not rest: return emit_if(s.test, env, lambda e: block(s.body, e, k, ctx), lambda e: block(s.orelse, e, k, ctx))
        inner = Ctx(None, None, ctx.in_loop)

        def whole(kk):
            return emit_if(s.test, env, lambda e: block(s.body, e, kk, inner), lambda e: block(s.orelse, e, kk, inner))
        cand = assigned(s.body) + [x for x in assigned(s.orelse) if x not in assigned(s.body)]
        # a variable first bound inside the `if` leaves it only when it is read somewhere below (in source order)
        cand = [x for x in cand if x in env.v or x in CUR["reads"](s.end_lineno)]
        names, tys, txt, ends = join(s, cand, env, whole)
        e2 = merge_ends(env, names, tys, ends, dropped=[x for x in assigned(s.body) + assigned(s.orelse) if x not in names])
        return "bind (A := %s) (\n%s)\n(fun %s s =>\n%s)" % (tuple_ty(tys), ind(txt), tuple_pat([cname(x) for x in names]), go(e2))
    if isinstance(s, (ast.For, ast.While)):
        return loop(s, rest, env, k, ctx)
    if isinstance(s, ast.AugAssign) and isinstance(s.op, (ast.Add, ast.Sub)):
        op = "+" if isinstance(s.op, ast.Add) else "-"
        pre = []
        cur = ex(s.target, env, pre); v = ex(s.value, env, pre)
        if cur.ty != "Z" or v.ty != "Z" or any(e for (_, _, e) in pre): fail(s, "augmented assignment")
        if isinstance(s.target, ast.Name):
            if s.target.id in env.const: fail(s, "the index of an enumerate loop is rebound")
            e2 = env.copy(); e2.v[s.target.id] = V(cname(s.target.id), "Z")
            return binds(pre) + "let %s := %s %s %s in\n" % (cname(s.target.id), cur.coq, op, v.coq) + go(e2)
        if cur.arg in FIELDS:
            return binds(pre) + "let s := %s in\n" % (FIELDS[cur.arg][1] % ("(%s %s %s)" % (cur.coq, op, v.coq))) + go(env)
        fail(s, "augmented assignment")
    if isinstance(s, ast.AnnAssign) and s.value is None and ast.unparse(s.target) == "self.tracks" and env.v["self"].ty == "SELFACT":
        return go(env)                            # `self.tracks: SolutionTracks` (annotation only)
    if isinstance(s, ast.Expr) and ast.unparse(s.value) == "super().__init__(tracks)" and env.v["self"].ty == "SELFACT":
        if "tracks" not in env.v or env.v["tracks"].ty != "TRACKS": fail(s, "super().__init__")
        e2 = env.copy(); e2.v["self.tracks"] = V("", "TRACKS")
        return go(e2)
    if isinstance(s, ast.AnnAssign) and s.value is not None and s.simple == 1:
        return block([ast.copy_location(ast.Assign(targets=[s.target], value=s.value), s)] + rest, env, k, ctx)
    if isinstance(s, ast.Delete) and len(s.targets) == 1 and isinstance(s.targets[0], ast.Subscript):
        t = s.targets[0]; pre = []
        b = ex(t.value, env, pre); kk = ex(t.slice, env, pre)
        if b.ty != "BOOK" or kk.ty != "Z" or pre: fail(s, "del")
        d = fresh("d")
        e2 = env.copy(); e2.kill_places()
        return "do %s, s <- py_delitem %s %s s;\nlet s := %s in\n" % (d, b.coq, kk.coq, BOOKS[b.arg][1] % d) + go(e2)
    if isinstance(s, ast.Assign) and len(s.targets) == 1:
        t, val = s.targets[0], s.value
        if isinstance(t, ast.Attribute) and isinstance(t.value, ast.Name) and t.value.id == "self" and env.v["self"].ty == "SELFACT":
            cls = env.v["self"].arg
            fty = dict(ACTION_FIELDS[cls]).get(t.attr)
            if fty is None: fail(s, "assignment to an unknown field of %s" % cls)
            pre = []
            v = finish(s, ex(val, env, pre, top=True), pre)
            unify(s, fty, v.ty)
            x = "v_self_" + t.attr
            e2 = env.copy(); e2.v["self." + t.attr] = V(x, fty)
            e2.grp.pop("self." + t.attr, None)
            if v.ty in ("attrs", "optattrs") and not isinstance(val, ast.Dict):      # the field shares the dict with another name (or the caller)
                src = var_key(val) or fresh("caller")
                gid = env.grp.get(src) or fresh("g")
                e2.grp[src] = gid; e2.grp["self." + t.attr] = gid; e2.v.setdefault(src, V("", "CALLER"))
            if any(e for (_, _, e) in pre): e2.kill_places()
            if pre and pre[-1][0] == v.coq and v.ty == fty:
                pre[-1] = (x, pre[-1][1], pre[-1][2])
                return binds(pre) + go(e2)
            return binds(pre) + "let %s := %s in\n" % (x, coerce(s, v, fty)) + go(e2)
        if isinstance(t, ast.Attribute):          # a field of the state
            pre = []
            tv = ex(t, env, None); v = finish(s, ex(val, env, pre, top=True), pre)
            if tv.arg not in FIELDS or v.ty != "Z": fail(s, "assignment to an attribute")
            return binds(pre) + "let s := %s in\n" % (FIELDS[tv.arg][1] % v.coq) + go(env)
        if isinstance(t, ast.Subscript):
            pre = []
            b = ex(t.value, env, pre)
            if b.ty == "BOOK":                    # D[k] = []
                kk = ex(t.slice, env, pre)
                if kk.ty != "Z" or pre or not (isinstance(val, ast.List) and not val.elts): fail(s, "assignment to a lookup entry (only the empty list display)")
                e2 = env.copy(); e2.kill_places()
                return write_place(env, (b.arg, kk.coq), "[]") + go(e2)
            if b.ty in ("attrs", "emptydict") and var_key(t.value) and var_key(t.value).startswith("self."):       # self.f[k] = v
                name = var_key(t.value)
                if env.aliased(name): fail(s, "in-place change of a dict that has two names")
                kk = ex(t.slice, env, pre); v = ex(val, env, pre)
                if kk.ty not in ("key", "Z") or v.ty != "value" or any(e for (_, _, e) in pre): fail(s, "item assignment")
                e2 = env.copy(); e2.v[name] = V(cname(name), "attrs")
                return binds(pre) + "let %s := set %s %s %s in\n" % (cname(name), kk.coq, v.coq, coerce(s, b, "attrs")) + go(e2)
            if isinstance(t.value, ast.Name) and b.ty == "listZ" and not b.place:       # l[i] = v
                name = t.value.id
                local_list(s, name, env, True)
                if name in env.iterating and not (isinstance(t.slice, ast.Name) and t.slice.id == env.iterating[name]):
                    fail(s, "the loop changes the list it iterates over (other than at the current index)")
                i = ex(t.slice, env, pre); v = ex(val, env, pre)
                if i.ty != "Z" or v.ty != "Z" or any(e for (_, _, e) in pre): fail(s, "item assignment")
                e2 = env.copy(); e2.v[name] = V(cname(name), "listZ")
                return binds(pre) + "do %s, s <- py_list_setitem %s %s %s s;\n" % (cname(name), b.coq, i.coq, v.coq) + go(e2)
            fail(s, "item assignment")
        if isinstance(t, ast.Name):
            x = t.id
            if x in env.const: fail(s, "the index of an enumerate loop is rebound")
            if x in env.iterating: fail(s, "the loop rebinds the list it iterates over")
            pre = []
            v = finish(s, ex(val, env, pre, top=True), pre)
            e2 = env.copy(); e2.grp.pop(x, None); e2.dead.discard(x)
            if any(e for (_, _, e) in pre): e2.kill_places()
            if v.ty in ("TRACKS", "ANNOT", "GRAPH", "FEATURES", "AFEATS", "HISTORY", "REFRESH", "key", "none", "nil", "BOOK", "POSKEY", "REGISTRY", "ALLFEATS", "emptydict"):
                e2.v[x] = v                      # aliases of parts of the state and constants: no code
                return binds(pre) + go(e2)
            if v.ty not in COQTY: fail(s, "assignment of a value of type %s" % v.ty)
            if v.ty == "attrs" and var_key(val):                               # a second name for a dict
                gid = env.grp.get(var_key(val)) or fresh("g")
                e2.grp[var_key(val)] = gid; e2.grp[x] = gid
            if isinstance(val, ast.Name) and v.ty in ELEM and not v.place:      # a second name for a local list
                gid = env.grp.get(val.id) or fresh("g")
                e2.grp[val.id] = gid; e2.grp[x] = gid
            if isinstance(val, ast.Name) and v.place: fail(s, "a second name for a lookup entry")
            e2.v[x] = V(cname(x), v.ty, place=v.place)
            if pre and pre[-1][0] == v.coq:      # the value is the last binding: bind it under the variable's name
                pre[-1] = (cname(x), pre[-1][1], pre[-1][2])
                return binds(pre) + go(e2)
            return binds(pre) + "let %s := %s in\n" % (cname(x), v.coq) + go(e2)
        fail(s, "assignment")
    if isinstance(s, ast.Expr) and isinstance(s.value, ast.Call) and isinstance(s.value.func, ast.Attribute):
        c = s.value; f = c.func
        if f.attr in ("append", "extend", "remove", "sort"): return list_method(s, c, env, go)
        if f.attr == "warn" and isinstance(f.value, ast.Name) and f.value.id == "warnings":
            if len(c.args) == 1 and len(c.keywords) == 1 and c.keywords[0].arg == "stacklevel" and isinstance(c.keywords[0].value, ast.Constant):
                message(c.args[0], env)
                return go(env)
            fail(s, "warnings.warn")
        if f.attr == "add" and isinstance(f.value, ast.Name) and f.value.id in env.v and env.v[f.value.id].ty == "setZ" and len(c.args) == 1 and not c.keywords:
            a = ex(c.args[0], env, None)
            if a.ty not in ("key", "Z"): fail(s, "set.add")
            x = f.value.id
            e2 = env.copy(); e2.v[x] = V(cname(x), "setZ")
            return "let %s := %s ++ [%s] in\n" % (cname(x), env.v[x].coq, a.coq) + go(e2)
        recv = ex(f.value, env, None)
        if recv.ty == "TRACKS" and f.attr == "set_pixels" and len(c.args) == 2 and not c.keywords:
            pre = []
            px = ex(c.args[0], env, pre); v = ex(c.args[1], env, pre)
            if px.ty != "px" or v.ty != "Z" or pre: fail(s, "set_pixels arguments")
            return "do _u, s <- set_pixels s %s %s;\n" % (px.coq, v.coq) + go(env)
        if recv.ty == "GRAPH" and f.attr in ("add_node", "remove_node") and len(c.args) == 1 and not c.keywords:
            nd = ex(c.args[0], env, None)
            if nd.ty != "Z": fail(s, f.attr)
            return ("let s := nx_add_node s %s in\n" if f.attr == "add_node" else "do _u, s <- nx_remove_node s %s;\n") % nd.coq + go(env)
        if recv.ty == "GRAPH" and f.attr == "add_edge" and len(c.args) == 2 and len(c.keywords) == 1 and c.keywords[0].arg is None:
            a = ex(c.args[0], env, None); b = ex(c.args[1], env, None); d = ex(c.keywords[0].value, env, None)
            if a.ty != "Z" or b.ty != "Z" or d.ty != "attrs": fail(s, "add_edge arguments")
            return "let s := nx_add_edge s %s %s %s in\n" % (a.coq, b.coq, d.coq) + go(env)
        if recv.ty == "GRAPH" and f.attr == "remove_edge" and len(c.args) == 1 and isinstance(c.args[0], ast.Starred) and not c.keywords:
            e = ex(c.args[0].value, env, None)
            if e.ty != "pairZZ": fail(s, "remove_edge arguments")
            return "do _u, s <- nx_remove_edge s (fst %s) (snd %s);\n" % (e.coq, e.coq) + go(env)
        if recv.ty == "NODEDICT" and f.attr == "pop" and len(c.args) == 2 and is_none(c.args[1]) and not c.keywords:
            kv = ex(c.args[0], env, None)
            if kv.ty not in ("key", "Z"): fail(s, "pop")
            return "do _u, s <- py_pop_node_attr s %s %s;\n" % (recv.coq, kv.coq) + go(env)
        if recv.ty == "REFRESH" and f.attr == "emit" and not c.args and not c.keywords:
            return "let s := emit s None in\n" + go(env)
        if recv.ty == "TRACKS" and f.attr == "_set_node_attr" and len(c.args) == 3 and not c.keywords:
            pre = []
            nd = ex(c.args[0], env, pre); kk = ex(c.args[1], env, pre); v = ex(c.args[2], env, pre)
            if nd.ty != "Z" or kk.ty not in ("key", "Z") or any(e for (_, _, e) in pre): fail(s, "_set_node_attr arguments")
            if v.ty == "Z": val = "(VZ %s)" % v.coq
            elif v.ty == "value": val = v.coq
            elif v.ty == "optvalue": val = "(val_of_opt %s)" % v.coq
            elif v.ty in ("optZ", "none"): val = "(val_of_optz %s)" % coerce(s, v, "optZ")
            else: fail(s, "_set_node_attr of a %s" % v.ty)
            return binds(pre) + "do _u, s <- py_set_node_attr s %s %s %s;\n" % (nd.coq, kk.coq, val) + go(env)
        if recv.ty == "TRACKS" and f.attr == "notify_annotators" and len(c.args) == 1 and not c.keywords:
            a = ex(c.args[0], env, None)
            if a.ty != "SELFACT": fail(s, "notify_annotators of something that is not self")
            sig = use_sig("gen_track_annotator_update", s)
            if sig is None: fail(s, "TrackAnnotator.update is not translated")
            if sig[2]: CUR["fuel"] = True
            b = action_value(s, a, env)
            e2 = env.copy(); e2.kill_places()
            return ("do _u, s <- py_regionprops_update s %s;\ndo _u, s <- py_edge_update s %s;\ndo _u, s <- %s%s s %s;\n"
                    % (b, b, sig[3], " fuel" if sig[2] else "", b)) + go(e2)
        if recv.ty in ("TRACKS", "ANNOT", "HISTORY", "SELFACT"):      # a call for its effect
            pre = []
            v = ex(c, env, pre, top=True)
            if not (pre and pre[-1][2] and pre[-1][0] == v.coq): fail(s, "expression statement without effect")
            pre[-1] = ("_r", pre[-1][1], True)
            e2 = env.copy(); e2.kill_places()
            return binds(pre) + go(e2)
    fail(s, "statement")


def loop(s, rest, env, k, ctx):
    if s.orelse: fail(s, "loop with else")
    go = lambda e: block(rest, e, k, ctx)
    body_assigned = assigned(s.body)
    carried = [v for v in body_assigned if v in env.v]
    for v in carried:
        if env.v[v].place: fail(s, "the loop changes a name of a lookup entry")
    e_in = env.copy()
    for v in body_assigned:
        if v not in env.v: e_in.v.pop(v, None)
    if isinstance(s, ast.While):
        CUR["fuel"] = True

        def run_body(e0, kk):
            return block(s.body, e0, kk, Ctx(None, None, True))
        tys, base = loop_env(s, e_in, carried, run_body)
        e0 = base.copy()
        for x, ty in zip(carried, tys): e0.v[x] = V(cname(x), ty)
        ct = s.test
        if isinstance(ct, ast.Name) and ct.id in e0.v and e0.v[ct.id].ty == "listZ": cond = "(py_truthy %s)" % e0.v[ct.id].coq
        else:
            c = ex(ct, e0, None)
            if c.ty != "bool": fail(s, "loop condition of type %s" % c.ty)
            cond = c.coq
        names, _, txt, ends = join(s, carried, e0, lambda kk: run_body(e0, kk))
        if names != carried: fail(s, "loop-carried variable not assigned on every path")
        init = [coerce(s, env.v[v], ty) for v, ty in zip(carried, tys)]
        e2 = merge_ends(base, carried, tys, ends)
        pat = tuple_pat([cname(v) for v in carried])
        return "bind (A := %s) (py_while fuel %s s\n  (fun %s s => %s)\n  (fun %s s =>\n%s))\n(fun %s s =>\n%s)" % (
            tuple_ty(tys), tuple_val(init), pat, cond, pat, ind(ind(txt)), pat, go(e2))
    # for
    ipre = []
    it = s.iter
    enum = None
    if isinstance(it, ast.Call) and isinstance(it.func, ast.Name) and it.func.id == "enumerate" and len(it.args) == 1 and not it.keywords:
        if not isinstance(it.args[0], ast.Name): fail(s, "enumerate of something that is not a local list")
        enum = it.args[0].id
        lv = ex(it.args[0], env, None)
        if lv.ty != "listZ" or lv.place: fail(s, "enumerate of %s" % lv.ty)
        itv = V("(py_enumerate %s)" % lv.coq, "listZZ")
    else:
        itv = finish(s, ex(it, env, ipre, top=True), ipre)
        if itv.ty == "nil": itv = V("(@nil Z)", "listZ")
        if itv.ty == "pairZZ": itv = V("[fst %s; snd %s]" % (itv.coq, itv.coq), "listZ")
        if itv.ty == "attrs": itv = V("(keys %s)" % itv.coq, "listZ")             # iterating a dict: its keys
    if itv.ty not in ELEM: fail(s, "loop over %s" % itv.ty)
    if any(e for (_, _, e) in ipre): fail(s, "call that may change the state as a loop iterable")
    if var_key(it) and var_key(it) in body_assigned: fail(s, "the loop changes what it iterates over")
    if isinstance(it, ast.Call) and isinstance(it.func, ast.Attribute) and var_key(it.func.value) in body_assigned: fail(s, "the loop changes what it iterates over")
    x = fresh("x"); head = ""
    if enum is not None:
        if not (isinstance(s.target, ast.Tuple) and len(s.target.elts) == 2 and all(isinstance(e, ast.Name) for e in s.target.elts)): fail(s, "enumerate target")
        a, b = (e.id for e in s.target.elts)
        if a in assigned(s.body): fail(s, "the index of an enumerate loop is rebound")
        head = "let '(%s, %s) := %s in\n" % (cname(a), cname(b), x)
        tvars = {a: V(cname(a), "Z"), b: V(cname(b), "Z")}
    elif isinstance(s.target, ast.Name) and itv.ty == "listZ":
        x = cname(s.target.id)
        tvars = {s.target.id: V(x, "Z")}
    elif itv.ty == "listKV" and isinstance(s.target, ast.Tuple) and len(s.target.elts) == 2 and all(isinstance(e, ast.Name) for e in s.target.elts):
        ka, vb = (e.id for e in s.target.elts)
        head = "let '(%s, %s) := %s in\n" % (cname(ka), cname(vb), x)
        tvars = {ka: V(cname(ka), "Z"), vb: V(cname(vb), "value")}
    else: fail(s, "loop target")
    carried = [v for v in carried if v not in tvars]
    brk = has_break(s.body)

    def run_body(e0, kk):
        e1 = e0.copy()
        for nm, val in tvars.items(): e1.v[nm] = val; e1.grp.pop(nm, None)
        if enum is not None:
            e1.const.add(a); e1.iterating[enum] = a
        if brk:
            return block(s.body, e1, lambda e: _wrap(kk(e), "CNext"), Ctx(None, lambda e: _wrap(kk(e), "CBreak"), True))
        return block(s.body, e1, kk, Ctx(None, None, True))
    tys, base = loop_env(s, e_in, carried, run_body)
    e0 = base.copy()
    for v, ty in zip(carried, tys): e0.v[v] = V(cname(v), ty)
    names, _, txt, ends = join(s, carried, e0, lambda kk: run_body(e0, kk))
    if names != carried: fail(s, "loop-carried variable not assigned on every path")
    init = [coerce(s, env.v[v], ty) for v, ty in zip(carried, tys)]
    e2 = merge_ends(base, carried, tys, ends)
    for nm in tvars: e2.v.pop(nm, None)       # the loop target is not kept after the loop (a later use is refused)
    e2.const = set(env.const); e2.iterating = dict(env.iterating)
    pat = tuple_pat([cname(v) for v in carried])
    return binds(ipre) + "bind (A := %s) (%s %s %s s (fun %s %s s =>\n%s))\n(fun %s s =>\n%s)" % (
        tuple_ty(tys), "py_for_brk" if brk else "py_for", itv.coq, tuple_val(init), x, pat, ind(head + txt), pat, go(e2))


def _wrap(leaf, tag):
    """`Ok v s` (the value the loop body ends with)  ->  `Ok (tag, v) s`"""
    if leaf == "_": return leaf
    m = re.match(r"^Ok (.*) s$", leaf, re.S)
    if not m: raise Unsupported("%s: internal: loop leaf %r" % (CUR["file"], leaf))
    return "Ok (%s, %s) s" % (tag, m.group(1))


# --------------------------------------------------------------------------- functions
def default_text(p, d, ty):
    if is_none(d) and ty in ("optZ", "optpx", "optattrs"): return "None"
    if isinstance(d, ast.Constant) and type(d.value) is bool and ty == "bool": return "true" if d.value else "false"
    fail(p, "default value")


def translate_function(rel, cls_name, meth, gen):
    tree, src, path = tree_of(rel)
    CUR["file"] = path; CUR["n"] = 0; CUR["fuel"] = False
    fn = find_method(rel, cls_name, meth)
    if fn is None: raise Unsupported("%s: method %s.%s not found" % (path, cls_name, meth))
    if fn.decorator_list: fail(fn, "decorated method")
    a = fn.args
    if a.vararg or a.kwarg or a.kwonlyargs or a.posonlyargs or not a.args or a.args[0].arg != "self": fail(fn, "signature")
    kind = KIND[cls_name]
    env = Env({"self": V("", "SELFACT" if kind == "ACT" else kind, arg=cls_name)})
    params = []; sig = []
    ndef = len(a.defaults)
    if a.defaults and not (kind == "ACT" and meth == "__init__"): fail(fn, "default values")
    for i, p in enumerate(a.args[1:]):
        an = ast.unparse(p.annotation) if p.annotation else None
        j = i + 1 - (len(a.args) - ndef)
        if an in ACTION_FIELDS:
            if j >= 0: fail(p, "default value")
            env.v[p.arg] = V(cname(p.arg), "ACTION", arg=an)
            for f, ty in ACTION_FIELDS[an]: params.append(("%s_%s" % (cname(p.arg), f), COQTY[ty]))
            sig.append((p.arg, "ACTION:" + an, None))
            continue
        ty = ANNOT_TY.get(an) if an is not None else UNANNOTATED.get(p.arg)
        if ty is None: fail(p, "parameter annotation")
        if ty == "TRACKS":
            if not (kind == "ACT" and meth == "__init__" and i == 0 and p.arg == "tracks"): fail(p, "tracks parameter")
            env.v[p.arg] = V("", "TRACKS")
            continue
        env.v[p.arg] = V(cname(p.arg), ty)
        params.append((cname(p.arg), COQTY[ty])); sig.append((p.arg, ty, default_text(p, a.defaults[j], ty) if j >= 0 else None))
    if kind == "ACT":
        if meth == "__init__":
            if "tracks" not in env.v: fail(fn, "constructor without tracks")
        elif meth in ("_apply", "inverse") and len(a.args) == 1:
            env.v["self.tracks"] = V("", "TRACKS")
            for f, ty in ACTION_FIELDS[cls_name]:
                env.v["self." + f] = V("v_self_" + f, ty)
                params.append(("v_self_" + f, COQTY[ty]))
        else: fail(fn, "method of an action class")
    for st in ast.walk(fn):
        if isinstance(st, (ast.FunctionDef, ast.AsyncFunctionDef, ast.ClassDef, ast.Global, ast.Nonlocal, ast.With, ast.Try, ast.Continue,
                           ast.Yield, ast.YieldFrom, ast.Await, ast.NamedExpr, ast.Import, ast.ImportFrom)) and st is not fn:
            fail(st, "statement")
    loads = [(x.lineno, x.id) for x in ast.walk(fn) if isinstance(x, ast.Name) and isinstance(x.ctx, ast.Load)]
    CUR["reads"] = lambda line: {i for l, i in loads if l > line}
    rets = []

    def kret(node, e, v, pre):
        i = len(rets); rets.append((node, v))
        return binds(pre) + "Ok <<RET%d>> s" % i

    def kend(e):
        if kind == "ACT" and meth == "__init__":      # the constructed action: the `basic` value of its fields
            return kret(fn, e, V(action_value(fn, e.v["self"], e), "basic"), [])
        return kret(fn, e, V("tt", "unit"), [])
    body = [s for s in fn.body if not is_docstring(s)]
    if kind == "ACT" and meth == "__init__":
        if not (body and isinstance(body[0], ast.Expr) and ast.unparse(body[0].value) == "super().__init__(tracks)"): fail(fn, "first statement must be super().__init__(tracks)")
        txt = block(body, env, kend, Ctx(None))
    else:
        txt = block(body, env, kend, Ctx(kret))
    rty = None
    for node, v in rets: rty = v.ty if rty is None else unify(node, rty, v.ty)
    if rty == "none": rty = "unit"
    if rty == "pairNN": rty = "pairOO"
    if rty not in COQTY: fail(fn, "result type %s" % rty)
    for i, (node, v) in enumerate(rets): txt = txt.replace("<<RET%d>>" % i, coerce(node, v, rty))
    fuel = CUR["fuel"]
    CUR["sigs"][gen] = (sig, rty, fuel, gen)
    ps = (" (fuel : nat)" if fuel else "") + " (s : state)" + "".join(" (%s : %s)" % p for p in params)
    fsrc = ast.get_source_segment(src, fn) or ""
    head = "(* %s.%s  <-  %s:%d   sha256=%s *)" % (cls_name, meth, rel, fn.lineno, hashlib.sha256(fsrc.encode()).hexdigest()[:16])
    rt = COQTY[rty] if " " not in COQTY[rty] or COQTY[rty].startswith("(") else "(%s)" % COQTY[rty]
    return "%s\nDefinition %s%s : res %s :=\n%s.\n" % (head, gen, ps, rt, ind(txt))


HEADER = """(* GENERATED by harness/translate_core.py from %s/src/funtracks/%s -- do not edit.
   Shallow embedding, in the res monad of Model/Edit.v, of the code the user actions call; the idiom table
   is at the top of the translator, the runtime combinators in Model/PyRt3.v (and Model/PyRt.v). *)
From Coq Require Import ZArith List Bool.
From FT Require Import Base.Dict Model.Edit Model.PyRt Model.PyRt3%s.
Import ListNotations.
Open Scope Z_scope.
"""
for _rel, _cls, _meth, _gen in FUNCS: GROUP_OF_GEN[_gen] = group_of_rel(_rel)


def failed_text(msg):
    return "(* TRANSLATION FAILED: %s *)\nDefinition translation_failed : False := I.\n" % msg.replace("*)", "* )").replace("(*", "( *")


def translate_groups(repo=None, upto=None):
    """translate the source groups in order; returns {group: (ok, text, message)}.  A group whose source is refused
    becomes a file that does not type-check; only the groups that really call into it fail with it."""
    CUR["repo"] = repo or os.environ.get("VERIF_REPO", REPO)
    CUR["trees"] = {}; CUR["sigs"] = {}; CUR["failed"] = {}
    res = {}
    for grp, fname, srcs in GROUPS:
        CUR["uses"] = set()
        parts = []
        try:
            for rel, cls, meth, gen in FUNCS:
                if group_of_rel(rel) == grp: parts.append(translate_function(rel, cls, meth, gen))
            ok, msg = True, "translated"
        except Unsupported as e:
            ok, msg = False, str(e)
        except Exception as e:      # a bug of the translator (or an unreadable source) must not look like a translation
            ok, msg = False, "internal error %s: %s" % (type(e).__name__, e)
        if ok:
            imports = "".join(" Gen.%s" % GROUP_FILE[g] for g, _, _ in GROUPS if g in CUR["uses"] and g != grp)
            res[grp] = (True, "\n".join([HEADER % (CUR["repo"], srcs, imports)] + parts), msg)
        else:
            for gen, g in GROUP_OF_GEN.items():
                if g == grp: CUR["sigs"].pop(gen, None); CUR["failed"][gen] = msg
            res[grp] = (False, failed_text(msg), msg)
        if grp == upto: break
    return res


def umbrella(res):
    """Gen/Core_gen.v: nothing of its own -- re-exports the four files and gives every generated definition its old
    qualified name Core_gen.gen_x (a parsing-only abbreviation).  Only Proofs/CoreTie*.v are meant to need it."""
    lines = ["(* GENERATED by harness/translate_core.py -- do not edit.  The generated definitions live in Gen/CoreQueries_gen.v,",
             "   CoreTracks_gen.v, CoreAnnot_gen.v and CoreActions_gen.v (one per source group); this file only re-exports them. *)",
             "From FT Require Export %s." % " ".join("Gen.%s" % f for _, f, _ in GROUPS)]
    for rel, cls, meth, gen in FUNCS:
        lines.append("Notation %s := %s.%s (only parsing)." % (gen, GROUP_FILE[group_of_rel(rel)], gen))
    return "\n".join(lines) + "\n"


def main(repo=None):
    """all generated text (used by the mutation campaign to see whether a mutant changes anything); raises Unsupported
    when any group is refused"""
    res = translate_groups(repo)
    for grp, _, _ in GROUPS:
        if not res[grp][0]: raise Unsupported(res[grp][2])
    return "\n".join(res[grp][1] for grp, _, _ in GROUPS)


def strip_header(t):
    return "\n".join(l for l in t.split("\n") if "sha256=" not in l and not l.startswith("(* GENERATED"))


def write_if_changed(path, txt):
    os.makedirs(os.path.dirname(path), exist_ok=True)
    old = open(path).read() if os.path.exists(path) else None
    if old is None or strip_header(old) != strip_header(txt):
        open(path, "w").write(txt)


def regenerate(out=None, repo=None):
    """(re)write Gen/CoreQueries_gen.v, CoreTracks_gen.v, CoreAnnot_gen.v, CoreActions_gen.v and the re-exporting
    Gen/Core_gen.v (`out`: its path; the four go next to it) from the current sources.  Returns (ok, message): ok iff all
    four were translated, the message names the refused file(s).  A source outside the idiom table yields a file that does
    not type-check (fail closed) -- that file and the ones that call into it, nothing else.  Files are written only when
    their content (header and hash lines apart) changes."""
    out = out or OUT
    d = os.path.dirname(out)
    res = translate_groups(repo)
    for grp, fname, _ in GROUPS: write_if_changed(os.path.join(d, fname + ".v"), res[grp][1])
    write_if_changed(out, umbrella(res))
    bad = ["Gen/%s.v: %s" % (GROUP_FILE[g], res[g][2]) for g, _, _ in GROUPS if not res[g][0]]
    return (not bad), ("translated" if not bad else "; ".join(bad))


def regenerate_one(which, out_dir=None, repo=None):
    """(re)write only the generated file of one group ("queries" | "tracks" | "annot" | "actions"); the groups before it
    are translated in memory for their signatures.  Returns (ok, message) for that file."""
    if which not in GROUP_FILE: raise ValueError("unknown group %r" % which)
    res = translate_groups(repo, upto=which)
    write_if_changed(os.path.join(out_dir or os.path.dirname(OUT), GROUP_FILE[which] + ".v"), res[which][1])
    return res[which][0], res[which][2]


def regenerate_queries(): return regenerate_one("queries")
def regenerate_tracks(): return regenerate_one("tracks")
def regenerate_annot(): return regenerate_one("annot")
def regenerate_actions(): return regenerate_one("actions")


if __name__ == "__main__":
    if len(sys.argv) > 1 and sys.argv[1] == "--stdout":
        sys.stdout.write(main())
    else:
        ok, msg = regenerate(*(sys.argv[1:2] or [None]))
        print(msg)
        sys.exit(0 if ok else 1)
