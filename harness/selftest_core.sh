#!/bin/bash
# Negative self-test of the core tie (harness/translate_core.py + coq/Proofs/CoreTie.v): see selftest_core.py.
# Semantic changes of the Python (two or more per translated function) must make a tie theorem fail to compile or
# the translator refuse; comment-only changes, renamed locals and new temporaries must keep everything compiling.
# Works only under /tmp/core_selftest.* and removes it.     usage: selftest_core.sh [-j N] [label text]
exec /venv/bin/python "$(dirname "$0")/selftest_core.py" "$@"
