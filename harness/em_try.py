import sys, time, collections
sys.path.insert(0,'/verif/harness')
import common as C, editmachine as E
N=int(sys.argv[1]); seed=int(sys.argv[2]) if len(sys.argv)>2 else 0
segp=float(sys.argv[3]) if len(sys.argv)>3 else 0.5
exe,err=C.build_driver('Edit'); assert exe, err
t0=time.time(); scns=[]; lines=[]
for i in range(N):
    s=E.run_scenario(seed,i,seg_p=segp); s.pop('tracks'); scns.append(s); lines+=s['lines']
t1=time.time()
rc,out=C.run_driver(exe,lines)
t2=time.time()
mos=E.split_model_output(out)
bad=0; steps=0; kinds=collections.Counter(); rets=collections.Counter()
for s,mo in zip(scns,mos):
    n,d=E.compare(s,mo); steps+=n
    for k,o in zip(s['kinds'],s['obs']): kinds[k]+=1; rets[(k,o['ret'])]+=1
    if d:
        bad+=1
        if bad<=int(sys.argv[4]) if len(sys.argv)>4 else bad<=3:
            print("DIVERGE scen",s['index'],"cfg",s['cfg'],"\n step",d['step'],d['fields'],"op",d.get('op'),"\n impl ",d.get('impl'),"\n model",d.get('model'))
            k=len(s['lines'])-(len(s['obs'])-1)
            print(" ops:",s['lines'][k:k+d['step']])
print("scenarios",N,"steps",steps,"divergent",bad,"impl %.1fs model %.2fs"%(t1-t0,t2-t1), "unparsed",[l for l in out if l.startswith('?')][:3])
print(dict(kinds)); print(sorted(rets.items()))
