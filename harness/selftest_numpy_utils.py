"""Negative / positive self-test of the numpy-utils translator and its tie theorems.

For every entry below: copy /repo/src to a scratch directory under /tmp, apply one textual change,
run harness/translate_numpy_utils.py with VERIF_REPO pointing at the copy and scratch outputs, and
compile the scratch Gen files and copies of Proofs/LabelUtilsTie.v / RelabelTie.v against them.
A semantic change must be REJECTED (translator raises Unsupported, or a tie theorem no longer
compiles); a change that does not alter behaviour (comments, docstrings, renaming of locals) must
keep everything compiling.  Nothing under /verif or /repo is written; the scratch dir is removed.

usage: /venv/bin/python harness/selftest_numpy_utils.py        (exit 0 iff every entry behaves as expected)
"""
from __future__ import annotations

import os
import shutil
import subprocess
import sys
import tempfile

HERE = os.path.dirname(os.path.abspath(__file__))
ROOT = os.path.dirname(HERE)
sys.path.insert(0, HERE)
import translate_numpy_utils as T  # noqa: E402

SEG = T.REL_LABELS
IMP = T.REL_RELABEL

# (id, file, old text, new text, expected "keep" | "reject")
CASES = [
    ("base", None, None, None, "keep"),
    # ---- behaviour-preserving
    ("U-comment", SEG, "    curr_max = 0\n", "    curr_max = 0  # running maximum of the labels handed out so far\n", "keep"),
    ("U-docstring", SEG, "Relabels the segmentation in place", "Relabels (a copy of) the segmentation", "keep"),
    ("U-rename-local", SEG, "curr_max", "running", "keep"),
    ("U-drop-redundant-writeback", SEG, "        segmentation[idx] = frame\n", "", "keep"),   # frame is a view: same behaviour
    ("T-comment", SEG, "    id_counter = 1\n", "    # ids start at one\n    id_counter = 1\n", "keep"),
    ("T-rename-local", SEG, "previous_seg_mask", "m", "keep"),
    ("R-comment", IMP, "    # Relabel segmentation: seg_id -> node_id (with offset if needed)\n", "    # paint every mask with its node id\n", "keep"),
    ("R-rename-local", IMP, "seg_to_node", "table", "keep"),
    # ---- ensure_unique_labels
    ("U-no-running-max", SEG, "curr_max = max(curr_max, int(np.max(frame)))", "curr_max = int(np.max(frame))", "reject"),
    ("U-shift-background", SEG, "frame[frame != 0] += curr_max", "frame[frame != 1] += curr_max", "reject"),
    ("U-start-at-1", SEG, "    curr_max = 0\n", "    curr_max = 1\n", "reject"),
    ("U-no-astype", SEG, "    segmentation = segmentation.astype(np.uint64)\n", "", "reject"),
    ("U-copy-frame", SEG, "frame = segmentation[idx]", "frame = segmentation[idx] + 0", "reject"),
    ("U-skip-last", SEG, "range(segmentation.shape[0])", "range(segmentation.shape[0] + -1)", "reject"),
    ("U-no-reshape-back", SEG, "    if multiseg:\n        segmentation = segmentation.reshape(orig_shape)\n", "", "reject"),
    # ---- relabel_segmentation_with_track_id
    ("T-mask-whole-volume", SEG,
     "            previous_seg_mask = segmentation[time_frame] == previous_seg_id\n            tracked_masks[time_frame][previous_seg_mask] = id_counter\n",
     "            previous_seg_mask = segmentation == previous_seg_id\n            tracked_masks[previous_seg_mask] = id_counter\n", "reject"),
    ("T-mask-from-output", SEG, "previous_seg_mask = segmentation[time_frame] == previous_seg_id",
     "previous_seg_mask = tracked_masks[time_frame] == previous_seg_id", "reject"),
    ("T-start-at-0", SEG, "    id_counter = 1\n", "    id_counter = 0\n", "reject"),
    ("T-counter-per-node", SEG, "        id_counter += 1\n", "            id_counter += 1\n", "reject"),
    ("T-divisions-threshold", SEG, "if d > 1]", "if d > 2]", "reject"),
    ("T-no-cut", SEG, "        soln_copy.remove_edges_from(out_edges)\n", "        pass\n", "reject"),
    ("T-components-of-uncut", SEG, "nx.weakly_connected_components(soln_copy)", "nx.weakly_connected_components(solution_nx_graph)", "reject"),
    ("T-cut-while-iterating", SEG, "        id_counter += 1\n", "        id_counter += 1\n        soln_copy.remove_edges_from(solution_nx_graph.out_edges(id_counter))\n", "reject"),
    ("T-wrong-attr", SEG, "solution_nx_graph.nodes[node][NodeAttr.SEG_ID.value]", "solution_nx_graph.nodes[node][NodeAttr.TRACK_ID.value]", "reject"),
    # ---- relabel_segmentation
    ("R-offset-from-seg-ids", IMP, "offset = 1 if 0 in node_ids else 0", "offset = 1 if 0 in seg_ids else 0", "reject"),
    ("R-no-id-shift", IMP, "        node_ids = node_ids + offset\n", "", "reject"),
    ("R-no-graph-shift", IMP, "        nx.relabel_nodes(graph, mapping, copy=False)\n", "", "reject"),
    ("R-graph-copy", IMP, "nx.relabel_nodes(graph, mapping, copy=False)", "nx.relabel_nodes(graph, mapping, copy=True)", "reject"),
    ("R-mask-from-output", IMP, "new_segmentation[t][computed_seg[t] == seg_id] = node_id",
     "new_segmentation[t][new_segmentation[t] == seg_id] = node_id", "reject"),
    ("R-mask-all-times", IMP, "        mask = time_values == t\n", "        mask = time_values != t\n", "reject"),
    ("R-swap-zip", IMP, "dict(zip(seg_ids_t, node_ids_t, strict=True))", "dict(zip(node_ids_t, seg_ids_t, strict=True))", "reject"),
    ("R-non-strict-zip", IMP, "dict(zip(seg_ids_t, node_ids_t, strict=True))", "dict(zip(seg_ids_t, node_ids_t))", "reject"),
    ("R-start-from-copy", IMP, "np.zeros_like(computed_seg).astype(np.uint64)", "computed_seg.astype(np.uint64)", "reject"),
    ("R-new-import", IMP, "import numpy as np\n", "import cupy as np\n", "reject"),
]

VO = ["Model/NpRt.vo", "Model/LabelUtils.vo", "Model/Relabel.vo", "Proofs/NpRtLemmas.vo"]


def coqc(cwd, f):
    p = subprocess.run(["timeout", "600", "coqc", "-Q", ".", "FT", f], cwd=cwd, capture_output=True, text=True)
    return p.returncode, (p.stdout + p.stderr)


def first_error(out):
    ls = [l for l in out.splitlines() if l.strip()]
    for i, l in enumerate(ls):
        if l.startswith("File "):
            return " | ".join(ls[i:i + 3])[:300]
    return " | ".join(ls[:3])[:300]


def run_case(scratch, base, cid, rel, old, new):
    mut = os.path.join(scratch, "repo_" + cid)
    shutil.copytree(base, os.path.join(mut, "src"))
    if rel is not None:
        p = os.path.join(mut, rel)
        s = open(p).read()
        if old not in s:
            return "error", "pattern not found in %s" % rel
        open(p, "w").write(s.replace(old, new))
    cq = os.path.join(scratch, "coq_" + cid)
    for d in ("Model", "Gen", "Proofs"):
        os.makedirs(os.path.join(cq, d))
    for v in VO:
        shutil.copy(os.path.join(ROOT, "coq", v), os.path.join(cq, v))
    for v in ("Proofs/LabelUtilsTie.v", "Proofs/RelabelTie.v"):
        shutil.copy(os.path.join(ROOT, "coq", v), os.path.join(cq, v))
    os.environ["VERIF_REPO"] = mut
    r1 = T.regenerate_labels(out=os.path.join(cq, "Gen", "LabelUtils_gen.v"))
    r2 = T.regenerate_relabel(out=os.path.join(cq, "Gen", "Relabel_gen.v"))
    notes = []
    if not r1[0]:
        notes.append("translator: Unsupported: " + r1[1][:260])
    if not r2[0]:
        notes.append("translator: Unsupported: " + r2[1][:260])
    for f in ("Gen/LabelUtils_gen.v", "Gen/Relabel_gen.v", "Proofs/LabelUtilsTie.v", "Proofs/RelabelTie.v"):
        rc, out = coqc(cq, f)
        if rc != 0:
            notes.append("coqc %s FAILS: %s" % (f, first_error(out)))
            if f.startswith("Gen/") or f.endswith("LabelUtilsTie.v"):
                break       # the later files depend on this one
        elif f.startswith("Proofs/") and out.count("Closed under the global context") < 2:
            notes.append("coqc %s: unexpected Print Assumptions output: %s" % (f, out[:200]))
    return ("reject" if notes else "keep"), "; ".join(notes) or "translated, both tie files compile, Closed under the global context"


def main():
    scratch = tempfile.mkdtemp(prefix="np_selftest_", dir="/tmp")
    saved = os.environ.get("VERIF_REPO")
    ok = True
    try:
        base = os.path.join(scratch, "base_src")
        shutil.copytree(os.path.join(saved or "/repo", "src"), base)
        for cid, rel, old, new, expect in CASES:
            got, note = run_case(scratch, base, cid, rel, old, new)
            good = got == expect
            ok = ok and good
            print("%-4s %-28s expected=%-6s got=%-6s %s" % ("ok" if good else "BAD", cid, expect, got, note))
            sys.stdout.flush()
    finally:
        shutil.rmtree(scratch, ignore_errors=True)
        if saved is None:
            os.environ.pop("VERIF_REPO", None)
        else:
            os.environ["VERIF_REPO"] = saved
    print("scratch dir removed: %s" % (not os.path.exists(scratch)))
    print("SELFTEST %s" % ("PASSED" if ok else "FAILED"))
    return 0 if ok else 1


if __name__ == "__main__":
    sys.exit(main())
