"""Mutation campaign for the user-action tie (evidence that the tie is sensitive to the source).

Every statement inside the seven `__init__` bodies is deleted in turn, and every pair of adjacent
statements is swapped.  A mutant is
  refused   the translator raises Unsupported (fail closed),
  same      the generated text does not change (only the documented no-op idioms may do that),
  killed    Proofs/UserActionsTie.v no longer compiles against the regenerated embedding,
  SURVIVED  the tie still compiles: the mutant is behaviourally equal for the model, or a hole.
Works in /tmp/ua_mut (removed at the end), never touches /repo or coq/Gen.  Usage:
  mutate_user_actions.py [jobs]            (needs Model/PyRt.vo and the FT libraries compiled)
"""
import ast, copy, os, shutil, subprocess, sys
from concurrent.futures import ThreadPoolExecutor

sys.path.insert(0, os.path.dirname(os.path.abspath(__file__)))
import translate_user_actions as T

ROOT = "/tmp/ua_mut"
UA = "src/funtracks/user_actions"
strip = lambda t: "\n".join(l for l in t.split("\n") if "sha256=" not in l and not l.startswith("(* GENERATED"))


def bodies(fn):
    """all statement lists inside fn, as access paths"""
    out = []

    def walk(body, path):
        out.append(path)
        for i, s in enumerate(body):
            for fld in ("body", "orelse"):
                if isinstance(getattr(s, fld, None), list) and getattr(s, fld): walk(getattr(s, fld), path + [(i, fld, None)])
            for hi, h in enumerate(getattr(s, "handlers", [])): walk(h.body, path + [(i, "handlers", hi)])
    walk(fn.body, [])
    return out


def resolve(fn, path):
    body = fn.body
    for i, fld, hi in path:
        body = getattr(body[i], fld) if hi is None else body[i].handlers[hi].body
    return body


def init_of(tree):
    return [n for c in tree.body if isinstance(c, ast.ClassDef) for n in c.body if isinstance(n, ast.FunctionDef) and n.name == "__init__"][0]


def mutants():
    for cls, fname, model in T.CLASSES:
        tree = ast.parse(open(os.path.join(T.REPO, UA, fname)).read())
        for path in bodies(init_of(tree)):
            n = len(resolve(init_of(tree), path))
            for i in range(n):
                for kind in ("delete", "swap"):
                    if kind == "swap" and i + 1 >= n: continue
                    t2 = copy.deepcopy(tree)
                    body = resolve(init_of(t2), path)
                    if T.is_docstring(body[i]): continue
                    what = "%s:%d %s `%s`" % (fname, body[i].lineno, kind, ast.unparse(body[i]).split("\n")[0][:60])
                    if kind == "delete":
                        del body[i]
                        if not body: body.append(ast.Pass())
                    else:
                        if T.is_docstring(body[i + 1]): continue
                        body[i], body[i + 1] = body[i + 1], body[i]
                    yield fname, what, ast.unparse(ast.fix_missing_locations(t2))


def prepare(job):
    """sequential part (the translator keeps global state): returns a verdict, or the directory to compile"""
    k, fname, what, text, base = job
    d = os.path.join(ROOT, "m%03d" % k)
    shutil.copytree(os.path.join(T.REPO, UA), os.path.join(d, UA))
    open(os.path.join(d, UA, fname), "w").write(text)
    try:
        out = T.main(d)
    except T.Unsupported as e:
        shutil.rmtree(d, ignore_errors=True)
        return what, "refused", str(e).split(": ", 1)[-1][:70]
    shutil.rmtree(d, ignore_errors=True)
    if strip(out) == base: return what, "same", ""
    os.makedirs(d + "/coq/Gen"); os.makedirs(d + "/coq/Proofs")
    open(d + "/coq/Gen/UserActions_gen.v", "w").write(out)
    tie = open("/verif/coq/Proofs/UserActionsTie.v").read()
    tie = tie.replace("From FT Require Import Base.Dict Model.Edit Model.PyRt Gen.UserActions_gen.",
                      "From FT Require Import Base.Dict Model.Edit Model.PyRt. From SC Require Import Gen.UserActions_gen.")
    tie = tie.replace("timeout 300 walk", "timeout 90 walk")
    open(d + "/coq/Proofs/UserActionsTie.v", "w").write(tie)
    return what, None, d


def compile_(item):
    what, verdict, d = item
    if verdict is not None: return item
    q = ["-Q", "/verif/coq", "FT", "-Q", ".", "SC"]
    r = subprocess.run(["coqc"] + q + ["Gen/UserActions_gen.v"], cwd=d + "/coq", capture_output=True, text=True)
    if r.returncode == 0:
        r = subprocess.run(["timeout", "1500", "coqc"] + q + ["Proofs/UserActionsTie.v"], cwd=d + "/coq", capture_output=True, text=True)
        if r.returncode == 0:
            shutil.rmtree(d, ignore_errors=True)
            return what, "SURVIVED", ""
        err = [l.strip() for l in (r.stderr + r.stdout).split("\n") if "in proof" in l]
        detail = " ".join(err)[:90]
    else:
        detail = "generated file does not type-check"
    shutil.rmtree(d, ignore_errors=True)
    return what, "killed", detail


if __name__ == "__main__":
    jobs = int(sys.argv[1]) if len(sys.argv) > 1 and sys.argv[1].isdigit() else 4
    shutil.rmtree(ROOT, ignore_errors=True); os.makedirs(ROOT)
    base = strip(T.main(T.REPO))
    work = [prepare((k, f, w, t, base)) for k, (f, w, t) in enumerate(mutants())]
    count = {}
    with ThreadPoolExecutor(jobs) as ex:
        for what, verdict, detail in ex.map(compile_, work):
            count[verdict] = count.get(verdict, 0) + 1
            if verdict in ("SURVIVED", "same") or "-v" in sys.argv: print("%-9s %s  %s" % (verdict, what, detail), flush=True)
    shutil.rmtree(ROOT, ignore_errors=True)
    print("mutants: %d  %s" % (len(work), "  ".join("%s=%d" % kv for kv in sorted(count.items()))))
