"""Fail-closed translator: funtracks/import_export/_utils.py (filter_graph_with_ancestors only)
   -> coq/Gen/SubsetUtils_gen.v

The engine and the CLOSED IDIOM TABLE are in harness/translate_pure.py.  This module adds the
configuration for this source file (trusted with the table):

 * only the function `filter_graph_with_ancestors` is translated; the other top-level
   statements of _utils.py are not looked at, except that none of them may re-bind `nx`
   and that the module-level `import networkx as nx` must be present;
 * signature table:  graph : nx.DiGraph        -> SubsetExport.graph (node list, edge list)
                     nodes_to_keep             -> list Z   (an iterable of node ids; the
                                                  annotation says set[int], callers pass lists too)
                     result : list[int]        -> list Z   (a Python list made from a set: an order
                                                  is chosen, see set_of_list / set_update in PyRt2.v)
 * idioms used by this function: set(l), s.update(t), list(s), nx.ancestors(g, n), for, return.

Proofs/SubsetTie.v proves  gen_filter_graph_with_ancestors g sel = Ok (filter_graph_with_ancestors g sel)
under `incl sel (g_nodes g)` (the hypothesis of the C15 theorems; without it networkx raises).
"""
import os, sys
sys.path.insert(0, os.path.dirname(os.path.abspath(__file__)))
import translate_pure as T
from translate_pure import Unsupported

REL = "src/funtracks/import_export/_utils.py"
SRC = os.environ.get("VERIF_REPO", "/repo") + "/" + REL
OUT = "/verif/coq/Gen/SubsetUtils_gen.v"

CFG = {
    "tool": "harness/translate_utils.py",
    "only": {"filter_graph_with_ancestors"},
    "order": ["filter_graph_with_ancestors"],
    "sigs": {
        "filter_graph_with_ancestors": {
            "params": [("graph", "graph"), ("nodes_to_keep", ("list", "int"))],
            "ret": ("list", "int"),
        },
    },
    "gen_name": lambda f: "gen_" + f.lstrip("_"),
    "modules": {"nx"},
    "imports_required": ["import networkx as nx"],
    "strings": {},
    "preamble": [
        "From Coq Require Import ZArith List Bool.",
        "From FT Require Import Base.Dict Model.PyRt2.",
        "From FT Require Model.SubsetExport.",
        "Import ListNotations.",
        "Open Scope Z_scope.",
        "Notation graph := SubsetExport.graph.",
        "",
    ],
    "postamble": [],
}

def regenerate(src=None, out=None):
    return T.regenerate(CFG, src or SRC, out or OUT, REL)

if __name__ == "__main__":
    if len(sys.argv) > 1: sys.stdout.write(T.translate(CFG, sys.argv[1], REL))
    else: print(regenerate())
