"""Regenerate /verif/MANIFEST.json from the META of every property module."""
import importlib, json, os, sys
sys.path.insert(0, os.path.dirname(os.path.abspath(__file__)))
props = [json.loads(l) for l in open('/verif/properties.jsonl')]
NA = json.load(open('/verif/harness/not_applicable.json')) if os.path.exists('/verif/harness/not_applicable.json') else {}
checks, na = [], []
for p in props:
    pid = p['id']
    path = '/verif/harness/props/%s.py' % pid.lower()
    if os.path.exists(path):
        m = importlib.import_module('props.%s' % pid.lower()).META
        if m.get('claimed') is True and os.path.exists('/verif/coq/Props/%s.v' % pid):
            checks.append({
                "property_id": pid,
                "quick_cmd": "./check %s --tier quick" % pid,
                "thorough_cmd": "./check %s --tier thorough" % pid,
                "evidence_file": "/verif/evidence/%s.json" % pid,
                "replay_cmd_template": "./check %s --replay {path}" % pid,
                "engine": "coq+correspondence",
                "level_claimed": {"category": "proof", "text": m["level_text"], "design_ref": m.get("design_ref", "DESIGN.md section 9")},
                "level_note": m["level_note"],
                "technique": m["technique"],
            })
            continue
    na.append({"property_id": pid, "reason": NA.get(pid, "check under construction: its Coq theorems and correspondence check are not built yet")})
man = {
    "version": 1,
    "setup_cmd": "/verif/setup.sh",
    "hooks": {"guard": "FUNTRACKS_VERIF", "enable": "no hooks: every observation the checks need is available through public attributes of the tracks object; checks import funtracks from /repo/src (PYTHONPATH) so they always run the current working tree",
              "baseline_off_cmd": "cd /repo && /venv/bin/python -m pytest -q -p no:cacheprovider --timeout=900", "source_commits": [], "add_only": True},
    "engines": [{"name": "coq+correspondence", "path": "/verif/check", "serves_properties": [c["property_id"] for c in checks],
                 "kind_free_text": "Coq 8.16.1 theorems about an executable Gallina model (coq/Model, coq/Proofs, coq/Props) + differential correspondence of the extracted model with the implementation (harness/)"}],
    "checks": checks,
    "not_applicable": na,
    "notes": "See DESIGN.md. known_findings.json lists repaired defects (fixed entries; their witnesses run first in every check).",
}
json.dump(man, open('/verif/MANIFEST.json', 'w'), indent=1)
print("claimed:", [c["property_id"] for c in checks])
