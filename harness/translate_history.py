"""Fail-closed translator: funtracks/actions/action_history.py -> History_gen.v (prototype)."""
import ast, sys, hashlib
class Unsupported(Exception): pass
FIELDS=("undo_stack","redo_stack")
def fail(node,why): raise Unsupported(f"line {getattr(node,'lineno','?')}: {why}: {ast.dump(node)[:120]}")
class Env:
    def __init__(s,fields,cur,locs): s.f=dict(fields); s.cur=cur; s.l=dict(locs)
    def copy(s): return Env(s.f,s.cur,s.l)
    def mk(s): return "{| cur := %s; undo_stack := %s; redo_stack := %s |}"%(s.cur,s.f["undo_stack"],s.f["redo_stack"])
def is_self_field(n):
    return isinstance(n,ast.Attribute) and isinstance(n.value,ast.Name) and n.value.id=="self" and n.attr in FIELDS
def zexpr(n,env,props):       # integer expressions -> Z
    if isinstance(n,ast.Constant) and isinstance(n.value,int) and not isinstance(n.value,bool): return "(%d)"%n.value
    if isinstance(n,ast.Call) and isinstance(n.func,ast.Name) and n.func.id=="len" and len(n.args)==1: return "Z.of_nat (length %s)"%lexpr(n.args[0],env)
    if isinstance(n,ast.BinOp) and isinstance(n.op,(ast.Add,ast.Sub)): return "(%s %s %s)"%(zexpr(n.left,env,props),"+" if isinstance(n.op,ast.Add) else "-",zexpr(n.right,env,props))
    if isinstance(n,ast.Attribute) and isinstance(n.value,ast.Name) and n.value.id=="self" and n.attr in props: return props[n.attr](env)
    fail(n,"integer expression")
def lexpr(n,env):             # list expressions
    if is_self_field(n): return env.f[n.attr]
    if isinstance(n,ast.List) and not n.elts: return "[]"
    fail(n,"list expression")
def cond(n,env,props):        # boolean conditions
    if isinstance(n,ast.Compare) and len(n.ops)==1:
        op={ast.Lt:"<?",ast.LtE:"<=?",ast.Gt:">?",ast.GtE:">=?",ast.Eq:"=?"}.get(type(n.ops[0]))
        if op: return "(%s %s %s)"%(zexpr(n.left,env,props),op,zexpr(n.comparators[0],env,props))
    if is_self_field(n): return "(negb (is_nil %s))"%env.f[n.attr]
    if isinstance(n,ast.UnaryOp) and isinstance(n.op,ast.Not): return "(negb %s)"%cond(n.operand,env,props)
    fail(n,"condition")
fresh=[0]
def block(stmts,env,props,ret_unit):
    if not stmts: return "(%s, %s)"%(env.mk(),"tt" if ret_unit else fail(ast.Pass(),"missing return"))
    s,rest=stmts[0],stmts[1:]
    if isinstance(s,ast.Expr) and isinstance(s.value,ast.Constant) and isinstance(s.value.value,str): return block(rest,env,props,ret_unit)   # docstring
    if isinstance(s,ast.Return):
        v=s.value
        if isinstance(v,ast.Constant) and isinstance(v.value,bool): return "(%s, %s)"%(env.mk(),"true" if v.value else "false")
        fail(s,"return value")
    if isinstance(s,ast.If):
        return "(if %s then %s else %s)"%(cond(s.test,env,props),block(s.body+rest,env.copy(),props,ret_unit),block(s.orelse+rest,env.copy(),props,ret_unit))
    if isinstance(s,ast.Assign) and len(s.targets)==1:
        t,v=s.targets[0],s.value
        if is_self_field(t): env.f[t.attr]=lexpr(v,env); return block(rest,env,props,ret_unit)
        if isinstance(t,ast.Name):
            # x = self.f[i]
            if isinstance(v,ast.Subscript) and is_self_field(v.value):
                env.l[t.id]="(nth (Z.to_nat %s) %s dA)"%(zexpr(v.slice,env,props),env.f[v.value.attr]); return block(rest,env,props,ret_unit)
            # x = self.f.pop(-1)
            if isinstance(v,ast.Call) and isinstance(v.func,ast.Attribute) and v.func.attr=="pop" and is_self_field(v.func.value) and (not v.args or (isinstance(v.args[0],ast.UnaryOp) and isinstance(v.args[0].op,ast.USub) and v.args[0].operand.value==1)):
                f=v.func.value.attr; env.l[t.id]="(last %s dA)"%env.f[f]; env.f[f]="(removelast %s)"%env.f[f]; return block(rest,env,props,ret_unit)
            # x = y.inverse()
            if isinstance(v,ast.Call) and isinstance(v.func,ast.Attribute) and v.func.attr=="inverse" and isinstance(v.func.value,ast.Name) and v.func.value.id in env.l:
                fresh[0]+=1; s_="s%d"%fresh[0]; b_="b%d"%fresh[0]; arg=env.l[v.func.value.id]; cur=env.cur
                env.cur=s_; env.l[t.id]=b_
                return "(let '(%s, %s) := inv %s %s in %s)"%(s_,b_,cur,arg,block(rest,env,props,ret_unit))
        fail(s,"assignment")
    if isinstance(s,ast.Expr) and isinstance(s.value,ast.Call) and isinstance(s.value.func,ast.Attribute):
        c=s.value; m=c.func.attr; o=c.func.value
        if m in("append","extend") and is_self_field(o) and len(c.args)==1:
            a=c.args[0]
            if m=="extend": env.f[o.attr]="(%s ++ %s)"%(env.f[o.attr],lexpr(a,env))
            else:
                if not(isinstance(a,ast.Name)): fail(s,"append argument")
                env.f[o.attr]="(%s ++ [%s])"%(env.f[o.attr],env.l.get(a.id,a.id))
            return block(rest,env,props,ret_unit)
        if m=="inverse" and isinstance(o,ast.Name) and o.id in env.l and not c.args:     # result discarded
            fresh[0]+=1; s_="s%d"%fresh[0]; arg=env.l[o.id]; cur=env.cur; env.cur=s_
            return "(let '(%s, _) := inv %s %s in %s)"%(s_,cur,arg,block(rest,env,props,ret_unit))
    fail(s,"statement")
def main(path):
    src=open(path).read(); tree=ast.parse(src)
    cls=[n for n in tree.body if isinstance(n,ast.ClassDef) and n.name=="ActionHistory"]
    if len(cls)!=1: raise Unsupported("class ActionHistory not found")
    out=["(* generated by translate.py from %s  sha256=%s *)"%("src/funtracks/actions/action_history.py",hashlib.sha256(src.encode()).hexdigest()[:16]),
         "From Coq Require Import List Arith Bool ZArith.","Import ListNotations.","Open Scope Z_scope.",
         "Definition is_nil {A} (l:list A) := match l with [] => true | _ => false end.",
         "Section History_gen.","Variables (St Act : Type) (inv : St -> Act -> St * Act) (dA : Act).",
         "Record hist := { cur : St; undo_stack : list Act; redo_stack : list Act }."]
    props={}; base=lambda: Env({f:"(%s h)"%f for f in FIELDS},"(cur h)",{})
    for fn in cls[0].body:
        if isinstance(fn,ast.Expr): continue
        if not isinstance(fn,ast.FunctionDef): fail(fn,"class member")
        args=[a.arg for a in fn.args.args]
        if fn.name=="__init__":
            got={}
            for s in fn.body:
                t=s.target if isinstance(s,ast.AnnAssign) else (s.targets[0] if isinstance(s,ast.Assign) else None)
                if t is None or not is_self_field(t) or not(isinstance(s.value,ast.List) and not s.value.elts): fail(s,"__init__ statement")
                got[t.attr]=True
            if set(got)!=set(FIELDS): raise Unsupported("fields changed: %s"%sorted(got))
            out.append("Definition init (s:St) : hist := {| cur := s; undo_stack := []; redo_stack := [] |}.")
        elif any(isinstance(d,ast.Name) and d.id=="property" for d in fn.decorator_list):
            body=[s for s in fn.body if not(isinstance(s,ast.Expr) and isinstance(s.value,ast.Constant))]
            if len(body)!=1 or not isinstance(body[0],ast.Return): fail(fn,"property body")
            e=body[0].value; name=fn.name.lstrip("_")
            out.append("Definition %s (h:hist) : Z := %s."%(name,zexpr(e,base(),props)))
            props[fn.name]=(lambda nm: (lambda env: "(%s %s)"%(nm,env.mk())))(name)
        else:
            env=base(); params=""
            if fn.name=="add_new_action":
                if args!=["self","action"]: fail(fn,"signature")
                env.l["action"]="action"; params=" (action:Act) (s':St)"; env.cur="s'"   # the edit itself moved the state to s'
                out.append("Definition %s (h:hist)%s : hist * unit := %s."%(fn.name,params,block(fn.body,env,props,True)))
            else:
                if args!=["self"]: fail(fn,"signature")
                out.append("Definition %s (h:hist) : hist * bool := %s."%(fn.name,block(fn.body,env,props,False)))
    out.append("End History_gen.")
    return "\n".join(out)+"\n"
import os as _os
SRC=_os.environ.get("VERIF_REPO","/repo")+"/src/funtracks/actions/action_history.py"
OUT="/verif/coq/Gen/History_gen.v"
def regenerate(src=SRC,out=OUT):
    """(re)write Gen/History_gen.v from the current source; returns (ok, message)"""
    import os
    try:
        fresh[0]=0
        txt=main(src); ok=True; msg="translated"
    except Unsupported as e:
        # fail closed: a file that does not type-check
        txt="(* TRANSLATION FAILED: %s *)\nDefinition translation_failed : False := I.\n"%e; ok=False; msg=str(e)
    except Exception as e:
        txt="(* TRANSLATION FAILED: %s: %s *)\nDefinition translation_failed : False := I.\n"%(type(e).__name__,e); ok=False; msg=str(e)
    os.makedirs(os.path.dirname(out),exist_ok=True)
    old=open(out).read() if os.path.exists(out) else None
    # ignore the source hash line when deciding whether the content changed
    strip=lambda t: "\n".join(t.split("\n")[1:]) if t else t
    if old is None or strip(old)!=strip(txt): open(out,"w").write(txt)
    return ok,msg
if __name__=="__main__":
    if len(sys.argv)>1: sys.stdout.write(main(sys.argv[1]))
    else: print(regenerate())
