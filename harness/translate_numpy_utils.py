"""Fail-closed translator for the two small numpy modules

    src/funtracks/utils/_segmentation_utils.py            ->  coq/Gen/LabelUtils_gen.v
    src/funtracks/import_export/_import_segmentation.py   ->  coq/Gen/Relabel_gen.v

Each translated function becomes a Gallina definition `gen_<name>` (a shallow embedding: local
variables are `let`s, loops are folds over their loop-carried variables) over the data
representation of the hand models Model/LabelUtils.v and Model/Relabel.v.  Proofs/LabelUtilsTie.v
and Proofs/RelabelTie.v prove every generated definition equal to the hand-written model function
for ALL inputs, so a change of the Python changes the generated text and un-hooks the tie.

Anything not listed below raises `Unsupported(<file>: line N: ...)`; nothing is guessed, and only
docstrings and type annotations are skipped.  TRUSTED: this table, the emitter below, and the
combinators of coq/Model/NpRt.v (one line of numpy meaning each).

DATA REPRESENTATION                       (that of the hand models; integers are unbounded Z: dtype
                                           wrap-around is out of scope, DESIGN.md section D)
  1-D array / one frame (spatial axes flattened, C order)      list Z            type  arr1
  array (T, *spatial)                                          list (list Z)            arr2
  array (H, T, *spatial)   (multiseg=True)                     list (list (list Z))     arr3
  boolean mask over a 1-D array / frame                        list bool                mask
  dict with integer keys and values                            list (Z * Z)             dict
  python int, numpy integer scalar, time, node id              Z
  graph of relabel_segmentation (only its node ids matter)     list Z                   nodes
  graph of relabel_segmentation_with_track_id                  abstract `Graph`; every networkx call on
                                                               it is a Section variable of the generated file
                                                               (so `nx.weakly_connected_components`, the
                                                               component oracle, is an ARGUMENT)
  An index i is used through Z.to_nat; out-of-range reads give [] and writes are no-ops (numpy:
  IndexError; a negative index counts from the end -- both outside the domain of the hand models).

FUNCTIONS (a parameter list or default that differs from this table is Unsupported)
  relabel_segmentation_with_track_id(solution_nx_graph: Graph, segmentation: arr2)
  ensure_unique_labels(segmentation, multiseg=False)   translated TWICE, specialised on the boolean:
        gen_ensure_unique_labels          (multiseg = False, segmentation: arr2)
        gen_ensure_unique_labels_multiseg (multiseg = True,  segmentation: arr3)
        `if multiseg:` is then decided at translation time
  relabel_segmentation(seg_array: arr2, graph: nodes, node_ids: arr1, seg_ids: arr1, time_values: arr1)
        returns (result, graph) because the graph parameter is modified in place
  read_dims, load_segmentation             NOT translated (Path / dask wrapping / ndim have no counterpart in
                                           the representation, no hand model, no property); any OTHER
                                           top-level statement or function is Unsupported
  imports                                  exactly the present import statements (so np / nx / da / NodeAttr
                                           mean numpy / networkx / dask.array / the enum whose TIME, SEG_ID
                                           values are checked to be "time", "seg_id")

CLOSED IDIOM TABLE                         Python                               Gallina (NpRt.v unless marked)
 -- statements
  x = e   /   x: T = e                                                          let x := e in ..
  x += e            (x an int)                                                  let x := x + e in ..
  A[i] = F          (A arr(n+1), F arr n)                                       A := np_setitem A i F
  A[i][M] = v       (A arr2, M mask, v int)                                     A := np_setitem A i (np_mask_assign (np_getitem A i) M v)
  F[M] = v  /  F[M] += c      (F arr1)                                          F := np_mask_assign F M v  /  np_mask_iadd F M c
        if F was bound by `F = A[i]` (a numpy VIEW) the same statement also
        writes through:                                                         A := np_setitem A i F
  for x in E: body  /  for a, b in E: body                                      let '(carried) := py_for E (carried) (fun x '(carried) => body) in ..
        E: range(n) | np.unique(a) | a list variable | d.items() |
           nx.weakly_connected_components(G);  carried = the variables bound
           before the loop that the body rebinds or modifies in place; a
           variable first bound inside the body is local to one iteration
           (using it afterwards is Unsupported); unless E is range(..) / np.unique(..)
           (computed before the loop) it must not mention a carried variable
  if c: .. [else: ..]                                                           let '(changed) := if c then .. else .. in ..
        c an int: py_truthy_int c;  `if <specialised bool parameter>`: static
  G2.remove_edges_from(E)                  (G2 an abstract graph variable)      G2 := nx_remove_edges_from G2 E   (Section variable)
  nx.relabel_nodes(G, M, copy=False)       (G nodes, M dict)                    G := nx_relabel_nodes G M
  return e          (last statement only)                                       e   -- (e, p1, ..) when parameters p1.. were modified in place
 -- expressions
  integer literal, a + b, a > b  (also < <= >= == !=)                           Z, +, >? ..
  a if c else b     (ints)                                                      if c then a else b
  int(e)   max(a, b)                                                            py_int e    py_max a b
  range(n)                                                                      py_range n
  np.zeros_like(A)                         (A arr2)                             np_zeros_like A
  E.astype(np.uint64)                                                           np_astype_uint64 E   (marks the array UNSIGNED)
  np.asarray(a)                                                                 np_asarray a         (same object)
  X.compute() if isinstance(X, da.Array) else X                                 da_compute_if_dask X (same object)
  A.shape[0]                                                                    np_shape0 A
  S = A.shape;  A.reshape((-1, *S[2:]));  B.reshape(S)                          np_shape01 A;  np_reshape_merge01 A;  np_reshape_split01 S B
        (A arr3 whose shape S is, B the arr2 obtained from A: reshape gives
        a view, so A and B count as the same object)
  A[i]              (A arr(n+1), i int)                                         np_getitem A i       (a view when bound to a name, see above)
  a[M]              (a arr1, M mask)                                            np_bool_index a M
  a == v   a != v   (a arr1, v int)                                             np_eq_mask a v   np_ne_mask a v
  a + c             (a arr1, c int)                                             np_add_scalar a c
  v in a            (a arr1)                                                    np_contains a v
  np.max(F)         (F arr1, UNSIGNED only)                                     np_max_unsigned F
  np.unique(a)      (a arr1)                                                    np_unique a
  dict(zip(a, b, strict=True))                                                  py_dict (py_zip_strict a b)
  {k: v for x in E}                                                             py_dict_comp (fun x => (k, v)) E
  d.items()                                                                     py_dict_items d
  [e for p in E if c]                                                           py_listcomp (fun p => e) (fun p => c) E
  G.nodes()         (G nodes)                                                   nx_nodes G
  G.out_degree()  G.copy()  G.out_edges(n)  nx.weakly_connected_components(G)   nx_out_degree G  nx_copy G  nx_out_edges G n
  G.nodes[n][NodeAttr.TIME.value | NodeAttr.SEG_ID.value]   (G abstract)        nx_weakly_connected_components G  nx_node_attr G n NodeAttr_TIME|SEG_ID
                                                                                (all Section variables of the generated file)

ALIASING (what makes the value semantics of the embedding sound).  Every array / dict / graph value
has an object identity in the translator.  `b = a`, np.asarray, the dask idiom and reshape keep it,
every other expression creates a new object; `F = A[i]` records a view.  An in-place modification
of an object reachable under two names is Unsupported; modifying A in place poisons its other views
(reading them is Unsupported); modifying a parameter's object in place adds that parameter to the
result.  Renaming local variables changes nothing up to alpha-conversion.
"""
from __future__ import annotations

import ast
import hashlib
import os
import sys
from collections import namedtuple

HERE = os.path.dirname(os.path.abspath(__file__))
ROOT = os.path.dirname(HERE)
OUT_LABELS = os.path.join(ROOT, "coq", "Gen", "LabelUtils_gen.v")
OUT_RELABEL = os.path.join(ROOT, "coq", "Gen", "Relabel_gen.v")
REL_LABELS = "src/funtracks/utils/_segmentation_utils.py"
REL_RELABEL = "src/funtracks/import_export/_import_segmentation.py"
REL_ATTRS = "src/funtracks/data_model/graph_attributes.py"


def repo_root():
    return os.environ.get("VERIF_REPO", "/repo")


class Unsupported(Exception):
    pass


CURFILE = ["?"]


def fail(node, why):
    raise Unsupported("%s: line %s: %s: %s" % (CURFILE[0], getattr(node, "lineno", "?"), why, ast.dump(node)[:200]))


# ---------------------------------------------------------------- types
Z, BOOL, MASK, DICT, NODES, GRAPH, EDGES = "Z", "bool", "mask", "dict", "nodes", "Graph", "Edges"


def ARR(n, unsigned=False):
    return ("arr", n, unsigned)


def LIST(t):
    return ("list", t)


def TUP(*ts):
    return ("tuple", tuple(ts))


def SHAPE(n):
    return ("shape", n)


def is_arr(t, n=None):
    return isinstance(t, tuple) and t[0] == "arr" and (n is None or t[1] == n)


def same_type(a, b):
    return a == b


def mutable(t):
    return t in (MASK, DICT, NODES, GRAPH, EDGES) or (isinstance(t, tuple) and t[0] in ("arr", "list"))


def coq_type(t):
    if t == Z:
        return "Z"
    if t == BOOL:
        return "bool"
    if t == MASK:
        return "list bool"
    if t == DICT:
        return "list (Z * Z)"
    if t == NODES:
        return "list Z"
    if t in (GRAPH, EDGES):
        return t
    if is_arr(t):
        s = "Z"
        for _ in range(t[1]):
            s = "list (%s)" % s if " " in s else "list %s" % s
        return s
    if t[0] == "list":
        return "list (%s)" % coq_type(t[1])
    if t[0] == "tuple":
        return "(%s)" % " * ".join(coq_type(x) for x in t[1])
    if t[0] == "shape":
        return "list nat"
    raise Unsupported("internal: no Coq type for %r" % (t,))


RESERVED = {"np", "nx", "da", "NodeAttr", "Path", "magic_imread", "int", "max", "range", "dict", "zip",
            "isinstance", "len", "list", "tuple", "set", "min", "sum", "any", "all", "enumerate", "sorted"}


def cn(name):
    return "v_" + name


Val = namedtuple("Val", "coq type obj view shape_of")


def val(coq, type_, obj=None, view=None, shape_of=None):
    return Val(coq, type_, obj, view, shape_of)


# ---------------------------------------------------------------- environment
class Ctx:
    """per-function counters and the record of parameters modified in place"""

    def __init__(self):
        self.n = 0
        self.param_objs = {}
        self.mutated = []

    def fresh(self):
        self.n += 1
        return self.n


class Env:
    def __init__(self, ctx):
        self.ctx = ctx
        self.vars = {}      # name -> dict(type, obj, ver, shape_of)
        self.order = []     # names in order of first binding
        self.views = {}     # name -> dict(base, idx, idxvars, stale)
        self.poison = {}    # name -> reason
        self.static = {}    # name -> python bool (specialised parameter)

    def copy(self):
        e = Env(self.ctx)
        e.vars = {k: dict(v) for k, v in self.vars.items()}
        e.order = list(self.order)
        e.views = {k: dict(v) for k, v in self.views.items()}
        e.poison = dict(self.poison)
        e.static = dict(self.static)
        return e

    def lookup(self, node, name):
        if name in self.poison:
            fail(node, "variable %s is unusable here: %s" % (name, self.poison[name]))
        if name in self.static:
            fail(node, "specialised parameter %s used outside `if %s:`" % (name, name))
        if name not in self.vars:
            fail(node, "unknown variable %s (never bound, or bound only inside a loop / branch)" % name)
        return self.vars[name]

    def bind(self, node, name, type_, obj, shape_of=None):
        if name in RESERVED:
            fail(node, "binding the reserved name %s" % name)
        if name in self.static:
            fail(node, "assignment to the specialised parameter %s" % name)
        if obj is None and mutable(type_):
            obj = self.ctx.fresh()
        self.vars[name] = {"type": type_, "obj": obj, "ver": self.ctx.fresh(), "shape_of": shape_of}
        if name not in self.order:
            self.order.append(name)
        self.poison.pop(name, None)
        self.views.pop(name, None)
        for vw in self.views.values():
            if vw["base"] == name or name in vw["idxvars"]:
                vw["stale"] = True

    def live_names(self):
        return [n for n in self.order if n in self.vars and n not in self.poison]


def names_in(node):
    return {x.id for x in ast.walk(node) if isinstance(x, ast.Name)}


# ---------------------------------------------------------------- small AST matchers
def is_name(n, ident=None):
    return isinstance(n, ast.Name) and (ident is None or n.id == ident)


def is_mod_attr(n, mod, attr):
    return isinstance(n, ast.Attribute) and is_name(n.value, mod) and n.attr == attr


def int_const(n):
    return isinstance(n, ast.Constant) and isinstance(n.value, int) and not isinstance(n.value, bool)


def plain_call(n, nargs, keywords=()):
    """a call with exactly nargs positional arguments (no *args) and exactly the given keyword names"""
    return (isinstance(n, ast.Call) and len(n.args) == nargs and not any(isinstance(a, ast.Starred) for a in n.args)
            and tuple(k.arg for k in n.keywords) == tuple(keywords))


def node_attr_key(n):
    """NodeAttr.TIME.value / NodeAttr.SEG_ID.value"""
    if (isinstance(n, ast.Attribute) and n.attr == "value" and isinstance(n.value, ast.Attribute)
            and is_name(n.value.value, "NodeAttr") and n.value.attr in ("TIME", "SEG_ID")):
        return "NodeAttr_" + n.value.attr
    return None


CMP = {ast.Lt: "<?", ast.LtE: "<=?", ast.Gt: ">?", ast.GtE: ">=?", ast.Eq: "=?"}


# ---------------------------------------------------------------- expressions
def pattern(target, elem_type, env):
    """loop / comprehension target -> (Coq pattern, [(name, type)])"""
    if is_name(target):
        if mutable(elem_type) and not (isinstance(elem_type, tuple) and elem_type[0] == "list"):
            fail(target, "iteration over mutable elements")
        return cn(target.id), [(target.id, elem_type)]
    if isinstance(target, ast.Tuple) and isinstance(elem_type, tuple) and elem_type[0] == "tuple" \
            and len(target.elts) == len(elem_type[1]) and all(is_name(e) for e in target.elts) \
            and len({e.id for e in target.elts}) == len(target.elts):
        return "'(%s)" % ", ".join(cn(e.id) for e in target.elts), [(e.id, t) for e, t in zip(target.elts, elem_type[1])]
    fail(target, "loop / comprehension target")


def elem_type_of(node, t):
    if isinstance(t, tuple) and t[0] == "list":
        return t[1]
    if is_arr(t, 1):
        return Z
    fail(node, "not an iterable of the idiom table (type %r)" % (t,))


def sub_env(node, env, binds):
    e = env.copy()
    for name, t in binds:
        if name in env.vars or name in env.static:
            fail(node, "loop / comprehension variable %s shadows a variable" % name)
        e.bind(node, name, t, None)
    return e


def cond(n, env):
    v = expr(n, env)
    if v.type == BOOL:
        return v.coq
    if v.type == Z:
        return "(py_truthy_int %s)" % v.coq
    fail(n, "condition of type %r" % (v.type,))


def expr(n, env):
    # ---- atoms
    if int_const(n):
        return val("(%d)" % n.value, Z)
    if is_name(n):
        if n.id in RESERVED:
            fail(n, "bare use of %s" % n.id)
        v = env.lookup(n, n.id)
        return val(cn(n.id), v["type"], v["obj"], None, v["shape_of"])
    # ---- arithmetic
    if isinstance(n, ast.BinOp) and isinstance(n.op, ast.Add):
        a, b = expr(n.left, env), expr(n.right, env)
        if a.type == Z and b.type == Z:
            return val("(%s + %s)" % (a.coq, b.coq), Z)
        if is_arr(a.type, 1) and b.type == Z:
            return val("(np_add_scalar %s %s)" % (a.coq, b.coq), a.type)
        fail(n, "addition of %r and %r" % (a.type, b.type))
    if isinstance(n, ast.Compare) and len(n.ops) == 1 and len(n.comparators) == 1:
        op = n.ops[0]
        a, b = expr(n.left, env), expr(n.comparators[0], env)
        if isinstance(op, ast.In) and a.type == Z and is_arr(b.type, 1):
            return val("(np_contains %s %s)" % (b.coq, a.coq), BOOL)
        if a.type == Z and b.type == Z:
            if type(op) in CMP:
                return val("(%s %s %s)" % (a.coq, CMP[type(op)], b.coq), BOOL)
            if isinstance(op, ast.NotEq):
                return val("(negb (%s =? %s))" % (a.coq, b.coq), BOOL)
        if is_arr(a.type, 1) and b.type == Z:
            if isinstance(op, ast.Eq):
                return val("(np_eq_mask %s %s)" % (a.coq, b.coq), MASK)
            if isinstance(op, ast.NotEq):
                return val("(np_ne_mask %s %s)" % (a.coq, b.coq), MASK)
        fail(n, "comparison of %r and %r" % (a.type, b.type))
    if isinstance(n, ast.IfExp):
        # X.compute() if isinstance(X, da.Array) else X
        t, b, o = n.test, n.body, n.orelse
        if (is_name(o) and plain_call(t, 2) and is_name(t.func, "isinstance") and is_name(t.args[0], o.id)
                and is_mod_attr(t.args[1], "da", "Array") and plain_call(b, 0)
                and isinstance(b.func, ast.Attribute) and b.func.attr == "compute" and is_name(b.func.value, o.id)):
            x = expr(o, env)
            if not is_arr(x.type):
                fail(n, "dask idiom on a non-array")
            return val("(da_compute_if_dask %s)" % x.coq, x.type, x.obj)
        c = cond(t, env)
        a, b2 = expr(b, env), expr(o, env)
        if a.type == Z and b2.type == Z:
            return val("(if %s then %s else %s)" % (c, a.coq, b2.coq), Z)
        fail(n, "conditional expression of %r and %r" % (a.type, b2.type))
    # ---- attribute: A.shape
    if isinstance(n, ast.Attribute) and n.attr == "shape" and is_name(n.value):
        a = expr(n.value, env)
        if is_arr(a.type) and a.type[1] >= 2:
            return val("(np_shape01 %s)" % a.coq, SHAPE(a.type[1]), None, None, a.obj)
        fail(n, ".shape of %r" % (a.type,))
    # ---- subscripts
    if isinstance(n, ast.Subscript):
        # G.nodes[node][NodeAttr.K.value]
        k = node_attr_key(n.slice)
        if k is not None:
            inner = n.value
            if isinstance(inner, ast.Subscript) and isinstance(inner.value, ast.Attribute) and inner.value.attr == "nodes" \
                    and is_name(inner.value.value):
                g, x = expr(inner.value.value, env), expr(inner.slice, env)
                if g.type == GRAPH and x.type == Z:
                    return val("(nx_node_attr %s %s %s)" % (g.coq, x.coq, k), Z)
            fail(n, "node attribute access")
        # A.shape[0]
        if isinstance(n.value, ast.Attribute) and n.value.attr == "shape" and is_name(n.value.value):
            a = expr(n.value.value, env)
            if is_arr(a.type) and int_const(n.slice) and n.slice.value == 0:
                return val("(np_shape0 %s)" % a.coq, Z)
            fail(n, "shape component")
        a, i = expr(n.value, env), expr(n.slice, env)
        if is_arr(a.type) and a.type[1] >= 2 and i.type == Z:
            view = (n.value.id, i.coq, names_in(n.slice)) if is_name(n.value) else None
            return val("(np_getitem %s %s)" % (a.coq, i.coq), ARR(a.type[1] - 1, a.type[2]), None, view)
        if is_arr(a.type, 1) and i.type == MASK:
            return val("(np_bool_index %s %s)" % (a.coq, i.coq), a.type)
        fail(n, "subscript of %r by %r" % (a.type, i.type))
    # ---- comprehensions
    if isinstance(n, ast.ListComp) and len(n.generators) == 1:
        g = n.generators[0]
        if g.is_async or len(g.ifs) > 1:
            fail(n, "list comprehension shape")
        it = expr(g.iter, env)
        pat, binds = pattern(g.target, elem_type_of(g.iter, it.type), env)
        e2 = sub_env(n, env, binds)
        elt = expr(n.elt, e2)
        if elt.type != Z:
            fail(n, "list comprehension element of type %r" % (elt.type,))
        c = cond(g.ifs[0], e2) if g.ifs else "true"
        return val("(py_listcomp (fun %s => %s) (fun %s => %s) %s)" % (pat, elt.coq, pat, c, it.coq), LIST(Z))
    if isinstance(n, ast.DictComp) and len(n.generators) == 1:
        g = n.generators[0]
        if g.is_async or g.ifs:
            fail(n, "dict comprehension shape")
        it = expr(g.iter, env)
        pat, binds = pattern(g.target, elem_type_of(g.iter, it.type), env)
        e2 = sub_env(n, env, binds)
        k, v = expr(n.key, e2), expr(n.value, e2)
        if k.type != Z or v.type != Z:
            fail(n, "dict comprehension of %r: %r" % (k.type, v.type))
        return val("(py_dict_comp (fun %s => (%s, %s)) %s)" % (pat, k.coq, v.coq, it.coq), DICT)
    # ---- calls
    if isinstance(n, ast.Call):
        f = n.func
        # builtins
        if is_name(f, "int") and plain_call(n, 1):
            a = expr(n.args[0], env)
            if a.type == Z:
                return val("(py_int %s)" % a.coq, Z)
            fail(n, "int() of %r" % (a.type,))
        if is_name(f, "max") and plain_call(n, 2):
            a, b = expr(n.args[0], env), expr(n.args[1], env)
            if a.type == Z and b.type == Z:
                return val("(py_max %s %s)" % (a.coq, b.coq), Z)
            fail(n, "max() of %r, %r" % (a.type, b.type))
        if is_name(f, "range") and plain_call(n, 1):
            a = expr(n.args[0], env)
            if a.type == Z:
                return val("(py_range %s)" % a.coq, LIST(Z))
            fail(n, "range() of %r" % (a.type,))
        if is_name(f, "dict") and plain_call(n, 1):
            z = n.args[0]
            if plain_call(z, 2, ("strict",)) and is_name(z.func, "zip") and isinstance(z.keywords[0].value, ast.Constant) \
                    and z.keywords[0].value.value is True:
                a, b = expr(z.args[0], env), expr(z.args[1], env)
                if is_arr(a.type, 1) and is_arr(b.type, 1):
                    return val("(py_dict (py_zip_strict %s %s))" % (a.coq, b.coq), DICT)
            fail(n, "dict(..) other than dict(zip(a, b, strict=True))")
        # numpy
        if is_mod_attr(f, "np", "zeros_like") and plain_call(n, 1):
            a = expr(n.args[0], env)
            if is_arr(a.type, 2):
                return val("(np_zeros_like %s)" % a.coq, a.type)
            fail(n, "np.zeros_like of %r" % (a.type,))
        if is_mod_attr(f, "np", "asarray") and plain_call(n, 1):
            a = expr(n.args[0], env)
            if is_arr(a.type):
                return val("(np_asarray %s)" % a.coq, a.type, a.obj)
            fail(n, "np.asarray of %r" % (a.type,))
        if is_mod_attr(f, "np", "max") and plain_call(n, 1):
            a = expr(n.args[0], env)
            if is_arr(a.type, 1) and a.type[2]:
                return val("(np_max_unsigned %s)" % a.coq, Z)
            fail(n, "np.max of %r (only a frame of an array known to be unsigned, i.e. after astype(np.uint64))" % (a.type,))
        if is_mod_attr(f, "np", "unique") and plain_call(n, 1):
            a = expr(n.args[0], env)
            if is_arr(a.type, 1):
                return val("(np_unique %s)" % a.coq, a.type)
            fail(n, "np.unique of %r" % (a.type,))
        if is_mod_attr(f, "nx", "weakly_connected_components") and plain_call(n, 1):
            g = expr(n.args[0], env)
            if g.type == GRAPH:
                return val("(nx_weakly_connected_components %s)" % g.coq, LIST(LIST(Z)))
            fail(n, "weakly_connected_components of %r" % (g.type,))
        # methods
        if isinstance(f, ast.Attribute):
            m = f.attr
            if m == "astype" and plain_call(n, 1) and is_mod_attr(n.args[0], "np", "uint64"):
                a = expr(f.value, env)
                if is_arr(a.type):
                    return val("(np_astype_uint64 %s)" % a.coq, ARR(a.type[1], True))
                fail(n, "astype on %r" % (a.type,))
            if m == "reshape" and plain_call(n, 1) and is_name(f.value):
                a = expr(f.value, env)
                arg = n.args[0]
                # A.reshape((-1, *S[2:]))
                if (isinstance(arg, ast.Tuple) and len(arg.elts) == 2 and isinstance(arg.elts[0], ast.UnaryOp)
                        and isinstance(arg.elts[0].op, ast.USub) and int_const(arg.elts[0].operand) and arg.elts[0].operand.value == 1
                        and isinstance(arg.elts[1], ast.Starred) and isinstance(arg.elts[1].value, ast.Subscript)
                        and is_name(arg.elts[1].value.value) and isinstance(arg.elts[1].value.slice, ast.Slice)):
                    sl = arg.elts[1].value.slice
                    s = expr(arg.elts[1].value.value, env)
                    if (int_const(sl.lower) and sl.lower.value == 2 and sl.upper is None and sl.step is None
                            and s.type == SHAPE(3) and is_arr(a.type, 3) and s.shape_of is not None and s.shape_of == a.obj):
                        return val("(np_reshape_merge01 %s)" % a.coq, ARR(2, a.type[2]), a.obj)
                    fail(n, "reshape((-1, *S[2:])): S must be the saved shape of this (H, T, ..) array")
                # B.reshape(S)
                if is_name(arg):
                    s = expr(arg, env)
                    if s.type == SHAPE(3) and is_arr(a.type, 2) and s.shape_of is not None and s.shape_of == a.obj:
                        return val("(np_reshape_split01 %s %s)" % (s.coq, a.coq), ARR(3, a.type[2]), a.obj)
                    fail(n, "reshape(S): S must be the shape saved from the array this one was merged from")
                fail(n, "reshape argument")
            if m == "items" and plain_call(n, 0):
                d = expr(f.value, env)
                if d.type == DICT:
                    return val("(py_dict_items %s)" % d.coq, LIST(TUP(Z, Z)))
                fail(n, ".items() of %r" % (d.type,))
            if m == "nodes" and plain_call(n, 0):
                g = expr(f.value, env)
                if g.type == NODES:
                    return val("(nx_nodes %s)" % g.coq, LIST(Z))
                fail(n, ".nodes() of %r" % (g.type,))
            if m == "out_degree" and plain_call(n, 0):
                g = expr(f.value, env)
                if g.type == GRAPH:
                    return val("(nx_out_degree %s)" % g.coq, LIST(TUP(Z, Z)))
                fail(n, ".out_degree() of %r" % (g.type,))
            if m == "copy" and plain_call(n, 0):
                g = expr(f.value, env)
                if g.type == GRAPH:
                    return val("(nx_copy %s)" % g.coq, GRAPH)
                fail(n, ".copy() of %r" % (g.type,))
            if m == "out_edges" and plain_call(n, 1):
                g, x = expr(f.value, env), expr(n.args[0], env)
                if g.type == GRAPH and x.type == Z:
                    return val("(nx_out_edges %s %s)" % (g.coq, x.coq), EDGES)
                fail(n, ".out_edges of %r, %r" % (g.type, x.type))
        fail(n, "call")
    fail(n, "expression")


# ---------------------------------------------------------------- statements
def mutate(node, env, name, newcoq, lines, from_view=None):
    """the object bound to `name` is modified in place; `newcoq` is its new value"""
    v = env.lookup(node, name)
    others = [m for m in env.live_names() if m != name and env.vars[m]["obj"] is not None and env.vars[m]["obj"] == v["obj"]]
    if others:
        fail(node, "in-place modification of an object also reachable as %s" % ", ".join(others))
    if v["obj"] in env.ctx.param_objs:
        if env.ctx.param_objs[v["obj"]] != name:
            fail(node, "in-place modification of parameter %s under another name" % env.ctx.param_objs[v["obj"]])
        if name not in env.ctx.mutated:
            env.ctx.mutated.append(name)
    lines.append("let %s := %s in" % (cn(name), newcoq))
    v["ver"] = env.ctx.fresh()
    for w, vw in list(env.views.items()):
        if vw["base"] == name and w != from_view:
            env.poison[w] = "it is a view of %s, which was modified in place" % name
            del env.views[w]
    if name in env.views:
        vw = env.views[name]
        if vw["stale"]:
            fail(node, "in-place modification of a view whose base or index was rebound")
        mutate(node, env, vw["base"], "(np_setitem %s %s %s)" % (cn(vw["base"]), vw["idx"], cn(name)), lines, from_view=name)


def assign_name(node, env, name, v, lines):
    lines.append("let %s := %s in" % (cn(name), v.coq))
    env.bind(node, name, v.type, v.obj, v.shape_of)
    if v.view is not None:
        base, idx, idxvars = v.view
        env.views[name] = {"base": base, "idx": idx, "idxvars": set(idxvars), "stale": False}


def masked_target(t, env):
    """F[M] with F a name of type arr1 and M a mask -> (F, mask coq) ; A[i][M] -> (A, i coq, mask coq)"""
    if not isinstance(t, ast.Subscript):
        return None
    if is_name(t.value):
        f = expr(t.value, env)
        if is_arr(f.type, 1):
            m = expr(t.slice, env)
            if m.type == MASK:
                return ("frame", t.value.id, None, m.coq)
        return None
    if isinstance(t.value, ast.Subscript) and is_name(t.value.value):
        a = expr(t.value.value, env)
        if is_arr(a.type, 2):
            i, m = expr(t.value.slice, env), expr(t.slice, env)
            if i.type == Z and m.type == MASK:
                return ("row", t.value.value.id, i.coq, m.coq)
    return None


def tuple_of(names):
    return cn(names[0]) if len(names) == 1 else "(%s)" % ", ".join(cn(x) for x in names)


def let_pat(names):
    return cn(names[0]) if len(names) == 1 else "'(%s)" % ", ".join(cn(x) for x in names)


def changed_names(node, before, afters):
    """variables of `before` rebound / modified / poisoned in one of the environments `afters`"""
    out = []
    for nme in before.order:
        if nme not in before.vars or nme in before.poison:
            continue
        for a in afters:
            if nme in a.poison:
                fail(node, "variable %s becomes unusable inside the block (%s)" % (nme, a.poison[nme]))
            if a.vars[nme]["ver"] != before.vars[nme]["ver"]:
                out.append(nme)
                break
    return out


def join(node, env, afters, carried, what):
    """checks shared by loops and conditionals; installs the carried variables in env"""
    for w, vw in env.views.items():
        if not vw["stale"] and (w in carried or vw["base"] in carried or vw["idxvars"] & set(carried)):
            fail(node, "a view (%s of %s) is live across a %s that changes it" % (w, vw["base"], what))
    for a in afters:
        for c in carried:
            va = a.vars[c]
            if not same_type(va["type"], env.vars[c]["type"]):
                fail(node, "variable %s changes type in the %s (%r -> %r)" % (c, what, env.vars[c]["type"], va["type"]))
            if c in a.views and not a.views[c]["stale"]:
                fail(node, "variable %s leaves the %s as a view" % (c, what))
            if va["obj"] is not None:
                al = [m for m in a.live_names() if m != c and a.vars[m]["obj"] == va["obj"]]
                if al:
                    fail(node, "variable %s leaves the %s aliased with %s" % (c, what, ", ".join(al)))
    for c in carried:
        objs = {a.vars[c]["obj"] for a in afters}
        keep = objs == {env.vars[c]["obj"]}
        so = {a.vars[c]["shape_of"] for a in afters}
        env.vars[c]["ver"] = env.ctx.fresh()
        if not keep and mutable(env.vars[c]["type"]):
            env.vars[c]["obj"] = env.ctx.fresh()
        env.vars[c]["shape_of"] = so.pop() if len(so) == 1 else None
        for vw in env.views.values():
            if vw["base"] == c or c in vw["idxvars"]:
                vw["stale"] = True


def indent(lines, k=2):
    return [" " * k + ln for ln in lines]


def stmt(s, env, lines):
    # docstring
    if isinstance(s, ast.Expr) and isinstance(s.value, ast.Constant) and isinstance(s.value.value, str):
        return
    # x: T = e   (the annotation is skipped)
    if isinstance(s, ast.AnnAssign) and s.value is not None and s.simple and is_name(s.target):
        assign_name(s, env, s.target.id, expr(s.value, env), lines)
        return
    # x = e  /  target[..] = e
    if isinstance(s, ast.Assign) and len(s.targets) == 1:
        t = s.targets[0]
        if is_name(t):
            assign_name(s, env, t.id, expr(s.value, env), lines)
            return
        mt = masked_target(t, env)
        if mt is not None:
            v = expr(s.value, env)
            if v.type != Z:
                fail(s, "masked assignment of %r" % (v.type,))
            kind, a, i, m = mt
            if kind == "frame":
                mutate(s, env, a, "(np_mask_assign %s %s %s)" % (cn(a), m, v.coq), lines)
            else:
                mutate(s, env, a, "(np_setitem %s %s (np_mask_assign (np_getitem %s %s) %s %s))" % (cn(a), i, cn(a), i, m, v.coq), lines)
            return
        if isinstance(t, ast.Subscript) and is_name(t.value):
            a, i, v = expr(t.value, env), expr(t.slice, env), expr(s.value, env)
            if is_arr(a.type) and a.type[1] >= 2 and i.type == Z and is_arr(v.type, a.type[1] - 1):
                mutate(s, env, t.value.id, "(np_setitem %s %s %s)" % (a.coq, i.coq, v.coq), lines)
                return
        fail(s, "assignment")
    if isinstance(s, ast.AugAssign) and isinstance(s.op, ast.Add):
        t = s.target
        if is_name(t):
            a, b = expr(t, env), expr(s.value, env)
            if a.type == Z and b.type == Z:
                assign_name(s, env, t.id, val("(%s + %s)" % (a.coq, b.coq), Z), lines)
                return
            fail(s, "+= on %r" % (a.type,))
        mt = masked_target(t, env)
        if mt is not None and mt[0] == "frame":
            v = expr(s.value, env)
            if v.type != Z:
                fail(s, "masked += of %r" % (v.type,))
            mutate(s, env, mt[1], "(np_mask_iadd %s %s %s)" % (cn(mt[1]), mt[3], v.coq), lines)
            return
        fail(s, "augmented assignment")
    # method / function call statements
    if isinstance(s, ast.Expr) and isinstance(s.value, ast.Call):
        c = s.value
        f = c.func
        if isinstance(f, ast.Attribute) and f.attr == "remove_edges_from" and is_name(f.value) and plain_call(c, 1):
            g, e = expr(f.value, env), expr(c.args[0], env)
            if g.type == GRAPH and e.type == EDGES:
                mutate(s, env, f.value.id, "(nx_remove_edges_from %s %s)" % (g.coq, e.coq), lines)
                return
        if is_mod_attr(f, "nx", "relabel_nodes") and plain_call(c, 2, ("copy",)) and is_name(c.args[0]) \
                and isinstance(c.keywords[0].value, ast.Constant) and c.keywords[0].value.value is False:
            g, m = expr(c.args[0], env), expr(c.args[1], env)
            if g.type == NODES and m.type == DICT:
                mutate(s, env, c.args[0].id, "(nx_relabel_nodes %s %s)" % (g.coq, m.coq), lines)
                return
        fail(s, "call statement")
    if isinstance(s, ast.For):
        if s.orelse:
            fail(s, "for .. else")
        it = expr(s.iter, env)
        pat, binds = pattern(s.target, elem_type_of(s.iter, it.type), env)
        body_env = sub_env(s, env, binds)
        body = []
        block(s.body, body_env, body)
        carried = changed_names(s, env, [body_env])
        if not carried:
            fail(s, "loop without effect on the variables in scope")
        eager = isinstance(s.iter, ast.Call) and (is_name(s.iter.func, "range") or is_mod_attr(s.iter.func, "np", "unique"))
        if not eager and names_in(s.iter) & set(carried):     # generators / views / lists are consumed lazily
            fail(s, "the loop body changes a variable the iterable is computed from (%s)" % ", ".join(sorted(names_in(s.iter) & set(carried))))
        join(s, env, [body_env], carried, "loop")
        lines.append("let %s := py_for %s %s (fun %s %s =>" % (let_pat(carried), it.coq, tuple_of(carried), pat, let_pat(carried)))
        lines.extend(indent(body, 4))
        lines.append("    %s) in" % tuple_of(carried))
        return
    if isinstance(s, ast.If):
        if is_name(s.test) and s.test.id in env.static:
            block(s.body if env.static[s.test.id] else s.orelse, env, lines)
            return
        c = cond(s.test, env)
        e1, e2 = env.copy(), env.copy()
        b1, b2 = [], []
        block(s.body, e1, b1)
        block(s.orelse, e2, b2)
        merged = changed_names(s, env, [e1, e2])
        if not merged:
            fail(s, "conditional without effect on the variables in scope")
        join(s, env, [e1, e2], merged, "conditional")
        lines.append("let %s :=" % let_pat(merged))
        lines.append("  if %s then" % c)
        lines.extend(indent(b1, 4))
        lines.append("    %s" % tuple_of(merged))
        lines.append("  else")
        lines.extend(indent(b2, 4))
        lines.append("    %s in" % tuple_of(merged))
        return
    fail(s, "statement")


def block(stmts, env, lines):
    for s in stmts:
        stmt(s, env, lines)


# ---------------------------------------------------------------- functions
def check_signature(fn, params, defaults):
    a = fn.args
    if fn.decorator_list or a.posonlyargs or a.kwonlyargs or a.vararg or a.kwarg or isinstance(fn, ast.AsyncFunctionDef):
        fail(fn, "function header")
    if [x.arg for x in a.args] != [p for p, _ in params]:
        fail(fn, "parameter list of %s changed (expected %s)" % (fn.name, [p for p, _ in params]))
    got = {}
    for x, d in zip(a.args[len(a.args) - len(a.defaults):], a.defaults):
        if not isinstance(d, ast.Constant):
            fail(fn, "default value")
        got[x.arg] = d.value
    if got != defaults:
        fail(fn, "default values of %s changed (expected %s)" % (fn.name, defaults))


def function(fn, gen_name, params, defaults, comment):
    """params: [(python name, type | True | False)]  (a python bool = parameter specialised to that value)"""
    check_signature(fn, params, defaults)
    ctx = Ctx()
    env = Env(ctx)
    sig = []
    for p, t in params:
        if isinstance(t, bool):
            env.static[p] = t
            continue
        env.bind(fn, p, t, None)
        if env.vars[p]["obj"] is not None:
            ctx.param_objs[env.vars[p]["obj"]] = p
        sig.append("(%s : %s)" % (cn(p), coq_type(t)))
    body = list(fn.body)
    while body and isinstance(body[0], ast.Expr) and isinstance(body[0].value, ast.Constant) and isinstance(body[0].value.value, str):
        body.pop(0)
    if not body or not isinstance(body[-1], ast.Return) or body[-1].value is None:
        fail(fn, "the last statement must be `return <expression>`")
    for s in ast.walk(ast.Module(body=body[:-1], type_ignores=[])):
        if isinstance(s, (ast.Return, ast.Break, ast.Continue, ast.Yield, ast.YieldFrom)):
            fail(s, "return / break / continue / yield inside the body")
    lines = []
    block(body[:-1], env, lines)
    r = expr(body[-1].value, env)
    res, rt = r.coq, coq_type(r.type)
    for p in ctx.mutated:
        v = env.lookup(fn, p)
        if v["obj"] not in ctx.param_objs or ctx.param_objs[v["obj"]] != p:
            fail(fn, "parameter %s was modified in place and then rebound" % p)
        res += ", " + cn(p)
        rt += " * " + coq_type(v["type"])
    if ctx.mutated:
        res = "(" + res + ")"
    out = ["(* %s *)" % comment,
           "Definition %s %s : %s :=" % (gen_name, " ".join(sig), rt)]
    out.extend(indent(lines))
    out.append("  %s." % res)
    return "\n".join(out) + "\n"


# ---------------------------------------------------------------- modules
def parse(path, rel):
    CURFILE[0] = rel
    src = open(path).read()
    return src, ast.parse(src), hashlib.sha256(src.encode()).hexdigest()[:16]


def module_items(tree, imports, translate, skip):
    """checks the top level of a module: docstring, exactly the expected imports, functions of the two tables"""
    fns, seen_imports = {}, []
    body = list(tree.body)
    if body and isinstance(body[0], ast.Expr) and isinstance(body[0].value, ast.Constant) and isinstance(body[0].value.value, str):
        body.pop(0)
    for n in body:
        if isinstance(n, (ast.Import, ast.ImportFrom)):
            seen_imports.append(ast.unparse(n))
        elif isinstance(n, ast.If) and is_name(n.test, "TYPE_CHECKING") and not n.orelse \
                and all(isinstance(x, (ast.Import, ast.ImportFrom)) for x in n.body):
            seen_imports.extend("TYPE_CHECKING: " + ast.unparse(x) for x in n.body)     # annotations only
        elif isinstance(n, ast.FunctionDef):
            if n.name in fns:
                fail(n, "function defined twice")
            if n.name in translate:
                fns[n.name] = n
            elif n.name not in skip:
                fail(n, "function %s is in neither table of the translator" % n.name)
        else:
            fail(n, "top-level statement")
    if sorted(seen_imports) != sorted(imports):
        raise Unsupported("%s: imports changed: %s (expected %s)" % (CURFILE[0], sorted(seen_imports), sorted(imports)))
    for f in translate:
        if f not in fns:
            raise Unsupported("%s: function %s not found" % (CURFILE[0], f))
    return fns


def check_node_attr(root):
    """NodeAttr.TIME.value == "time", NodeAttr.SEG_ID.value == "seg_id" (the keys the harness uses)"""
    path = os.path.join(root, REL_ATTRS)
    CURFILE[0] = REL_ATTRS
    tree = ast.parse(open(path).read())
    cls = [n for n in tree.body if isinstance(n, ast.ClassDef) and n.name == "NodeAttr"]
    if len(cls) != 1:
        raise Unsupported("%s: class NodeAttr not found" % REL_ATTRS)
    got = {}
    for s in cls[0].body:
        if isinstance(s, ast.Assign) and len(s.targets) == 1 and is_name(s.targets[0]) and isinstance(s.value, ast.Constant):
            got[s.targets[0].id] = s.value.value
    if got.get("TIME") != "time" or got.get("SEG_ID") != "seg_id":
        raise Unsupported("%s: NodeAttr.TIME / SEG_ID are no longer \"time\" / \"seg_id\": %r" % (REL_ATTRS, got))


HEADER = """(* GENERATED by harness/translate_numpy_utils.py from %s  sha256=%s -- do not edit.
   Shallow embedding over the data representation of %s; the idiom table is at the
   top of the translator, the combinators in Model/NpRt.v; tied to the hand model in %s. *)
From Coq Require Import ZArith List Bool.
From FT Require Import Model.NpRt.
Import ListNotations.
Open Scope Z_scope.

"""

IMPORTS_LABELS = ["import networkx as nx", "import numpy as np",
                  "from funtracks.data_model.graph_attributes import NodeAttr"]
IMPORTS_RELABEL = ["from __future__ import annotations", "from pathlib import Path", "from typing import TYPE_CHECKING",
                   "import dask.array as da", "import networkx as nx", "import numpy as np",
                   "from funtracks.import_export.magic_imread import magic_imread",
                   "TYPE_CHECKING: from numpy.typing import ArrayLike"]

BYTRACK_SECTION = """(* the networkx operations on the solution graph: nothing is assumed about them.
   nx_weakly_connected_components is the component oracle. *)
Section ByTrack.
Variables Graph Edges : Type.
Variable nx_out_degree : Graph -> list (Z * Z).                      (* G.out_degree(): (node, out-degree) pairs *)
Variable nx_copy : Graph -> Graph.                                   (* G.copy() *)
Variable nx_out_edges : Graph -> Z -> Edges.                         (* G.out_edges(n) *)
Variable nx_remove_edges_from : Graph -> Edges -> Graph.             (* G.remove_edges_from(E), as a new value *)
Variable nx_weakly_connected_components : Graph -> list (list Z).    (* nx.weakly_connected_components(G), order included *)
Variable nx_node_attr : Graph -> Z -> node_attr -> Z.                (* G.nodes[n][key] *)

"""


def main_labels(src=None):
    root = repo_root()
    path = src or os.path.join(root, REL_LABELS)
    check_node_attr(root)      # always from VERIF_REPO
    text, tree, sha = parse(path, REL_LABELS)
    fns = module_items(tree, IMPORTS_LABELS, ["relabel_segmentation_with_track_id", "ensure_unique_labels"], [])
    out = [HEADER % (REL_LABELS, sha, "Model/LabelUtils.v", "Proofs/LabelUtilsTie.v"), BYTRACK_SECTION]
    out.append(function(fns["relabel_segmentation_with_track_id"], "gen_relabel_segmentation_with_track_id",
                        [("solution_nx_graph", GRAPH), ("segmentation", ARR(2))], {},
                        "relabel_segmentation_with_track_id(solution_nx_graph, segmentation)"))
    out.append("End ByTrack.\n\n")
    out.append(function(fns["ensure_unique_labels"], "gen_ensure_unique_labels",
                        [("segmentation", ARR(2)), ("multiseg", False)], {"multiseg": False},
                        "ensure_unique_labels(segmentation, multiseg=False)"))
    out.append("\n")
    out.append(function(fns["ensure_unique_labels"], "gen_ensure_unique_labels_multiseg",
                        [("segmentation", ARR(3)), ("multiseg", True)], {"multiseg": False},
                        "ensure_unique_labels(segmentation, multiseg=True)"))
    return "".join(out)


def main_relabel(src=None):
    path = src or os.path.join(repo_root(), REL_RELABEL)
    text, tree, sha = parse(path, REL_RELABEL)
    fns = module_items(tree, IMPORTS_RELABEL, ["relabel_segmentation"], ["read_dims", "load_segmentation"])
    out = [HEADER % (REL_RELABEL, sha, "Model/Relabel.v", "Proofs/RelabelTie.v")]
    out.append(function(fns["relabel_segmentation"], "gen_relabel_segmentation",
                        [("seg_array", ARR(2)), ("graph", NODES), ("node_ids", ARR(1)), ("seg_ids", ARR(1)), ("time_values", ARR(1))], {},
                        "relabel_segmentation(seg_array, graph, node_ids, seg_ids, time_values); returns (result, graph)"))
    return "".join(out)


def _regenerate(mainf, src, out):
    try:
        txt = mainf(src)
        ok, msg = True, "translated"
    except Unsupported as e:
        txt = "(* TRANSLATION FAILED: %s *)\nDefinition translation_failed : False := I.\n" % str(e).replace("*)", "* )").replace("(*", "( *")
        ok, msg = False, str(e)
    except Exception as e:       # a bug of the translator must not look like a translation
        m = "%s: %s" % (type(e).__name__, e)
        txt = "(* TRANSLATION FAILED: %s *)\nDefinition translation_failed : False := I.\n" % m.replace("*)", "* )").replace("(*", "( *")
        ok, msg = False, m
    os.makedirs(os.path.dirname(out), exist_ok=True)
    old = open(out).read() if os.path.exists(out) else None
    # the source hash does not count when deciding whether the content changed (keeps the .vo fresh)
    strip = lambda t: "\n".join(l for l in t.split("\n") if "sha256=" not in l)
    if old is None or strip(old) != strip(txt):
        open(out, "w").write(txt)
    return ok, msg


def regenerate_labels(src=None, out=None):
    """(re)write Gen/LabelUtils_gen.v from the current source; returns (ok, message).
    A source outside the idiom table yields a file that does not type-check (fail closed)."""
    return _regenerate(main_labels, src, out or OUT_LABELS)


def regenerate_relabel(src=None, out=None):
    """(re)write Gen/Relabel_gen.v from the current source; returns (ok, message)."""
    return _regenerate(main_relabel, src, out or OUT_RELABEL)


if __name__ == "__main__":
    if len(sys.argv) > 1 and sys.argv[1] == "--stdout":
        sys.stdout.write(main_labels())
        sys.stdout.write(main_relabel())
    else:
        # optional: <labels out> <relabel out>
        r1 = regenerate_labels(out=sys.argv[1] if len(sys.argv) > 1 else None)
        r2 = regenerate_relabel(out=sys.argv[2] if len(sys.argv) > 2 else None)
        print(r1)
        print(r2)
        sys.exit(0 if (r1[0] and r2[0]) else 1)
