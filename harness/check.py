"""Entry point of every check:  check.py Cxx [--tier quick|thorough] [--replay FILE]

Order of work (DESIGN.md section 4.4):
  1. textual gate over the Coq development; full .vo build of the property's closure;
     Props/Cxx.v recompiled and its Print Assumptions output captured;
  2. the witness corpus of the property (minimised inputs of repaired defects) on the
     implementation;
  3. the property module's run(): correspondence of the executable Coq model (extracted)
     with the implementation on generated inputs + the property's direct oracle on the
     implementation's outputs;
  4. verdict: a failing input => VIOLATION with replay (or KNOWN-FINDING if its
     signature is listed); a broken obligation / diverging correspondence without a
     failing input => VIOLATION ... no-failing-input-found; else exit 0.
Evidence is rewritten on every run.
"""
from __future__ import annotations

import argparse
import importlib
import json
import os
import random
import sys
import time
import traceback
import warnings

warnings.simplefilter("ignore")
sys.path.insert(0, os.path.dirname(os.path.abspath(__file__)))
import common as C  # noqa: E402


class Ctx:
    def __init__(self, pid, tier, seed):
        self.pid, self.tier, self.seed = pid, tier, seed
        self.rng = random.Random((seed, pid).__repr__())
        self.driver = None
        self.proof_ok = True
        self.notes = []
        self.escalated = []  # anchored source files whose AST differs from source_fingerprints.json

    def quick(self):
        # a quick check of a property whose anchored sources changed spends the thorough budget
        return self.tier == "quick" and not self.escalated


def run_witnesses(pid):
    import witnesses

    return witnesses.run(prop=pid)


def main():
    ap = argparse.ArgumentParser()
    ap.add_argument("pid")
    ap.add_argument("--tier", default=None)
    ap.add_argument("--replay", default=None)
    a = ap.parse_args()
    pid = a.pid.upper()
    tier, seed = C.tier(a.tier), C.seed()
    t0 = time.time()
    mod = importlib.import_module("props.%s" % pid.lower())
    meta = mod.META
    ctx = Ctx(pid, tier, seed)

    if a.replay:
        payload = json.loads(open(a.replay).read())
        out = mod.replay(ctx, payload) if hasattr(mod, "replay") else {"error": "no replay function"}
        print(json.dumps(out, indent=1, default=str))
        sys.exit(1 if out.get("violation") else 0)

    try:
        import fingerprint

        ctx.escalated = fingerprint.changed(pid) if tier == "quick" else []
    except Exception as e:  # noqa: BLE001
        ctx.notes.append("fingerprint comparison failed: %s" % e)
    if ctx.escalated:
        ctx.notes.append("anchored sources differ from source_fingerprints.json (%s): the quick tier ran with the thorough tier's case counts"
                         % ", ".join(ctx.escalated))

    broken = []  # proof obligations / machinery that no longer check
    # ---- 1. proof side
    gate = C.coq_gate()
    if gate:
        broken.append({"kind": "gate", "detail": gate[:10]})
    # re-translate every source file whose generated definitions this property's theorems depend on
    try:
        import regen_closure

        for gname, ok_, msg_ in regen_closure.run_for(pid):
            if not ok_:
                broken.append({"kind": "translator", "detail": "Gen/%s.v: the translator refused the current source: %s" % (gname, msg_)})
    except Exception as e:  # noqa: BLE001
        broken.append({"kind": "translator", "detail": "%s: %s" % (type(e).__name__, e)})
    if hasattr(mod, "pre_build") and not any(b["kind"] == "translator" for b in broken):
        try:
            mod.pre_build(ctx)
        except Exception as e:  # noqa: BLE001
            broken.append({"kind": "translator", "detail": "%s: %s" % (type(e).__name__, e)})
    targets = meta.get("coq_targets", ["Props/%s.vo" % pid])
    ok, log = C.coq_make(targets)
    if not ok:
        broken.append({"kind": "coq-build", "detail": log[-2500:]})
    rep = C.props_report(pid)
    if not rep["ok"]:
        broken.append({"kind": "theorem", "detail": rep["log"][-2500:]})
    for th in rep["theorems"]:
        if th["assumptions"].startswith("Axioms:"):
            allowed = meta.get("allowed_axioms", [])
            names = [l.split(":")[0].strip() for l in th["assumptions"].split("\n")[1:] if l and not l.startswith(" ") and ":" in l]
            extra = [n for n in names if n not in allowed]
            if extra:
                broken.append({"kind": "axioms", "detail": "%s depends on %s" % (th["theorem"], extra)})
    ctx.proof_ok = not broken
    if meta.get("driver", True):
        exe, err = C.build_driver(meta.get("driver_id", pid))
        if exe is None:
            broken.append({"kind": "extraction", "detail": err[-1500:]})
        ctx.driver = exe

    # ---- 2. witnesses (implementation only)
    violations = []
    wres = []
    try:
        wres = run_witnesses(pid)
    except Exception as e:  # noqa: BLE001
        broken.append({"kind": "witness-runner", "detail": "%s: %s" % (type(e).__name__, e)})
    for fid, props, okw, detail in wres:
        if not okw:
            violations.append({"what": "witness %s: %s" % (fid, detail), "input": {"witness": fid, "file": "harness/witnesses.py"},
                               "signature": fid})

    # ---- 3. correspondence + oracle
    res = {"evaluations": 0, "distinct_nontrivial": 0, "rule": "", "samples": [], "divergences": [], "violations": [], "stats": {}}
    if ctx.driver is not None or not meta.get("driver", True):
        try:
            res = mod.run(ctx)
        except Exception as e:  # noqa: BLE001
            broken.append({"kind": "harness", "detail": "%s: %s\n%s" % (type(e).__name__, e, traceback.format_exc()[-1500:])})
    violations += res.get("violations", [])
    divergences = res.get("divergences", [])

    # ---- 4. failing-input search when something no longer checks but no input fails yet
    if (broken or divergences) and not violations and hasattr(mod, "search"):
        try:
            sr = mod.search(ctx)
            violations += sr.get("violations", [])
            res["stats"]["search"] = sr.get("stats", {})
        except Exception as e:  # noqa: BLE001
            ctx.notes.append("search failed: %s" % e)

    known = [k for k in C.known_findings() if k.get("status") == "known" and k.get("property") == pid]
    known_sigs = {k.get("signature"): k for k in known}
    rc = 0
    lines = []
    reported = 0
    seen_known = set()
    for v in violations:
        sig = v.get("signature")
        if sig in known_sigs:
            if sig not in seen_known:
                lines.append("KNOWN-FINDING: property=%s %s" % (pid, known_sigs[sig].get("what", sig)))
                seen_known.add(sig)
            continue
        if reported < 5:
            path = C.write_replay(pid, {"property": pid, "kind": "failing-input", "what": v.get("what"), "input": v.get("input"),
                                        "impl": v.get("impl"), "model": v.get("model"), "seed": seed, "tier": tier,
                                        "replay_cmd": "./check %s --replay <this file>" % pid})
            lines.append("VIOLATION property=%s replay=%s" % (pid, path))
        reported += 1
        rc = 1
    if rc == 0 and (broken or divergences):
        path = C.write_replay(pid, {"property": pid, "kind": "obligation-or-correspondence-broken",
                                    "broken": broken, "first_divergences": divergences[:3], "seed": seed, "tier": tier,
                                    "note": "no failing input was found by the search; the property is no longer shown to hold"})
        lines.append("VIOLATION property=%s replay=%s no-failing-input-found" % (pid, path))
        rc = 1

    wall = time.time() - t0
    tb = ["Coq 8.16.1 kernel (coqc, full .vo build; no native_compute; vm_compute only in Examples)",
          "extraction: ExtrOcamlBasic only (bool/option/list/prod/unit/sumbool to OCaml natives); Z, positive, nat stay extracted inductives; no Extract Constant / Extract Inductive of our own",
          "OCaml driver coq/Extract/drv_%s.ml (parsing/printing)" % meta.get("driver_id", pid),
          "Python harness: generators, canonicalisation, oracles (harness/props/%s.py)" % pid.lower()]
    tb += ["Print Assumptions %s: %s" % (t["theorem"], t["assumptions"].replace("\n", " ")) for t in rep["theorems"]]
    tb += meta.get("trusted", [])
    coverage = {
        "obligations": len(rep["statements"]), "discharged": len(rep["discharged"]),
        "checker_cmd": "cd /verif/coq && make %s && coqc -Q . FT Props/%s.v   (driven by: ./check %s)" % (" ".join(targets), pid, pid),
        "trusted_base": tb,
        "theorems": rep["theorems"], "coq_files": rep["files"],
        "evaluations": res.get("evaluations", 0), "distinct_nontrivial": res.get("distinct_nontrivial", 0),
        "rule": res.get("rule", ""), "samples": res.get("samples", [])[:5],
        "traces_validated_against_impl": res.get("evaluations", 0),
        "divergences": len(divergences), "witnesses": [{"id": w[0], "ok": w[2]} for w in wres],
        "stats": res.get("stats", {}), "broken": broken, "notes": ctx.notes,
        "explanation": meta.get("level_text", ""),
    }
    C.write_evidence(pid, tier, seed, coverage, meta.get("assumptions", []) + res.get("assumptions", []), wall, reported)
    for l in lines:
        print(l)
    print("%s %s tier=%s seed=%d: obligations %d/%d, correspondence %d cases (%d non-trivial), %d divergences, %d violations, %.1fs"
          % ("PASS" if rc == 0 else "FAIL", pid, tier, seed, len(rep["discharged"]), len(rep["statements"]),
             res.get("evaluations", 0), res.get("distinct_nontrivial", 0), len(divergences), reported, wall))
    sys.exit(rc)


if __name__ == "__main__":
    main()
