"""Correspondence of the constructor (Model/EditCtor.v : construct_any) with SolutionTracks.__init__.

A raw solution (graph in insertion order, label array, attributes exactly as the caller supplies them - with or
without track ids, lineage ids, positions and areas of their own) is described to the model driver; the driver
runs construct_any on it (scan of the supplied ids, then one round per core feature: activated when the first
node carries it, computed otherwise) and prints the constructed state, which is compared field by field with the
state of the freshly constructed implementation object (graph attributes, lookups, maxima, registry, flags).
"""
from __future__ import annotations

import networkx as nx
import numpy as np

KTIME, KPOS, KTRACK, KLIN, KAREA = 0, 1, 2, 3, 4


def oracle_comps(g):
    """the answers of the networkx component oracle, computed the way the track annotator will"""
    cp = g.copy()
    for p_ in [n for n, d in g.out_degree() if d >= 2]:
        for d_ in list(g.successors(p_)):
            cp.remove_edge(p_, d_)
    ctrk = [list(c) for c in nx.weakly_connected_components(cp)]
    clin = [list(c) for c in nx.weakly_connected_components(g)]
    return ctrk, clin


def choose_supply(rng, cfg):
    """which managed features the caller's graph already carries, and how"""
    if cfg.get("zero_ids"):
        return {"track": "shift0", "lineage": "shift0", "pos": False, "area": False, "dict": False}
    mode = lambda: rng.choice([None, None, None, "spread", "shift0", "stale-not-on-first"])
    s = {"track": mode(), "lineage": mode(), "pos": False, "area": False}
    if cfg["seg"]:
        s["pos"] = rng.random() < 0.2
        s["area"] = rng.random() < 0.2
    # a prepared FeatureDict (features=...): everything registered is on the graph already (a reloaded solution)
    s["dict"] = rng.random() < 0.15
    return s


def supply(cfg, g, ref, sup):
    """copy of the raw graph g with the supplied features written on it; ref = tracks computed from the same data"""
    g2 = g.copy()
    order = list(g2.nodes)
    for key, get in (("track", ref.get_track_id), ("lineage", ref.get_lineage_id)):
        attr = "track_id" if key == "track" else "lineage_id"
        m = sup[key]
        if m is None or not order:
            continue
        if m == "stale-not-on-first":
            for n in order[1:]:
                g2.nodes[n][attr] = 99      # ignored: the first node lacks the key, so the ids are computed
            continue
        for n in order:
            i = int(get(n))
            g2.nodes[n][attr] = i - 1 if m == "shift0" else 3 * i + 2
    for key in ("pos", "area"):
        if sup[key]:
            for n in order:
                g2.nodes[n][key] = ref.graph.nodes[n][key]
    return g2


def supply_all(cfg, g, ref, sup):
    """the graph of a reloaded solution: every registered feature of ref is on every node, ids possibly renumbered"""
    g2 = g.copy()
    for n in g2.nodes:
        for k, v in ref.graph.nodes[n].items():
            g2.nodes[n][k] = v
        for key, attr in (("track", "track_id"), ("lineage", "lineage_id")):
            i = int(ref.graph.nodes[n][attr])
            g2.nodes[n][attr] = i - 1 if sup[key] == "shift0" else (3 * i + 2 if sup[key] == "spread" else i)
    for u, v in g2.edges:
        for k, val in ref.graph.edges[u, v].items():
            g2.edges[u, v][k] = val
    return g2


def raw_lines(E, cfg, g2, seg, pos_keys, fdict=None):
    """S / F / SEG / N / E / M lines of the raw solution (E = the editmachine module, for its token helpers)"""
    KEY = E.KEY
    j = lambda l: ",".join(map(str, l)) if l else "-"
    with_seg = bool(cfg["seg"])
    posk = [KEY[k] for k in pos_keys]
    regn = [KTIME] if with_seg else [KTIME] + posk
    rpall = [KEY[k] for k in E.RP_KEYS] if with_seg else []
    rege = []
    if fdict is not None:     # the caller's registry
        regn = [KEY[k] for k in fdict.node_features]
        rege = [KEY[k] for k in fdict.edge_features]
    L = ["S", "F %s %s %s %s - %d 0 0 0" % (j(regn), j(rege), j([KPOS] if with_seg else posk), j(rpall), int(with_seg))]
    if with_seg:
        sg = np.asarray(seg)
        L.append("SEG " + ";".join(",".join(str(int(x)) for x in fr.reshape(-1)) for fr in sg))
    else:
        L.append("SEG none")
    for n in g2.nodes:
        toks = []
        for k, v in g2.nodes[n].items():
            if v is None:
                toks.append("%d=n" % KEY[k])
            elif k in E.RP_KEYS and with_seg:
                m = np.nonzero(sg[g2.nodes[n]["time"]].reshape(-1) == n)[0]
                toks.append("%d=r%s" % (KEY[k], ".".join(map(str, m.tolist()))))
            else:
                toks.append("%d=%s" % (KEY[k], E.vtxt(E.canon_value(cfg, k, v))))
        L.append("N %d %s" % (n, " ".join(toks)))
    for u, v in g2.edges:
        toks = ["%d=t%d" % (KEY[k], int(val)) for k, val in g2.edges[u, v].items() if val is not None]
        L.append(("E %d %d %s" % (u, v, " ".join(toks))).rstrip())
    L.append("M 0 0 1")
    if fdict is not None:
        L.append("CD")
        return L
    ctrk, clin = oracle_comps(g2)
    L.append("C %s %s" % (E.comps_txt(ctrk), E.comps_txt(clin)))
    return L
