import sys
sys.path.insert(0,'/verif/harness')
import common as C, edit_engine as G, editmachine as E, collections
n=int(sys.argv[1]); seed=int(sys.argv[2]); tg=float(sys.argv[3])
exe,_=C.build_driver('Edit')
scns=[s for s in G.run_shard(seed,n,seg_p=0.7,toggles=tg)]
errs=[s for s in scns if 'error' in s]; scns=[s for s in scns if 'error' not in s]
for e in errs[:3]: print("ERR",e['error'][-600:])
lines=[]; 
for s in scns: lines+=s['lines']
rc,out=C.run_driver(exe,lines); mos=E.split_model_output(out)
bad=0; allv=collections.Counter(); kinds=collections.Counter()
for s,mo in zip(scns,mos):
    nst,d=E.compare(s,mo)
    for k,o in zip(s['kinds'],s['obs']): kinds[(k,o['ret'])]+=1
    if d:
        bad+=1
        if bad<=3: print("DIVERGE",s['index'],s['cfg'],"\n",d['fields'],d.get('op'),"\n impl",d.get('impl'),"\n model",d.get('model'),"\n ops",G.ops_of(s)[:d['step']])
    for prop,what,line,_ in s['violations']:
        allv[prop]+=1
        if allv[prop]<=2: print(prop,"|",what[:300],"| ops",G.ops_of(s)[:14])
print("scen",len(scns),"div",bad,"viol",dict(allv),"unparsed",[l for l in out if l.startswith('?')][:3])
print(sorted((k,v) for k,v in kinds.items() if k[0] in('enable','disable','update_attrs_protected')))
