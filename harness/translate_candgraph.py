"""Fail-closed translator for the candidate-graph modules

    src/funtracks/candidate_graph/utils.py          (5 functions)
    src/funtracks/candidate_graph/iou.py            (3 functions)     ->  coq/Gen/CandGraph_gen.v
    src/funtracks/candidate_graph/compute_graph.py  (2 functions)

One Gallina definition `gen_<f>` per Python function (a shallow embedding in the exception / control
monad of coq/Model/PyRt5.v) over the data representation of the hand model Model/CandGraph.v.
Proofs/CandGraphTie.v proves every generated definition equal to the hand-written model function, so
a change of the Python changes the generated text and un-hooks the tie.

Anything not listed below raises `Unsupported(<file>:<line>: ...)`; nothing is guessed.  TRUSTED: this
table, the signature table SIGS, the emitter below and the combinators of Model/PyRt5.v (+ the five it
re-uses from Model/NpRt.v and Base/Dict.v's lookup / set / keys / haskey / getd).

DATA REPRESENTATION (translator type -> Gallina)
  int     python int, numpy scalar, time, node id, label          Z      (unbounded; dtype wrap-around out of scope)
  bool                                                            bool
  frac    a quotient a / b of two ints (the iou value)            Z * Z  (kept exact)
  dist    max_edge_distance                                       Dist        } Section variables of the generated
  kdtree  scipy KDTree object                                     KDTree      } file: nothing is assumed about them
  rprop   one skimage RegionProperties object                     RegionProp  } there (Proofs/CandGraphTie.v states
                                                                              } what the ties need)
  list T, tuple(T1..Tn), opt T (T or None)                        list T, T1 * .. * Tn, option T
  dict T  Python dict with int keys                               Base/Dict.v  dict T  (insertion ordered)
  arr1    1-D array / one flat frame (C order)                    list Z
  arr2    (N, D) point array = its rows; (T, *spatial) labels = its flat frames       list (list Z)
  arr3    (H, T, *spatial)                                        list (list (list Z))
  cols2   (2, n) array                                            list (Z * Z)   (its n columns)
  mask    boolean array                                           list bool
  cgraph  nx.DiGraph                                              PyRt5.cgraph (node records, add_edge log, iou log)
  attrs   keyword dict for add_node ("time" "pos" "area" "seg_id")   PyRt5.attrs
  ndata   attribute dict of one node                              the node record

SKIPPED (no effect on the value computed; nothing else is skipped)
  docstrings; type annotations (parameters, results, `x: T = e` is `x = e`); the imports listed per module;
  `logger = logging.getLogger(__name__)`; `logger.<level>(<constant>, [G.number_of_nodes() | G.number_of_edges()]..)`;
  `tqdm(x)` is `x`;  the message of `assert c, msg` and of `raise E(msg)` (constants / f-strings only).

FUNCTIONS  the table SIGS below gives, per function, the parameter names, their types and defaults (a
  difference is Unsupported).  A parameter marked static is specialised to the given constant
  (`multiseg=False`: `if multiseg:` is decided at translation time, callers may only pass that constant).
  def f(p1..pn)           Definition gen_f (v_p1 : T1) .. : res (R * M1 * ..) := run (<body>)
                          Mi = the parameters f modifies in place (returned next to the result and re-bound
                          at the call site); R = unit for a function without `return e`.

CLOSED IDIOM TABLE        Python                                     Gallina
 -- statements (a raising step is bound first:  bind (<raising>) (fun t => ..))
  x = e  |  x: T = e                                                 let v_x := e in ..
  a, b = e                                                           let '(v_a, v_b) := e in ..
  x = f(..) | a, b = f(..) | f(..)      (f translated; positional     bind (gen_f ..) (fun '(v_x, v_m1..) => ..)
        and keyword arguments; omitted = the default; T for opt T
        is Some ..; arguments at modified positions are variables)
  d[k] = e                (dict)                                     let v_d := set k e v_d in ..
  d[k1][k2] = e           (dict of dicts)                            bind (dict_get k1 v_d) (fun t => let v_d := set k1 (set k2 e t) v_d in ..
  l.append(e) | l.extend(e)                                          let v_l := v_l ++ [e] | v_l ++ e in ..
  d[k].append(e) | d[k].extend(e)                                    bind (dict_get k v_d) (fun t => let v_d := set k (t ++ [e] | t ++ e) v_d in ..
  A = {"time": a, ..} | {NodeAttr.TIME.value: a, ..}  ;  A["pos"] = e    attrs_set_.. e (.. attrs_empty)  ;  let v_A := attrs_set_pos e v_A
  G.add_node(n, **A)                                                 let v_G := nx_add_node v_G n v_A in ..
  G.add_edge(u, v)                                                   let v_G := nx_add_edge v_G u v in ..
  G.edges[(u, v)]["iou"] = e                                         bind (nx_set_edge_iou v_G u v e) (fun v_G => ..     (KeyError)
  if c: A else: B ; rest        without control transfer / raising   let '(<changed>) := if c then <A> else <B> in rest
        steps in A, B, all changed variables existing before
  if c: A else: B ; rest        otherwise                            if c then <A; rest> else <B; rest>   (rest duplicated)
        on the branch where an opt variable is known not to be None
        (`x is None` / `x is not None` / `not x`):                   bind (as_some v_x) (fun v_x => ..       (TypeError)
  if <static parameter>: A else: B                                   A or B, decided at translation time
  for pat in it: body ; rest                                         forM it (<vars>) (fun pat '(<vars>) => <body>) (fun '(<vars>) => <rest>)
        <vars> = the variables assigned / modified in body that exist before the loop (in order of first
        binding); variables first bound in the body are local to one iteration
  continue | end of loop body ;  break                               Cont (<vars>) ;  Brk (<vars>)
  return e  |  end of a function without result                      Ret (e, v_m1, ..)  |  Ret (tt, v_m1, ..)
  raise ValueError(..) | raise KeyError.. ; assert c[, msg]          Exn ValueError ; if c then .. else Exn AssertionError
 -- expressions
  x ; 0 1 .. ; (a, b[, c]) ; [e1, ..] ; [] ; {}                      v_x ; 0 1 .. ; (a, b, c) ; [e1; ..] ; [] ; []
  a + b   a - b   a * b   (ints)     a / b  (ints)                   a + b  a - b  a * b     py_truediv a b  (frac)
  an int literal where a frac is expected                            frac_of_int n
  [e] * n                                                            py_list_repeat [e] n
  A * np.array(s)         (A arr2, s list int)                       np_mul_rows A (np_array1 s)
  a == b  a != b  a < b  a <= b  a > b  a >= b   (ints)              =?  negb (=?)  <?  <=?  >?  >=?
  len(s) == A.shape[1] | A.shape[1] == len(s)   (A arr2)             np_shape1_is A (py_len s)
  k in d | k not in d     (dict)                                     haskey k d | negb (haskey k d)
  n in G.nodes            ;   (u, v) in G.edges                      nx_has_node G n  ;  nx_has_edge G u v
  x is None | x is not None   (x opt)                                negb (is_some x) | is_some x
  not c ; l / d as a condition ; not x (x opt list / dict)           negb c ; negb (is_nil l) ; opt_falsy x
  d[k]  (dict)    l[i]  (list)                                       dict_get k d  (KeyError)    list_get l i  (IndexError)
  A[i] (arr2 / arr3)   a[i] (arr1)   a[1:] (arr1 / list)             np_getitem A i    np_item a i    py_from1 a
  a[m] (arr1, mask)    C[:, i] (cols2)                               np_bool_index a m    np_col C i
  A.shape[1]  (arr3 ; cols2)       A.ndim  (arr2)                    np_shape1 A ; np_cols_shape1 A       np_ndim A  (Section variable)
  G.nodes[n]["pos"]                                                  nx_node_pos G n        (KeyError)
  D["time"] | D[NodeAttr.TIME.value]   (D ndata)                     nx_data_time D
  r.label  r.area  r.centroid   (r rprop)                            rp_label r  rp_area r  rp_centroid r   (Section variables)
  len(l)  range(n)  sorted(l)  enumerate(l)                          py_len l  py_range n  py_sorted l  py_enumerate l
  zip(a, b, strict=False)  ;  dict(zip(a, b, strict=True))           py_zip a b  ;  py_dict_of_pairs (py_zip_strict a b)
  list(e)  tuple(e)       (e a list / arr1)                          e
  d.keys()   d.get(k, dflt)                                          keys d     getd k d dflt
  [e for x in it]         (e one raising primitive / pure)           mapM (fun x => e) it  /  map (fun x => e) it
  a.flatten()  np.array(l)  np.array([r1, r2])                       np_flatten a  np_array1 l  np_array_rows2 r1 r2
  np.logical_and(a, b)    np.expand_dims(A, 0)                       np_logical_and a b    np_expand_dims0 A
  np.unique(a, return_counts=True)  ;  np.unique(C, axis=1, return_counts=True)      np_unique_counts a ; np_unique_cols_counts C
  nx.DiGraph()   G.nodes(data=True)                                  nx_DiGraph   nx_nodes_data G
  KDTree(P)      T1.query_ball_tree(T2, r)                           scipy_KDTree P    kd_query_ball_tree T1 T2 r     (Section variables)
  regionprops(F, spacing=s)                                          skimage_regionprops F s                           (Section variable)

ALIAS DISCIPLINE (checked; what makes the value semantics of the embedding sound).  M = the variables a
  function modifies in place (item assignment, append / extend, add_node / add_edge, edge attribute
  assignment, argument at a modified position of a call).
  * every binding of a variable of M is a parameter or has a fresh right-hand side (a literal, nx.DiGraph(),
    a call of a translated function);
  * a variable of M, and any list / dict / graph parameter, never occurs as a bare right-hand side, as an
    element of a stored / appended value, or twice in one call; only a `return` may mention it;
  * values stored into a dict that is modified at depth 2 (d[k].append, d[k][j] = ..) are fresh literals or
    immutable, and no variable is bound to one of its values; appended / stored elements are immutable;
  * the iterable of a `for` does not mention a variable assigned or modified in its body; loop targets are
    new names and are not modified.
  Left to the caller of the entry points: distinct mutable arguments are distinct objects.
"""
from __future__ import annotations

import ast
import hashlib
import os
import sys

HERE = os.path.dirname(os.path.abspath(__file__))
ROOT = os.path.dirname(HERE)
OUT = os.path.join(ROOT, "coq", "Gen", "CandGraph_gen.v")
REL_UTILS = "src/funtracks/candidate_graph/utils.py"
REL_IOU = "src/funtracks/candidate_graph/iou.py"
REL_CG = "src/funtracks/candidate_graph/compute_graph.py"
REL_ATTRS = "src/funtracks/data_model/graph_attributes.py"


def repo_root():
    return os.environ.get("VERIF_REPO", "/repo")


class Unsupported(Exception):
    pass


# ------------------------------------------------------------------ types
def L(t):
    return ("list", t)


def D(t):
    return ("dict", t)


def O(t):
    return ("opt", t)


def T(*ts):
    return ("tuple", tuple(ts))


NFD = D(L("int"))
IMMUT = ("int", "bool", "frac", "dist", "kdtree", "rprop", "ndata", "unit")


def immutable(t):
    if t in IMMUT:
        return True
    if isinstance(t, tuple) and t[0] == "tuple":
        return all(immutable(x) for x in t[1])
    if isinstance(t, tuple) and t[0] == "opt":
        return immutable(t[1])
    return False


def unify(a, b):
    """most specific common type; '?' is the element type of an empty literal; None if there is none"""
    if a == "?":
        return b
    if b == "?":
        return a
    if a == b:
        return a
    if isinstance(a, tuple) and isinstance(b, tuple) and a[0] == b[0]:
        if a[0] == "tuple":
            if len(a[1]) != len(b[1]):
                return None
            xs = [unify(x, y) for x, y in zip(a[1], b[1])]
            return None if None in xs else ("tuple", tuple(xs))
        x = unify(a[1], b[1])
        return None if x is None else (a[0], x)
    return None


def par(s):
    return s if (" " not in s or (s.startswith("(") and s.endswith(")") and s.count("(") == 1)) else "(%s)" % s


def gty(t):
    simple = {"int": "Z", "bool": "bool", "frac": "frac", "dist": "Dist", "kdtree": "KDTree", "rprop": "RegionProp",
              "cgraph": "cgraph", "attrs": "attrs", "ndata": "node", "unit": "unit", "arr1": "list Z",
              "arr2": "list (list Z)", "arr3": "list (list (list Z))", "cols2": "list (Z * Z)", "mask": "list bool", "?": "_"}
    if t in simple:
        return simple[t]
    k = t[0]
    if k == "list":
        return "list %s" % par(gty(t[1]))
    if k == "dict":
        return "dict %s" % par(gty(t[1]))
    if k == "opt":
        return "option %s" % par(gty(t[1]))
    if k == "tuple":
        return " * ".join(par(gty(x)) for x in t[1])
    raise Unsupported("internal: no Coq type for %r" % (t,))


# ------------------------------------------------------------------ signature table (trusted)
# params: (name, type) in order; defaults: name -> python constant; static: name -> constant the parameter is specialised to
SIGS = {
    "nodes_from_segmentation": dict(params=[("segmentation", "arr2"), ("scale", O(L("int")))], defaults={"scale": None},
                                    ret=T("cgraph", NFD)),
    "nodes_from_points_list": dict(params=[("points_list", "arr2"), ("scale", O(L("int")))], defaults={"scale": None},
                                   ret=T("cgraph", NFD)),
    "_compute_node_frame_dict": dict(params=[("cand_graph", "cgraph")], defaults={}, ret=NFD),
    "create_kdtree": dict(params=[("cand_graph", "cgraph"), ("node_ids", L("int"))], defaults={}, ret="kdtree"),
    "add_cand_edges": dict(params=[("cand_graph", "cgraph"), ("max_edge_distance", "dist"), ("node_frame_dict", O(NFD))],
                           defaults={"node_frame_dict": None}, ret="unit"),
    "_compute_ious": dict(params=[("frame1", "arr1"), ("frame2", "arr1")], defaults={}, ret=L(T("int", "int", "frac"))),
    "_get_iou_dict": dict(params=[("segmentation", "arr2")], static={"multiseg": False}, defaults={"multiseg": False},
                          ret=D(D("frac"))),
    "add_iou": dict(params=[("cand_graph", "cgraph"), ("segmentation", "arr2"), ("node_frame_dict", O(NFD))],
                    static={"multiseg": False}, defaults={"node_frame_dict": None, "multiseg": False}, ret="unit"),
    "compute_graph_from_seg": dict(params=[("segmentation", "arr2"), ("max_edge_distance", "dist"), ("iou", "bool"),
                                           ("scale", O(L("int")))], defaults={"iou": False, "scale": None}, ret="cgraph"),
    "compute_graph_from_points_list": dict(params=[("points_list", "arr2"), ("max_edge_distance", "dist"),
                                                   ("scale", O(L("int")))], defaults={"scale": None}, ret="cgraph"),
}
MODULES = [
    (REL_UTILS, ["nodes_from_segmentation", "nodes_from_points_list", "_compute_node_frame_dict", "create_kdtree", "add_cand_edges"],
     ["import logging", "from collections.abc import Iterable", "from typing import Any", "import networkx as nx",
      "import numpy as np", "from scipy.spatial import KDTree", "from skimage.measure import regionprops",
      "from tqdm import tqdm", "from funtracks.data_model.graph_attributes import NodeAttr"], True),
    (REL_IOU, ["_compute_ious", "_get_iou_dict", "add_iou"],
     ["from itertools import product", "import networkx as nx", "import numpy as np", "from tqdm import tqdm",
      "from .utils import _compute_node_frame_dict"], False),
    (REL_CG, ["compute_graph_from_seg", "compute_graph_from_points_list"],
     ["import logging", "import networkx as nx", "import numpy as np", "from .iou import add_iou",
      "from .utils import add_cand_edges, nodes_from_points_list, nodes_from_segmentation"], True),
]
ATTR_KEYS = {"time": "int", "pos": L("int"), "area": "int", "seg_id": "int"}
NODEATTR = {"TIME": "time", "POS": "pos", "AREA": "area", "SEG_ID": "seg_id"}
EXNS = ("ValueError", "KeyError", "IndexError", "TypeError", "AssertionError")
RESERVED = {"np", "nx", "KDTree", "regionprops", "tqdm", "NodeAttr", "logger", "logging", "product", "len", "range", "sorted",
            "enumerate", "zip", "list", "tuple", "dict", "set", "int", "float", "max", "min", "sum", "any", "all", "Any", "Iterable"}
CMP = {ast.Lt: "<?", ast.LtE: "<=?", ast.Gt: ">?", ast.GtE: ">=?", ast.Eq: "=?"}


def is_name(n, ident=None):
    return isinstance(n, ast.Name) and (ident is None or n.id == ident)


def is_mod(n, mod, attr):
    return isinstance(n, ast.Attribute) and is_name(n.value, mod) and n.attr == attr


def int_const(n, v=None):
    return isinstance(n, ast.Constant) and isinstance(n.value, int) and not isinstance(n.value, bool) and (v is None or n.value == v)


def const_is(n, v):
    return isinstance(n, ast.Constant) and n.value is v


def plain_call(n, nargs, keywords=()):
    return (isinstance(n, ast.Call) and len(n.args) == nargs and not any(isinstance(a, ast.Starred) for a in n.args)
            and tuple(k.arg for k in n.keywords) == tuple(keywords))


def attr_key(n):
    """ "time" | NodeAttr.TIME.value  -> the key string, else None"""
    if isinstance(n, ast.Constant) and isinstance(n.value, str) and n.value in ATTR_KEYS:
        return n.value
    if (isinstance(n, ast.Attribute) and n.attr == "value" and isinstance(n.value, ast.Attribute)
            and is_name(n.value.value, "NodeAttr") and n.value.attr in NODEATTR):
        return NODEATTR[n.value.attr]
    return None


def names_in(e):
    return {x.id for x in ast.walk(e) if isinstance(x, ast.Name)}


def is_doc(s):
    return isinstance(s, ast.Expr) and isinstance(s.value, ast.Constant) and isinstance(s.value.value, str)


class NotSimple(Exception):
    pass


class Translator:
    def __init__(self, rel):
        self.rel = rel
        self.mutated = {}       # translated function -> parameter names it modifies in place (shared across modules)

    # ---------------------------------------------------------------- errors / helpers
    def fail(self, node, why):
        raise Unsupported("%s:%s: %s: %s" % (self.rel, getattr(node, "lineno", "?"), why, ast.dump(node)[:160]))

    def fresh(self):
        self.tmp += 1
        return "t%d" % self.tmp

    def callee(self, c):
        if isinstance(c, ast.Call) and is_name(c.func) and c.func.id in SIGS:
            if c.func.id not in self.mutated:
                self.fail(c, "call of %s before (or inside) its definition" % c.func.id)
            return c.func.id
        return None

    def call_args(self, c):
        """positional / keyword arguments of a call of a translated function -> {param: ast node} (static ones checked)"""
        f = c.func.id
        sig = SIGS[f]
        names = [p for p, _ in sig["params"]] + list(sig.get("static", {}))
        # python order of all parameters = params then statics is an assumption checked in function()
        got = {}
        if any(isinstance(a, ast.Starred) for a in c.args) or any(k.arg is None for k in c.keywords):
            self.fail(c, "star arguments")
        order = self.pyorder[f]
        if len(c.args) > len(order):
            self.fail(c, "too many arguments")
        for a, p in zip(c.args, order):
            got[p] = a
        for k in c.keywords:
            if k.arg not in order or k.arg in got:
                self.fail(c, "keyword argument %s" % k.arg)
            got[k.arg] = k.value
        for p, v in sig.get("static", {}).items():
            if p in got:
                a = got.pop(p)
                ok = const_is(a, v) or (is_name(a) and self.static.get(a.id, "no") is v)
                if not ok:
                    self.fail(c, "the static parameter %s may only be passed the constant %r" % (p, v))
        for p, _ in sig["params"]:
            if p not in got and p not in sig["defaults"]:
                self.fail(c, "missing argument %s" % p)
        return got

    # ---------------------------------------------------------------- effects / alias discipline
    def mut_root(self, t):
        """the variable modified by a store into target t (x[..], x[..][..], x.edges[..][..]) else None"""
        depth = 0
        while isinstance(t, ast.Subscript):
            t = t.value
            depth += 1
        if isinstance(t, ast.Attribute) and t.attr == "edges" and is_name(t.value):
            return t.value.id, 1
        if is_name(t) and depth >= 1:
            return t.id, depth
        return None, 0

    def effects(self, stmts):
        """(assigned names, names modified in place, names modified at depth 2)"""
        asg, mut, deep = set(), set(), set()

        def tgt(t):
            if is_name(t):
                asg.add(t.id)
            elif isinstance(t, ast.Tuple):
                for e in t.elts:
                    tgt(e)
            elif isinstance(t, ast.Subscript):
                r, d = self.mut_root(t)
                if r is None:
                    self.fail(t, "assignment target")
                mut.add(r)
                if d >= 2:
                    deep.add(r)
            else:
                self.fail(t, "assignment target")

        def calls(e):
            for c in ast.walk(e):
                f = self.callee(c)
                if f:
                    for p, a in self.call_args(c).items():
                        if p in self.mutated[f]:
                            if not is_name(a):
                                self.fail(c, "the argument at a modified position must be a variable")
                            mut.add(a.id)

        def walk(ss):
            for s in ss:
                if isinstance(s, ast.Assign):
                    for t in s.targets:
                        tgt(t)
                    calls(s.value)
                elif isinstance(s, ast.AnnAssign):
                    if s.value is None:
                        self.fail(s, "annotation without value")
                    tgt(s.target)
                    calls(s.value)
                elif isinstance(s, ast.AugAssign):
                    tgt(s.target)
                    calls(s.value)
                elif isinstance(s, ast.Expr):
                    v = s.value
                    if isinstance(v, ast.Call) and isinstance(v.func, ast.Attribute) and v.func.attr in ("append", "extend", "add_node", "add_edge"):
                        o = v.func.value
                        if is_name(o):
                            mut.add(o.id)
                        elif isinstance(o, ast.Subscript) and is_name(o.value):
                            mut.add(o.value.id)
                            deep.add(o.value.id)
                        else:
                            self.fail(s, "receiver of .%s" % v.func.attr)
                    calls(v)
                elif isinstance(s, ast.If):
                    calls(s.test)
                    walk(s.body)
                    walk(s.orelse)
                elif isinstance(s, ast.For):
                    if s.orelse:
                        self.fail(s, "for/else")
                    tgt(s.target)
                    calls(s.iter)
                    walk(s.body)
                elif isinstance(s, ast.Return):
                    if s.value is not None:
                        calls(s.value)
                elif isinstance(s, ast.Assert):
                    calls(s.test)
                elif isinstance(s, (ast.Continue, ast.Break, ast.Raise)):
                    pass
                else:
                    self.fail(s, "statement")
        walk(stmts)
        return asg, mut, deep

    def is_fresh_rhs(self, v):
        if isinstance(v, (ast.List, ast.Dict, ast.ListComp)):
            return True
        if isinstance(v, ast.Call):
            if self.callee(v):
                return True
            if is_mod(v.func, "nx", "DiGraph") and plain_call(v, 0):
                return True
        return False

    def check_aliases(self, body, params):
        asg, M, deep = self.effects(body)
        guarded = set(M) | {p for p, t in params.items() if not immutable(t)}
        tree = ast.Module(body=body, type_ignores=[])

        def bare(e, what, node):
            """e must not be (or directly contain, as a tuple/list element) a guarded variable"""
            if is_name(e) and e.id in guarded:
                self.fail(node, "%s the variable %s, which is modified in place or is a mutable parameter" % (what, e.id))
            if isinstance(e, (ast.Tuple, ast.List)):
                for x in e.elts:
                    bare(x, what, node)
            if isinstance(e, ast.Dict):
                for x in e.values:
                    bare(x, what, node)

        for s in ast.walk(tree):
            if isinstance(s, (ast.Assign, ast.AnnAssign, ast.AugAssign)):
                tg = s.targets if isinstance(s, ast.Assign) else [s.target]
                v = s.value
                bare(v, "aliasing / storing", s)
                for t in tg:
                    if is_name(t) and t.id in M and not self.is_fresh_rhs(v):
                        self.fail(s, "a variable modified in place must be bound to a fresh value")
                    if isinstance(t, ast.Tuple) and not self.callee(v):
                        for e in t.elts:
                            if is_name(e) and e.id in M:
                                self.fail(s, "unpacking into a variable modified in place")
                    if isinstance(t, ast.Subscript):
                        r, _ = self.mut_root(t)
                        if r in deep and not (isinstance(v, (ast.List, ast.Dict)) and not getattr(v, "elts", None) and not getattr(v, "keys", None)):
                            # d[k] = <non-literal> into a dict modified at depth 2: the type check (immutable value) is in straight()
                            pass
                if isinstance(v, ast.Subscript) and is_name(v.value) and v.value.id in deep and any(is_name(t) for t in tg):
                    self.fail(s, "binding a variable to a value of a dict that is modified at depth 2")
            if isinstance(s, ast.Call) and isinstance(s.func, ast.Attribute) and s.func.attr in ("append", "add_node", "add_edge"):
                for a in s.args:
                    bare(a, "storing", s)
            if isinstance(s, ast.For):
                a2, m2, _ = self.effects(s.body)
                badv = names_in(s.iter) & (a2 | m2)
                if badv:
                    self.fail(s, "the iterable mentions %s, assigned / modified in the loop body" % sorted(badv))
                for n in ast.walk(s.target):
                    if is_name(n) and (n.id in M or n.id in a2):
                        self.fail(s, "loop target %s is assigned / modified" % n.id)
            if isinstance(s, ast.Call) and self.callee(s):
                f = self.callee(s)
                args = self.call_args(s)
                for p, a in args.items():
                    if p in self.mutated[f]:
                        others = set()
                        for q, b in args.items():
                            if q != p:
                                others |= names_in(b)
                        if a.id in others:
                            self.fail(s, "a modified argument occurs twice in the call")
        return M, deep

    # ---------------------------------------------------------------- patterns
    def pattern(self, t, ty, env, what):
        if is_name(t):
            if t.id in RESERVED or t.id in SIGS:
                self.fail(t, "binding the reserved name %s" % t.id)
            if what != "assign" and (t.id in env or t.id in self.static):
                self.fail(t, "%s target re-uses the existing variable %s" % (what, t.id))
            return "v_" + t.id, {t.id: ty}
        if isinstance(t, ast.Tuple):
            if not (isinstance(ty, tuple) and ty[0] == "tuple" and len(ty[1]) == len(t.elts)):
                self.fail(t, "tuple pattern against %r" % (ty,))
            ps, bs = [], {}
            for e, et in zip(t.elts, ty[1]):
                p, b = self.pattern(e, et, env, what)
                if set(b) & set(bs):
                    self.fail(t, "repeated name in pattern")
                ps.append(p)
                bs.update(b)
            return "(%s)" % ", ".join(ps), bs
        self.fail(t, "pattern")

    def lam(self, pat):
        return "'" + pat if pat.startswith("(") else pat

    def elem(self, ty, node):
        if isinstance(ty, tuple) and ty[0] == "list":
            return ty[1]
        if ty == "arr1":
            return "int"
        if ty == "arr2":
            return "arr1"
        self.fail(node, "not iterable here: %r" % (ty,))

    # ---------------------------------------------------------------- expressions
    def need(self, pre, node):
        if pre is None:
            self.fail(node, "raising expression where evaluation is conditional")

    def raising(self, pre, node, code):
        self.need(pre, node)
        t = self.fresh()
        pre.append((t, code))
        return t

    def coerce(self, code, ty, want, node):
        """value of type ty where `want` is expected"""
        if want is None:
            return code, ty
        if isinstance(want, tuple) and want[0] == "opt" and not (isinstance(ty, tuple) and ty[0] == "opt"):
            u = unify(ty, want[1])
            if u is not None:
                return "(Some %s)" % code, want
        u = unify(ty, want)
        if u is None:
            self.fail(node, "a value of type %r where %r is expected" % (ty, want))
        return code, u

    def cond(self, n, env, pre):
        if isinstance(n, ast.UnaryOp) and isinstance(n.op, ast.Not):
            o = n.operand
            if is_name(o) and o.id in env and isinstance(env[o.id], tuple) and env[o.id][0] == "opt":
                inner = env[o.id][1]
                if isinstance(inner, tuple) and inner[0] in ("list", "dict"):
                    return "(opt_falsy v_%s)" % o.id
                self.fail(n, "truth value of %r" % (env[o.id],))
            return "(negb %s)" % self.cond(o, env, pre)
        code, ty = self.expr(n, env, pre)
        if ty == "bool":
            return code
        if isinstance(ty, tuple) and ty[0] in ("list", "dict"):
            return "(negb (is_nil %s))" % code
        self.fail(n, "truth value of %r" % (ty,))

    def expr(self, n, env, pre, want=None):
        E = lambda x, w=None: self.expr(x, env, pre, w)
        # ---- atoms
        if is_name(n):
            if n.id in self.static:
                self.fail(n, "static parameter %s used as a value" % n.id)
            if n.id in RESERVED or n.id in SIGS:
                self.fail(n, "bare use of %s" % n.id)
            if n.id not in env:
                self.fail(n, "variable %s is not defined on this path" % n.id)
            return "v_" + n.id, env[n.id]
        if isinstance(n, ast.Constant):
            if int_const(n):
                if want == "frac":
                    return "(frac_of_int %d)" % n.value, "frac"
                return ("%d" % n.value if n.value >= 0 else "(%d)" % n.value), "int"
            if n.value is None and isinstance(want, tuple) and want[0] == "opt":
                return "None", want
            self.fail(n, "constant")
        if isinstance(n, ast.Tuple):
            if len(n.elts) < 2:
                self.fail(n, "tuple")
            ws = want[1] if isinstance(want, tuple) and want[0] == "tuple" and len(want[1]) == len(n.elts) else [None] * len(n.elts)
            xs = [E(e, w) for e, w in zip(n.elts, ws)]
            return "(%s)" % ", ".join(c for c, _ in xs), T(*[t for _, t in xs])
        if isinstance(n, ast.List):
            xs = [E(e) for e in n.elts]
            ty = "?"
            for _, t in xs:
                ty = unify(ty, t)
                if ty is None:
                    self.fail(n, "list literal of mixed types")
            return "[%s]" % "; ".join(c for c, _ in xs), L(ty)
        if isinstance(n, ast.Dict):
            if not n.keys:
                return "[]", D("?")
            code = "attrs_empty"
            for k, v in zip(n.keys, n.values):
                key = attr_key(k) if k is not None else None
                if key is None:
                    self.fail(n, "dict literal key (only the node attribute keys)")
                vc, vt = E(v)
                if unify(vt, ATTR_KEYS[key]) is None and not (key == "pos" and vt == "arr1"):
                    self.fail(n, "attribute %s of type %r" % (key, vt))
                code = "(attrs_set_%s %s %s)" % (key, vc, code)
            return code, "attrs"
        # ---- arithmetic
        if isinstance(n, ast.BinOp):
            if isinstance(n.op, ast.Mult) and isinstance(n.left, ast.List):
                (lc, lt), (rc, rt) = E(n.left), E(n.right)
                if rt == "int":
                    return "(py_list_repeat %s %s)" % (lc, rc), lt
                self.fail(n, "list repetition")
            (lc, lt), (rc, rt) = E(n.left), E(n.right)
            if lt == "int" and rt == "int":
                if isinstance(n.op, (ast.Add, ast.Sub, ast.Mult)):
                    return "(%s %s %s)" % (lc, {ast.Add: "+", ast.Sub: "-", ast.Mult: "*"}[type(n.op)], rc), "int"
                if isinstance(n.op, ast.Div):
                    return "(py_truediv %s %s)" % (lc, rc), "frac"
            if isinstance(n.op, ast.Mult) and lt == "arr2" and rt == "arr1" and plain_call(n.right, 1) and is_mod(n.right.func, "np", "array"):
                return "(np_mul_rows %s %s)" % (lc, rc), "arr2"
            self.fail(n, "arithmetic on %r and %r" % (lt, rt))
        if isinstance(n, ast.UnaryOp) and isinstance(n.op, ast.Not):
            return self.cond(n, env, pre), "bool"
        if isinstance(n, ast.Compare):
            if len(n.ops) != 1:
                self.fail(n, "comparison chain")
            op, l, r = n.ops[0], n.left, n.comparators[0]
            if isinstance(op, (ast.Is, ast.IsNot)):
                if not const_is(r, None):
                    self.fail(n, "is")
                c, t = E(l)
                if not (isinstance(t, tuple) and t[0] == "opt"):
                    self.fail(n, "`is None` on a value that is never None (%r)" % (t,))
                return ("(is_some %s)" if isinstance(op, ast.IsNot) else "(negb (is_some %s))") % c, "bool"
            if isinstance(op, (ast.In, ast.NotIn)):
                neg = (lambda c: "(negb %s)" % c) if isinstance(op, ast.NotIn) else (lambda c: c)
                if isinstance(r, ast.Attribute) and r.attr in ("nodes", "edges") and is_name(r.value):
                    gc, gt = E(r.value)
                    if gt != "cgraph":
                        self.fail(n, ".%s of %r" % (r.attr, gt))
                    if r.attr == "nodes":
                        lc, lt = E(l)
                        if lt != "int":
                            self.fail(n, "node id of type %r" % (lt,))
                        return neg("(nx_has_node %s %s)" % (gc, lc)), "bool"
                    if isinstance(l, ast.Tuple) and len(l.elts) == 2:
                        (uc, ut), (vc, vt) = E(l.elts[0]), E(l.elts[1])
                        if ut == "int" and vt == "int":
                            return neg("(nx_has_edge %s %s %s)" % (gc, uc, vc)), "bool"
                    self.fail(n, "edge membership")
                (lc, lt), (rc, rt) = E(l), E(r)
                if isinstance(rt, tuple) and rt[0] == "dict" and lt == "int":
                    return neg("(haskey %s %s)" % (lc, rc)), "bool"
                self.fail(n, "`in` on %r" % (rt,))
            # len(s) == A.shape[1]
            if isinstance(op, ast.Eq):
                for a, b in ((l, r), (r, l)):
                    if (isinstance(b, ast.Subscript) and int_const(b.slice, 1) and isinstance(b.value, ast.Attribute)
                            and b.value.attr == "shape" and is_name(b.value.value) and env.get(b.value.value.id) == "arr2"):
                        ac, at = E(a)
                        if at != "int":
                            self.fail(n, "shape comparison with %r" % (at,))
                        return "(np_shape1_is v_%s %s)" % (b.value.value.id, ac), "bool"
            (lc, lt), (rc, rt) = E(l), E(r)
            if lt == "int" and rt == "int":
                if type(op) in CMP:
                    return "(%s %s %s)" % (lc, CMP[type(op)], rc), "bool"
                if isinstance(op, ast.NotEq):
                    return "(negb (%s =? %s))" % (lc, rc), "bool"
            self.fail(n, "comparison of %r and %r" % (lt, rt))
        # ---- attributes
        if isinstance(n, ast.Attribute):
            if n.attr in ("label", "area", "centroid") and is_name(n.value):
                c, t = E(n.value)
                if t == "rprop":
                    return "(rp_%s %s)" % (n.attr, c), (L("int") if n.attr == "centroid" else "int")
            if n.attr == "ndim" and is_name(n.value):
                c, t = E(n.value)
                if t == "arr2":
                    return "(np_ndim %s)" % c, "int"
            self.fail(n, "attribute")
        # ---- subscripts
        if isinstance(n, ast.Subscript):
            v, s = n.value, n.slice
            # G.nodes[n]["pos"]
            if (isinstance(v, ast.Subscript) and isinstance(v.value, ast.Attribute) and v.value.attr == "nodes"
                    and is_name(v.value.value) and env.get(v.value.value.id) == "cgraph"):
                if attr_key(s) != "pos":
                    self.fail(n, "node attribute other than pos")
                ic, it = E(v.slice)
                if it != "int":
                    self.fail(n, "node id of type %r" % (it,))
                return self.raising(pre, n, "nx_node_pos v_%s %s" % (v.value.value.id, ic)), L("int")
            # A.shape[1]
            if isinstance(v, ast.Attribute) and v.attr == "shape" and is_name(v.value) and int_const(s, 1):
                c, t = E(v.value)
                if t == "arr3":
                    return "(np_shape1 %s)" % c, "int"
                if t == "cols2":
                    return "(np_cols_shape1 %s)" % c, "int"
                self.fail(n, ".shape[1] of %r (for an (N, D) array only in `len(s) == A.shape[1]`)" % (t,))
            c, t = E(v)
            if t == "ndata":
                if attr_key(s) == "time":
                    return "(nx_data_time %s)" % c, "int"
                self.fail(n, "node attribute")
            # slices
            if isinstance(s, ast.Slice):
                if int_const(s.lower, 1) and s.upper is None and s.step is None and (t == "arr1" or (isinstance(t, tuple) and t[0] == "list")):
                    return "(py_from1 %s)" % c, t
                self.fail(n, "slice")
            if isinstance(s, ast.Tuple):
                if (t == "cols2" and len(s.elts) == 2 and isinstance(s.elts[0], ast.Slice) and s.elts[0].lower is None
                        and s.elts[0].upper is None and s.elts[0].step is None):
                    ic, it = E(s.elts[1])
                    if it == "int":
                        return "(np_col %s %s)" % (c, ic), T("int", "int")
                self.fail(n, "multi-axis index")
            ic, it = E(s)
            if isinstance(t, tuple) and t[0] == "dict" and it == "int":
                return self.raising(pre, n, "dict_get %s %s" % (ic, c)), t[1]
            if isinstance(t, tuple) and t[0] == "list" and it == "int":
                return self.raising(pre, n, "list_get %s %s" % (c, ic)), t[1]
            if t == "arr3" and it == "int":
                return "(np_getitem %s %s)" % (c, ic), "arr2"
            if t == "arr2" and it == "int":
                return "(np_getitem %s %s)" % (c, ic), "arr1"
            if t == "arr1" and it == "int":
                return "(np_item %s %s)" % (c, ic), "int"
            if t == "arr1" and it == "mask":
                return "(np_bool_index %s %s)" % (c, ic), "arr1"
            self.fail(n, "subscript of %r by %r" % (t, it))
        if isinstance(n, ast.ListComp):
            if len(n.generators) != 1 or n.generators[0].is_async or n.generators[0].ifs:
                self.fail(n, "comprehension shape")
            g = n.generators[0]
            ic, it = E(g.iter)
            pat, bs = self.pattern(g.target, self.elem(it, g.iter), env, "comprehension")
            env2 = dict(env)
            env2.update(bs)
            p2 = []
            ec, et = self.expr(n.elt, env2, p2)
            if not p2:
                return "(map (fun %s => %s) %s)" % (self.lam(pat), ec, ic), L(et)
            if len(p2) == 1 and p2[0][0] == ec:
                return self.raising(pre, n, "mapM (fun %s => %s) %s" % (self.lam(pat), p2[0][1], ic)), L(et)
            self.fail(n, "comprehension element with more than one raising step")
        if isinstance(n, ast.Call):
            return self.call(n, env, pre, want)
        self.fail(n, "expression")

    def call(self, n, env, pre, want):
        E = lambda x, w=None: self.expr(x, env, pre, w)
        f = n.func
        if self.callee(n):
            self.fail(n, "call of a translated function other than as `x = f(..)`, `a, b = f(..)` or `f(..)`")
        if is_name(f):
            if f.id in env or f.id in self.static:
                self.fail(n, "call of a local variable")
            a = n.args
            if f.id == "tqdm" and plain_call(n, 1):
                return E(a[0])
            if f.id == "len" and plain_call(n, 1):
                c, t = E(a[0])
                if (isinstance(t, tuple) and t[0] == "list") or t in ("arr1", "arr2"):
                    return "(py_len %s)" % c, "int"
                self.fail(n, "len of %r" % (t,))
            if f.id == "range" and plain_call(n, 1):
                c, t = E(a[0])
                if t == "int":
                    return "(py_range %s)" % c, L("int")
                self.fail(n, "range of %r" % (t,))
            if f.id == "sorted" and plain_call(n, 1):
                c, t = E(a[0])
                if t == L("int"):
                    return "(py_sorted %s)" % c, L("int")
                self.fail(n, "sorted of %r" % (t,))
            if f.id == "enumerate" and plain_call(n, 1):
                c, t = E(a[0])
                return "(py_enumerate %s)" % c, L(T("int", self.elem(t, n)))
            if f.id == "zip" and plain_call(n, 2, ("strict",)) and const_is(n.keywords[0].value, False):
                (ac, at), (bc, bt) = E(a[0]), E(a[1])
                return "(py_zip %s %s)" % (ac, bc), L(T(self.elem(at, n), self.elem(bt, n)))
            if f.id in ("list", "tuple") and plain_call(n, 1):
                c, t = E(a[0])
                if t == "arr1" or t == L("int"):
                    return c, L("int")
                self.fail(n, "%s() of %r" % (f.id, t))
            if f.id == "dict" and plain_call(n, 1):
                z = a[0]
                if plain_call(z, 2, ("strict",)) and is_name(z.func, "zip") and const_is(z.keywords[0].value, True):
                    (ac, at), (bc, bt) = E(z.args[0]), E(z.args[1])
                    if at == "arr1" and bt == "arr1":
                        return "(py_dict_of_pairs (py_zip_strict %s %s))" % (ac, bc), D("int")
                self.fail(n, "dict(..) other than dict(zip(a, b, strict=True))")
            if f.id == "KDTree" and plain_call(n, 1):
                c, t = E(a[0])
                if t == L(L("int")):
                    return "(scipy_KDTree %s)" % c, "kdtree"
                self.fail(n, "KDTree of %r" % (t,))
            if f.id == "regionprops" and plain_call(n, 1, ("spacing",)):
                (c, t), (sc, st) = E(a[0]), E(n.keywords[0].value)
                if t == "arr1" and st == L("int"):
                    return "(skimage_regionprops %s %s)" % (c, sc), L("rprop")
                self.fail(n, "regionprops of %r, spacing %r" % (t, st))
            self.fail(n, "call of %s" % f.id)
        if isinstance(f, ast.Attribute):
            m = f.attr
            if is_name(f.value, "np") and "np" not in env:
                a = n.args
                if m == "logical_and" and plain_call(n, 2):
                    (ac, at), (bc, bt) = E(a[0]), E(a[1])
                    if at == "arr1" and bt == "arr1":
                        return "(np_logical_and %s %s)" % (ac, bc), "mask"
                if m == "array" and plain_call(n, 1):
                    if isinstance(a[0], ast.List) and len(a[0].elts) == 2:
                        (ac, at), (bc, bt) = E(a[0].elts[0]), E(a[0].elts[1])
                        if at == "arr1" and bt == "arr1":
                            return "(np_array_rows2 %s %s)" % (ac, bc), "cols2"
                    else:
                        c, t = E(a[0])
                        if t == L("int"):
                            return "(np_array1 %s)" % c, "arr1"
                if m == "unique" and plain_call(n, 1, ("return_counts",)) and const_is(n.keywords[0].value, True):
                    c, t = E(a[0])
                    if t == "arr1":
                        return "(np_unique_counts %s)" % c, T("arr1", "arr1")
                if m == "unique" and plain_call(n, 1, ("axis", "return_counts")) and int_const(n.keywords[0].value, 1) \
                        and const_is(n.keywords[1].value, True):
                    c, t = E(a[0])
                    if t == "cols2":
                        return "(np_unique_cols_counts %s)" % c, T("cols2", "arr1")
                if m == "expand_dims" and plain_call(n, 2) and int_const(a[1], 0):
                    c, t = E(a[0])
                    if t == "arr2":
                        return "(np_expand_dims0 %s)" % c, "arr3"
                self.fail(n, "call of np.%s" % m)
            if is_name(f.value, "nx") and "nx" not in env:
                if m == "DiGraph" and plain_call(n, 0):
                    return "nx_DiGraph", "cgraph"
                self.fail(n, "call of nx.%s" % m)
            oc, ot = E(f.value)
            a = n.args
            if m == "flatten" and plain_call(n, 0) and ot == "arr1":
                return "(np_flatten %s)" % oc, "arr1"
            if m == "nodes" and plain_call(n, 0, ("data",)) and const_is(n.keywords[0].value, True) and ot == "cgraph":
                return "(nx_nodes_data %s)" % oc, L(T("int", "ndata"))
            if m == "query_ball_tree" and plain_call(n, 2) and ot == "kdtree":
                (tc, tt), (rc, rt) = E(a[0]), E(a[1])
                if tt == "kdtree" and rt == "dist":
                    return "(kd_query_ball_tree %s %s %s)" % (oc, tc, rc), L(L("int"))
            if isinstance(ot, tuple) and ot[0] == "dict":
                if m == "keys" and plain_call(n, 0):
                    return "(keys %s)" % oc, L("int")
                if m == "get" and plain_call(n, 2):
                    kc, kt = E(a[0])
                    dc, dt = E(a[1], ot[1])
                    vt = unify(dt, ot[1])
                    if kt == "int" and vt is not None:
                        return "(getd %s %s %s)" % (kc, oc, dc), vt
            self.fail(n, "method call .%s on %r" % (m, ot))
        self.fail(n, "call")

    # ---------------------------------------------------------------- statements
    def tup(self, names):
        if not names:
            return "tt"
        if len(names) == 1:
            return "v_" + names[0]
        return "(%s)" % ", ".join("v_" + x for x in names)

    def lamtup(self, names):
        return "_" if not names else self.lam(self.tup(names))

    def wrap(self, pre, body, ind):
        out = ""
        for t, c in pre:
            out += "bind (%s) (fun %s =>\n%s" % (c, t, ind)
        return out + body + ")" * len(pre)

    def set_var(self, env, name, ty, node):
        if name in self.static:
            self.fail(node, "assignment to the static parameter %s" % name)
        if name in RESERVED or name in SIGS:
            self.fail(node, "binding the reserved name %s" % name)
        env[name] = ty       # Python variables are untyped: a re-binding may change the type

    def gen_call(self, v, env, pre, targets, node):
        """x = f(..) / a, b = f(..) / f(..): appends the bind to pre, binds the targets and the modified arguments"""
        f = self.callee(v)
        sig = SIGS[f]
        got = self.call_args(v)
        args, outs = [], []
        for p, pt in sig["params"]:
            if p in got:
                c, ty = self.expr(got[p], env, pre, pt)
                c, ty = self.coerce(c, ty, pt, node)
                if p in self.mutated[f]:
                    outs.append(got[p].id)
            else:
                d = sig["defaults"][p]
                if d is None:
                    c = "None"
                elif isinstance(d, bool):
                    c = "true" if d else "false"
                else:
                    self.fail(node, "default value")
            args.append(c)
        rt = sig["ret"]
        if targets is None:
            rp = "_"
        elif is_name(targets):
            rp = "v_" + targets.id
            self.set_var(env, targets.id, rt, node)
            if targets.id in outs:
                self.fail(node, "result assigned to a modified argument")
        else:
            rp, bs = self.pattern(targets, rt, env, "assign")
            for x, xt in bs.items():
                self.set_var(env, x, xt, node)
                if x in outs:
                    self.fail(node, "result assigned to a modified argument")
        pat = rp if not outs else "(%s)" % ", ".join([rp] + ["v_" + o for o in outs])
        pre.append((self.lam(pat), "gen_%s %s" % (f, " ".join(args))))

    def straight(self, s, env, ind):
        """assignments and in-place modifications -> (pre, 'let .. in' line or '') ; None for other statement kinds"""
        if isinstance(s, ast.AnnAssign):
            if s.value is None or not s.simple or not is_name(s.target):
                self.fail(s, "annotated assignment")
            s = ast.copy_location(ast.Assign(targets=[s.target], value=s.value), s)
        pre = []
        if isinstance(s, ast.Assign):
            if len(s.targets) != 1:
                self.fail(s, "chained assignment")
            t, v = s.targets[0], s.value
            if self.callee(v):
                if not (is_name(t) or isinstance(t, ast.Tuple)):
                    self.fail(s, "target of a call")
                self.gen_call(v, env, pre, t, s)
                return pre, ""
            if is_name(t):
                c, ty = self.expr(v, env, pre)
                if is_name(v) and not immutable(ty) and (v.id in self.M or t.id in self.M):
                    self.fail(s, "aliasing a value that is modified in place")
                self.set_var(env, t.id, ty, s)
                if pre and pre[-1][0] == c:
                    last = pre.pop()
                    pre.append(("v_" + t.id, last[1]))
                    return pre, ""
                return pre, "let v_%s := %s in" % (t.id, c)
            if isinstance(t, ast.Tuple):
                c, ty = self.expr(v, env, pre)
                pat, bs = self.pattern(t, ty, env, "assign")
                for x, xt in bs.items():
                    self.set_var(env, x, xt, s)
                return pre, "let '%s := %s in" % (pat, c)
            if isinstance(t, ast.Subscript):
                # G.edges[(u, v)]["iou"] = e
                tv = t.value
                if (isinstance(tv, ast.Subscript) and isinstance(tv.value, ast.Attribute) and tv.value.attr == "edges"
                        and is_name(tv.value.value) and env.get(tv.value.value.id) == "cgraph"):
                    g = tv.value.value.id
                    if not (isinstance(t.slice, ast.Constant) and t.slice.value == "iou" and isinstance(tv.slice, ast.Tuple) and len(tv.slice.elts) == 2):
                        self.fail(s, "edge attribute assignment")
                    (uc, ut), (wc, wt) = self.expr(tv.slice.elts[0], env, pre), self.expr(tv.slice.elts[1], env, pre)
                    vc, vt = self.expr(v, env, pre, "frac")
                    if ut != "int" or wt != "int" or vt != "frac":
                        self.fail(s, "edge attribute assignment types")
                    pre.append(("v_" + g, "nx_set_edge_iou v_%s %s %s %s" % (g, uc, wc, vc)))
                    return pre, ""
                if is_name(tv) and tv.id in env:
                    r, rt = tv.id, env[tv.id]
                    if rt == "attrs":
                        key = attr_key(t.slice)
                        if key is None:
                            self.fail(s, "attribute key")
                        vc, vt = self.expr(v, env, pre)
                        if unify(vt, ATTR_KEYS[key]) is None:
                            self.fail(s, "attribute %s of type %r" % (key, vt))
                        return pre, "let v_%s := attrs_set_%s %s v_%s in" % (r, key, vc, r)
                    if isinstance(rt, tuple) and rt[0] == "dict":
                        vc, vt = self.expr(v, env, pre, rt[1] if rt[1] != "?" else None)
                        kc, kt = self.expr(t.slice, env, pre)
                        u = unify(vt, rt[1])
                        if kt != "int" or u is None:
                            self.fail(s, "item assignment types")
                        if r in self.deep and not (immutable(vt) or isinstance(v, (ast.List, ast.Dict))):
                            self.fail(s, "storing a mutable value into a dict that is modified at depth 2")
                        if not immutable(vt) and not isinstance(v, (ast.List, ast.Dict)):
                            self.fail(s, "storing a mutable value")
                        env[r] = D(u)
                        return pre, "let v_%s := set %s %s v_%s in" % (r, kc, vc, r)
                    self.fail(s, "item assignment on %r" % (rt,))
                if isinstance(tv, ast.Subscript) and is_name(tv.value) and tv.value.id in env:
                    r, rt = tv.value.id, env[tv.value.id]
                    if isinstance(rt, tuple) and rt[0] == "dict" and isinstance(rt[1], tuple) and rt[1][0] == "dict":
                        vc, vt = self.expr(v, env, pre, rt[1][1] if rt[1][1] != "?" else None)
                        k1c, k1t = self.expr(tv.slice, env, pre)
                        x = self.raising(pre, s, "dict_get %s v_%s" % (k1c, r))
                        k2c, k2t = self.expr(t.slice, env, pre)
                        u = unify(vt, rt[1][1])
                        if k1t != "int" or k2t != "int" or u is None or not immutable(vt):
                            self.fail(s, "nested item assignment types")
                        env[r] = D(D(u))
                        return pre, "let v_%s := set %s (set %s %s %s) v_%s in" % (r, k1c, k2c, vc, x, r)
                    self.fail(s, "nested item assignment on %r" % (rt,))
            self.fail(s, "assignment")
        if isinstance(s, ast.Expr) and isinstance(s.value, ast.Call):
            v = s.value
            f = v.func
            if self.callee(v):
                self.gen_call(v, env, pre, None, s)
                return pre, ""
            # logger.info(..)
            if isinstance(f, ast.Attribute) and is_name(f.value, "logger") and "logger" not in env \
                    and f.attr in ("debug", "info", "warning", "error") and not v.keywords:
                for a in v.args:
                    ok = isinstance(a, ast.Constant) or (plain_call(a, 0) and isinstance(a.func, ast.Attribute)
                                                        and a.func.attr in ("number_of_nodes", "number_of_edges")
                                                        and is_name(a.func.value) and env.get(a.func.value.id) == "cgraph")
                    if not ok:
                        self.fail(s, "logging argument")
                return [], ""
            if isinstance(f, ast.Attribute):
                m, o = f.attr, f.value
                if m in ("append", "extend") and plain_call(v, 1):
                    ac, at = self.expr(v.args[0], env, pre)
                    if is_name(o) and o.id in env:
                        x, xt = o.id, env[o.id]
                        if not (isinstance(xt, tuple) and xt[0] == "list"):
                            self.fail(s, ".%s on %r" % (m, xt))
                        u = unify(xt[1], at) if m == "append" else (unify(xt, at) or (None,))[-1]
                        if m == "extend":
                            uu = unify(xt, at)
                            u = None if uu is None else uu[1]
                        if u is None or not immutable(u):
                            self.fail(s, ".%s of %r to %r (elements must be immutable)" % (m, at, xt))
                        env[x] = L(u)
                        return pre, "let v_%s := v_%s ++ %s in" % (x, x, "[%s]" % ac if m == "append" else ac)
                    if isinstance(o, ast.Subscript) and is_name(o.value) and o.value.id in env:
                        d, dt = o.value.id, env[o.value.id]
                        if not (isinstance(dt, tuple) and dt[0] == "dict" and isinstance(dt[1], tuple) and dt[1][0] == "list"):
                            self.fail(s, ".%s on a value of %r" % (m, dt))
                        kc, kt = self.expr(o.slice, env, pre)
                        x = self.raising(pre, s, "dict_get %s v_%s" % (kc, d))
                        if m == "append":
                            u = unify(dt[1][1], at)
                        else:
                            uu = unify(dt[1], at)
                            u = None if uu is None else uu[1]
                        if kt != "int" or u is None or not immutable(u):
                            self.fail(s, ".%s of %r into %r" % (m, at, dt))
                        env[d] = D(L(u))
                        return pre, "let v_%s := set %s (%s ++ %s) v_%s in" % (d, kc, x, "[%s]" % ac if m == "append" else ac, d)
                    self.fail(s, "receiver of .%s" % m)
                if m == "add_node" and is_name(o) and env.get(o.id) == "cgraph" and len(v.args) == 1 and len(v.keywords) == 1 \
                        and v.keywords[0].arg is None and is_name(v.keywords[0].value):
                    (nc, nt), (ac, at) = self.expr(v.args[0], env, pre), self.expr(v.keywords[0].value, env, pre)
                    if nt == "int" and at == "attrs":
                        return pre, "let v_%s := nx_add_node v_%s %s %s in" % (o.id, o.id, nc, ac)
                    self.fail(s, "add_node argument types")
                if m == "add_edge" and is_name(o) and env.get(o.id) == "cgraph" and plain_call(v, 2):
                    (uc, ut), (wc, wt) = self.expr(v.args[0], env, pre), self.expr(v.args[1], env, pre)
                    if ut == "int" and wt == "int":
                        return pre, "let v_%s := nx_add_edge v_%s %s %s in" % (o.id, o.id, uc, wc)
                    self.fail(s, "add_edge argument types")
            self.fail(s, "expression statement")
        return None

    def narrowing(self, test, env):
        """(variable narrowed on the then-branch, variable narrowed on the else-branch)"""
        def optname(x):
            return is_name(x) and x.id in env and isinstance(env[x.id], tuple) and env[x.id][0] == "opt"
        if isinstance(test, ast.Compare) and len(test.ops) == 1 and const_is(test.comparators[0], None) and optname(test.left):
            if isinstance(test.ops[0], ast.IsNot):
                return test.left.id, None
            if isinstance(test.ops[0], ast.Is):
                return None, test.left.id
        if isinstance(test, ast.UnaryOp) and isinstance(test.op, ast.Not) and optname(test.operand):
            return None, test.operand.id
        return None, None

    def simple_lines(self, stmts, env, ind):
        out = []
        for s in stmts:
            if is_doc(s):
                continue
            if isinstance(s, ast.If):
                out.append(self.try_join(s, env, ind, strict=True))
                continue
            if isinstance(s, (ast.For, ast.Return, ast.Continue, ast.Break, ast.Raise, ast.Assert)):
                raise NotSimple()
            r = self.straight(s, env, ind)
            if r is None:
                raise NotSimple()
            pre, line = r
            if pre:
                raise NotSimple()
            if line:
                out.append(line)
        return out

    def try_join(self, s, env, ind, strict=False):
        """`if` whose branches are straight-line and non-raising -> one let line; None if it is not of that kind"""
        try:
            if is_name(s.test) and s.test.id in self.static:
                raise NotSimple()
            if self.narrowing(s.test, env) != (None, None):
                raise NotSimple()
            for b in (s.body, s.orelse):
                for x in ast.walk(ast.Module(body=b, type_ignores=[])):
                    if isinstance(x, (ast.For, ast.Return, ast.Continue, ast.Break, ast.Raise, ast.Assert)) or self.callee(x):
                        raise NotSimple()
            asg, mut, _ = self.effects(s.body + s.orelse)
            ch = [x for x in env if x in asg | mut]
            if not ch or (asg | mut) - set(env):
                raise NotSimple()
            pre = []
            c = self.cond(s.test, env, pre)
            if pre:
                raise NotSimple()
            e1, e2 = dict(env), dict(env)
            tmp = self.tmp
            l1 = self.simple_lines(s.body, e1, ind + "    ")
            l2 = self.simple_lines(s.orelse, e2, ind + "    ")
            for x in ch:
                u = unify(e1[x], e2[x])
                if u is None:
                    raise NotSimple()
            for x in ch:
                env[x] = unify(e1[x], e2[x])
            I2 = ind + "    "
            a = "".join(l + "\n" + I2 for l in l1) + self.tup(ch)
            b = "".join(l + "\n" + I2 for l in l2) + self.tup(ch)
            return "let %s :=\n%s  if %s then\n%s%s\n%s  else\n%s%s in" % (self.lamtup(ch), ind, c, I2, a, ind, I2, b)
        except NotSimple:
            if strict:
                raise
            return None

    def cont(self, loop, env, kind="Cont"):
        names, rec = loop
        rec.append({x: env[x] for x in names})
        return "%s %s" % (kind, self.tup(names))

    def block(self, stmts, env, loop, ind):
        """statement list -> code of type ctl S R.  loop: (loop-carried variable names, record of their types), or None"""
        I = ind
        if not stmts:
            if loop is None:
                if self.ret != "unit":
                    raise Unsupported("%s: function %s can end without `return`" % (self.rel, self.fname))
                return self.ret_code("tt", env, None)
            return self.cont(loop, env)
        s, rest = stmts[0], stmts[1:]
        R = lambda: self.block(rest, env, loop, ind)
        if is_doc(s):
            return R()
        if isinstance(s, ast.Continue):
            if loop is None:
                self.fail(s, "continue outside a loop")
            return self.cont(loop, env)
        if isinstance(s, ast.Break):
            if loop is None:
                self.fail(s, "break outside a loop")
            return self.cont(loop, env, "Brk")
        if isinstance(s, ast.Return):
            if s.value is None:
                if self.ret != "unit":
                    self.fail(s, "return without value")
                return self.ret_code("tt", env, s)
            pre = []
            c, t = self.expr(s.value, env, pre, self.ret)
            c, t = self.coerce(c, t, self.ret, s)
            return self.wrap(pre, self.ret_code(c, env, s), I)
        if isinstance(s, ast.Raise):
            e = s.exc
            name = e.id if is_name(e) else e.func.id if (isinstance(e, ast.Call) and is_name(e.func) and not e.keywords
                                                          and all(isinstance(a, (ast.Constant, ast.JoinedStr)) for a in e.args)) else None
            if name not in EXNS or s.cause is not None:
                self.fail(s, "raise")
            return "Exn %s" % name
        if isinstance(s, ast.Assert):
            if s.msg is not None and not isinstance(s.msg, (ast.Constant, ast.JoinedStr)):
                self.fail(s, "assert message")
            pre = []
            c = self.cond(s.test, env, pre)
            return self.wrap(pre, "if %s then\n%s  %s\n%selse Exn AssertionError" % (c, I, self.block(rest, env, loop, ind + "  "), I), I)
        if isinstance(s, ast.If):
            if is_name(s.test) and s.test.id in self.static:
                return self.block((s.body if self.static[s.test.id] else s.orelse) + rest, env, loop, ind)
            j = self.try_join(s, env, ind)
            if j is not None:
                return j + "\n" + I + R()
            n1, n2 = self.narrowing(s.test, env)
            pre = []
            c = self.cond(s.test, env, pre)

            def branch(body, nv):
                e = dict(env)
                if nv is None:
                    return self.block(body + rest, e, loop, ind + "  ")
                o = e[nv]
                e[nv] = o[1]
                return "bind (as_some v_%s) (fun v_%s =>\n%s  %s)" % (nv, nv, I, self.block(body + rest, e, loop, ind + "  "))
            a = branch(s.body, n1)
            b = branch(s.orelse, n2)
            return self.wrap(pre, "if %s then\n%s  %s\n%selse\n%s  %s" % (c, I, a, I, I, b), I)
        if isinstance(s, ast.For):
            if s.orelse:
                self.fail(s, "for/else")
            pre = []
            ic, it = self.expr(s.iter, env, pre)
            pat, bs = self.pattern(s.target, self.elem(it, s.iter), env, "for")
            asg, mut, _ = self.effects(s.body)
            for x in bs:
                if x in asg or x in mut:
                    self.fail(s, "loop target %s is assigned / modified in the loop body" % x)
            state = [x for x in env if x in asg | mut]
            env2 = dict(env)
            env2.update(bs)
            rec = []
            body = self.block(s.body, env2, (state, rec), ind + "    ")
            for x in state:
                t = env[x]
                for r in rec:
                    t = unify(t, r[x]) if t is not None else None
                if t is None:
                    self.fail(s, "the loop-carried variable %s changes type in the loop body" % x)
                env[x] = t
            k = self.block(rest, env, loop, ind + "    ")
            code = "forM %s %s\n%s  (fun %s %s =>\n%s    %s)\n%s  (fun %s =>\n%s    %s)" % (
                ic, self.tup(state), I, self.lam(pat), self.lamtup(state), I, body, I, self.lamtup(state), I, k)
            return self.wrap(pre, code, I)
        r = self.straight(s, env, ind)
        if r is not None:
            pre, line = r
            return self.wrap(pre, (line + "\n" + I if line else "") + R(), I)
        self.fail(s, "statement")

    def ret_code(self, c, env, node):
        for m in self.mparams:
            if m not in env or env[m] != dict(self.sigparams)[m]:
                raise Unsupported("%s: function %s: the modified parameter %s is re-bound" % (self.rel, self.fname, m))
        return "Ret %s" % ("(%s)" % ", ".join([c] + ["v_" + m for m in self.mparams]) if self.mparams else c)

    # ---------------------------------------------------------------- functions / modules
    def function(self, fn):
        name = fn.name
        sig = SIGS[name]
        self.fname, self.tmp = name, 0
        a = fn.args
        if a.vararg or a.kwarg or a.kwonlyargs or a.posonlyargs or fn.decorator_list or isinstance(fn, ast.AsyncFunctionDef):
            self.fail(fn, "function header")
        pnames = [x.arg for x in a.args]
        static = sig.get("static", {})
        if sorted(pnames) != sorted([p for p, _ in sig["params"]] + list(static)) or \
                [p for p in pnames if p not in static] != [p for p, _ in sig["params"]]:
            self.fail(fn, "parameters of %s differ from the signature table" % name)
        got = {}
        for x, d in zip(a.args[len(a.args) - len(a.defaults):], a.defaults):
            if not isinstance(d, ast.Constant):
                self.fail(fn, "default value")
            got[x.arg] = d.value
        if set(got) != set(sig["defaults"]) or any(got[k] is not sig["defaults"][k] for k in got):
            self.fail(fn, "default values of %s differ from the signature table (%r)" % (name, sig["defaults"]))
        self.pyorder[name] = pnames
        self.static = dict(static)
        self.sigparams = sig["params"]
        body = [s for s in fn.body]
        while body and is_doc(body[0]):
            body.pop(0)
        env = {p: t for p, t in sig["params"]}
        for p in pnames:
            if p in RESERVED or p in SIGS:
                self.fail(fn, "parameter name %s" % p)
        self.M, self.deep = self.check_aliases(body, env)
        self.mparams = [p for p, _ in sig["params"] if p in self.M]
        for s in ast.walk(ast.Module(body=body, type_ignores=[])):
            if isinstance(s, (ast.Assign, ast.AnnAssign, ast.AugAssign)):
                for t in (s.targets if isinstance(s, ast.Assign) else [s.target]):
                    for x in ast.walk(t):
                        if is_name(x) and isinstance(x.ctx, ast.Store) and x.id in self.mparams:
                            self.fail(s, "a parameter is both re-bound and modified in place")
            if isinstance(s, (ast.Lambda, ast.FunctionDef, ast.ClassDef, ast.Global, ast.Nonlocal, ast.While, ast.Try, ast.With,
                              ast.Yield, ast.YieldFrom, ast.Await, ast.NamedExpr, ast.Delete, ast.Import, ast.ImportFrom)):
                self.fail(s, "construct")
        self.mutated[name] = self.mparams
        self.ret = sig["ret"]
        code = self.block(body, env, None, "    ")
        rt = gty(self.ret)
        if self.mparams:
            rt = " * ".join([par(rt)] + [par(gty(dict(sig["params"])[m])) for m in self.mparams])
        ps = " ".join("(v_%s : %s)" % (p, gty(t)) for p, t in sig["params"])
        spec = "".join(" [%s=%r]" % kv for kv in static.items())
        return "(* %s: %s(%s)%s *)\nDefinition gen_%s %s : res (%s) :=\n  run (\n    %s).\n" % (
            self.rel.split("/")[-1], name, ", ".join(pnames), spec, name, ps, rt, code)

    def module(self, src, fnames, imports, has_logger):
        tree = ast.parse(src)
        body = list(tree.body)
        while body and is_doc(body[0]):
            body.pop(0)
        out, seen, imps = [], [], []
        for n in body:
            if isinstance(n, ast.FunctionDef):
                if n.name not in fnames:
                    self.fail(n, "function %s is not in the translator's table for this module" % n.name)
                if n.name in seen:
                    self.fail(n, "function defined twice")
                out.append(self.function(n))
                seen.append(n.name)
            elif isinstance(n, (ast.Import, ast.ImportFrom)):
                imps.append(ast.unparse(n))
            elif (has_logger and isinstance(n, ast.Assign) and len(n.targets) == 1 and is_name(n.targets[0], "logger")
                  and ast.unparse(n.value) == "logging.getLogger(__name__)"):
                pass
            else:
                self.fail(n, "module-level statement")
        if sorted(imps) != sorted(imports):
            raise Unsupported("%s: imports changed: %s (expected %s)" % (self.rel, sorted(imps), sorted(imports)))
        if sorted(seen) != sorted(fnames):
            raise Unsupported("%s: functions found %r, expected %r" % (self.rel, seen, fnames))
        return out


def check_node_attr(root):
    tree = ast.parse(open(os.path.join(root, REL_ATTRS)).read())
    cls = [n for n in tree.body if isinstance(n, ast.ClassDef) and n.name == "NodeAttr"]
    if len(cls) != 1:
        raise Unsupported("%s: class NodeAttr not found" % REL_ATTRS)
    got = {}
    for s in cls[0].body:
        if isinstance(s, ast.Assign) and len(s.targets) == 1 and is_name(s.targets[0]) and isinstance(s.value, ast.Constant):
            got[s.targets[0].id] = s.value.value
    for k, v in NODEATTR.items():
        if got.get(k) != v:
            raise Unsupported("%s: NodeAttr.%s is no longer %r: %r" % (REL_ATTRS, k, v, got.get(k)))


HEADER = """(* GENERATED by harness/translate_candgraph.py from src/funtracks/candidate_graph/{utils,iou,compute_graph}.py
   sha256=%s -- do not edit.
   Shallow embedding over the data representation of Model/CandGraph.v; the idiom table is at the top of the
   translator, the combinators in Model/PyRt5.v (+ Model/NpRt.v, Base/Dict.v); tied to the hand model in
   Proofs/CandGraphTie.v. *)
From Coq Require Import ZArith List Bool.
From FT Require Import Base.Dict Model.NpRt Model.PyRt5.
Import ListNotations.
Open Scope Z_scope.

(* scipy's KDTree, skimage's regionprops and the number of axes of the label array (which the flat-frame
   representation does not record): nothing is assumed about them here. *)
Section Oracles.
Variables Dist KDTree RegionProp : Type.
Variable scipy_KDTree : list (list Z) -> KDTree.                            (* KDTree(positions) *)
Variable kd_query_ball_tree : KDTree -> KDTree -> Dist -> list (list Z).    (* T1.query_ball_tree(T2, r) *)
Variable skimage_regionprops : list Z -> list Z -> list RegionProp.         (* regionprops(frame, spacing=s) *)
Variable rp_label : RegionProp -> Z.                                        (* r.label *)
Variable rp_area : RegionProp -> Z.                                         (* r.area *)
Variable rp_centroid : RegionProp -> list Z.                                (* r.centroid *)
Variable np_ndim : list (list Z) -> Z.                                      (* A.ndim *)

"""


def translate(repo=None):
    root = repo or repo_root()
    check_node_attr(root)
    defs, h = [], hashlib.sha256()
    tr = Translator("?")
    tr.pyorder = {}
    for rel, fnames, imports, has_logger in MODULES:
        src = open(os.path.join(root, rel)).read()
        h.update(src.encode())
        tr.rel = rel
        defs.extend(tr.module(src, fnames, imports, has_logger))
    return HEADER % h.hexdigest()[:16] + "\n".join(defs) + "\nEnd Oracles.\n"


def regenerate(out=None, repo=None):
    """(re)write Gen/CandGraph_gen.v from the current sources; returns (ok, message).  Fail closed: on any
    error the file written does not type-check.  The file is rewritten only when its content (ignoring the
    line with the source hash) changes."""
    out = out or OUT
    try:
        txt = translate(repo)
        ok, msg = True, "translated"
    except Unsupported as e:
        msg = str(e)
        txt, ok = None, False
    except Exception as e:       # a bug of the translator must not look like a translation
        msg = "%s: %s" % (type(e).__name__, e)
        txt, ok = None, False
    if txt is None:
        txt = "(* TRANSLATION FAILED: %s *)\nDefinition translation_failed : False := I.\n" % msg.replace("*)", "* )").replace("(*", "( *")
    os.makedirs(os.path.dirname(out), exist_ok=True)
    old = open(out).read() if os.path.exists(out) else None
    strip = lambda t: "\n".join(l for l in t.split("\n") if "sha256=" not in l)
    if old is None or strip(old) != strip(txt):
        open(out, "w").write(txt)
    return ok, msg


if __name__ == "__main__":
    if len(sys.argv) > 1 and sys.argv[1] == "--stdout":
        sys.stdout.write(translate())
    else:
        r = regenerate(out=sys.argv[1] if len(sys.argv) > 1 else None)
        print(r)
        sys.exit(0 if r[0] else 1)
