"""Differential execution of the edit state machine: implementation (funtracks from
/repo/src) vs. the extracted Coq model (coq/Model/Edit.v through build/drv_Edit), plus the
direct oracles of properties C01-C11 and C20 evaluated on the implementation after every
operation.  One scenario = configuration + initial forest (+ arrays) + operation list;
every random choice comes from one random.Random so a (seed, index) pair replays exactly.
"""
from __future__ import annotations

import copy
import json
import signal
import warnings
from collections import Counter
from fractions import Fraction

import networkx as nx
import numpy as np

warnings.simplefilter("ignore")

KEY = {"time": 0, "pos": 1, "track_id": 2, "lineage_id": 3, "area": 4, "ellipse_axis_radii": 5, "circularity": 6,
       "perimeter": 7, "iou": 8, "z": 10, "y": 11, "x": 12, "c1": 100, "c2": 101, "e1": 102, "bogus": 999}
KEYNAME = {v: k for k, v in KEY.items()}
RP_KEYS = ["pos", "area", "ellipse_axis_radii", "circularity", "perimeter"]


class Hang(Exception):
    pass


def _alarm(*a):
    raise Hang()


# --------------------------------------------------------------------------- scenario generation
def gen_config(rng, seg_p=0.5):
    ndim = rng.choice([3, 3, 4])
    with_seg = rng.random() < seg_p
    cfg = {"ndim": ndim, "seg": with_seg, "T": rng.randint(3, 5)}
    if with_seg:
        cfg["shape"] = [5, 5] if ndim == 3 else [3, 3, 3]
        # anisotropic scales: one with voxel volume 1 and one with voxel volume != 1 (area != pixel count)
        cfg["scale"] = rng.choice([None, [1.0] * ndim, [1.0, 2.0, 0.5] if ndim == 3 else [1.0, 2.0, 1.0, 0.5],
                                   [1.0, 2.0, 0.25] if ndim == 3 else [1.0, 2.0, 1.0, 0.25], [1.0] + [0.5] * (ndim - 1)])
        extra = []
        if rng.random() < 0.5:
            extra.append("iou")
        if rng.random() < 0.3 and ndim == 3:
            extra.append("ellipse_axis_radii")
        iso = cfg["scale"] is None or len(set(cfg["scale"][1:])) == 1
        # numeric-kernel domain limits (DESIGN.md): skimage refuses 2D perimeter with anisotropic
        # spacing, and marching_cubes raises for a 3D mask that fills its whole frame
        if rng.random() < 0.25 and ndim == 3 and iso:
            extra.append("perimeter")
        if rng.random() < 0.2 and ndim == 3 and iso:
            extra.append("circularity")
        cfg["enable"] = extra
        cfg["per_axis"] = False
    else:
        cfg["scale"] = rng.choice([None, [1.0] * ndim])
        cfg["enable"] = []
        cfg["per_axis"] = rng.random() < 0.25
    cfg["custom"] = rng.random() < 0.5
    cfg["custom_edge"] = rng.random() < 0.4
    cfg["zero_ids"] = rng.random() < 0.15
    import ctor as K

    cfg["supply"] = K.choose_supply(rng, cfg)
    return cfg


def blob(rng, shape, occupied):
    """a small axis-aligned box of free pixels (flat indices, C order), or None"""
    for _ in range(20):
        lo = [rng.randrange(0, s) for s in shape]
        hi = [min(s, l + rng.randint(1, 2)) for s, l in zip(shape, lo)]
        idx = [int(np.ravel_multi_index(p, shape)) for p in np.ndindex(*[h - l for h, l in zip(hi, lo)])
               for p in [tuple(a + b for a, b in zip(p, lo))]]
        if idx and not (set(idx) & occupied):
            return sorted(idx)
    return None


def gen_forest(rng, cfg):
    T = cfg["T"]
    n = rng.randint(1, 8)
    ids = rng.sample(range(1, 40), n)
    if not cfg["seg"] and rng.random() < 0.3:
        ids[rng.randrange(n)] = 0     # node id 0 is an ordinary id when there is no label array (0-based tables)
    g = nx.DiGraph()
    seg = np.zeros((T, *cfg["shape"]), dtype=np.int64) if cfg["seg"] else None
    occ = [set() for _ in range(T)]
    for i in ids:
        t = rng.randrange(T)
        if cfg["seg"]:
            b = blob(rng, cfg["shape"], occ[t])
            if b is None:
                continue
            occ[t] |= set(b)
            seg[t].reshape(-1)[b] = i
            g.add_node(i, time=t)
        elif cfg["per_axis"]:
            a = {"time": t, "y": float(i), "x": 0.0}
            if cfg["ndim"] == 4:
                a["z"] = 0.0
            g.add_node(i, **a)
        else:
            g.add_node(i, time=t, pos=[float(i)] + [0.0] * (cfg["ndim"] - 2))
    order = list(g.nodes)
    rng.shuffle(order)
    for v in order:
        c = [u for u in g.nodes if g.nodes[u]["time"] < g.nodes[v]["time"] and g.out_degree(u) < 2]
        if c and rng.random() < 0.7:
            if cfg.get("custom_edge"):
                g.add_edge(rng.choice(c), v, e1=rng.choice([0, 0, 1, 2, 7]))   # falsy values on purpose
            else:
                g.add_edge(rng.choice(c), v)
    return g, seg


def build_tracks(cfg, g, seg):
    """SolutionTracks from the raw graph - which may carry track ids, lineage ids, positions and areas of its own
    (cfg['supply']) -, then the extra features, then the custom registrations. The raw solution and the observed
    state right after construction (and after the extra enable) are kept in cfg['_ctor'] for the constructor
    correspondence (harness/ctor.py)."""
    import sys

    import ctor as K
    from funtracks.data_model import SolutionTracks

    kw = {}
    if cfg["per_axis"]:
        kw["pos_attr"] = (["z"] if cfg["ndim"] == 4 else []) + ["y", "x"]
    sup = cfg.get("supply") or {"track": None, "lineage": None, "pos": False, "area": False, "dict": False}
    g2 = g
    fdict = None
    if any(sup.values()) and g.number_of_nodes() > 0:
        # what the data would get when computed from scratch; a solution that arrives with its own valid ids
        # (0-based: id 0 is falsy, None is not; or non-contiguous) keeps them
        ref = SolutionTracks(g.copy(), segmentation=None if seg is None else np.array(seg), ndim=cfg["ndim"], scale=cfg["scale"], **kw)
        if sup.get("dict"):
            import copy

            g2 = K.supply_all(cfg, g, ref, sup)
            fdict = copy.deepcopy(ref.features)
        else:
            g2 = K.supply(cfg, g, ref, sup)
    me = sys.modules[__name__]
    raw = K.raw_lines(me, cfg, g2, seg, kw.get("pos_attr") or ["pos"], fdict)
    if fdict is not None:
        t = SolutionTracks(g2, segmentation=seg, ndim=cfg["ndim"], scale=cfg["scale"], features=fdict)
    else:
        t = SolutionTracks(g2, segmentation=seg, ndim=cfg["ndim"], scale=cfg["scale"], **kw)
    obs = [dict(observe(t, cfg, 0, "-"), ret=0, aux=[])]
    if cfg["enable"]:
        t.enable_features(list(cfg["enable"]))
        raw.append("EN %s 1 - -" % ",".join(str(KEY[k]) for k in cfg["enable"]))
        obs.append(dict(observe(t, cfg, 0, "-"), ret=0, aux=[]))
    cfg["_ctor"] = {"lines": raw, "obs": obs}
    if cfg["custom"]:
        t.features["c1"] = {"feature_type": "node", "value_type": "int", "num_values": 1, "required": False, "default_value": None}
    if cfg.get("custom_edge"):
        t.features["e1"] = {"feature_type": "edge", "value_type": "int", "num_values": 1, "required": False, "default_value": None}
    return t


# --------------------------------------------------------------------------- observation of the implementation
def canon_value(cfg, key, v, edge=False):
    """implementation value -> comparable form"""
    if v is None:
        return None
    k = KEY.get(key)
    if k in (0, 2, 3):
        return ("z", int(v))
    if key in RP_KEYS and cfg["seg"]:
        return ("f", v)
    if key == "iou" and edge:
        return ("q", v)
    if isinstance(v, (list, tuple, np.ndarray)):
        return ("t", int(v[0]))
    if key in ("z", "y", "x"):
        return ("t", int(v))
    return ("t", int(v))


def observe(t, cfg, nrefresh, last_payload):
    g = t.graph
    a = t.track_annotator
    nodes = {}
    for n in g.nodes:
        d = {}
        for k, v in g.nodes[n].items():
            cv = canon_value(cfg, k, v)
            if cv is not None:
                d[KEY[k]] = cv
        nodes[int(n)] = d
    edges = {}
    for u, v in g.edges:
        d = {}
        for k, val in g.edges[u, v].items():
            cv = canon_value(cfg, k, val, edge=True)
            if cv is not None:
                d[KEY[k]] = cv
        edges[(int(u), int(v))] = d
    seg = None if t.segmentation is None else [[int(x) for x in fr.reshape(-1)] for fr in np.asarray(t.segmentation)]
    reg = list(t.features.keys())
    regn = sorted(KEY[k] for k in t.features.node_features)
    rege = sorted(KEY[k] for k in t.features.edge_features)
    act = {k for ann in t.annotators for k, (_, on) in ann.all_features.items() if on}
    return {
        "nodes": nodes, "edges": edges, "seg": seg,
        "tb": {int(k): sorted(int(x) for x in v) for k, v in a.tracklet_id_to_nodes.items()},
        "lb": {int(k): sorted(int(x) for x in v) for k, v in a.lineage_id_to_nodes.items()},
        "mt": int(a.max_tracklet_id), "ml": int(a.max_lineage_id),
        "u": len(t.action_history.undo_stack), "r": len(t.action_history.redo_stack),
        "rf": (nrefresh, last_payload), "nc": int(t.node_id_counter),
        "regn": regn, "rege": rege,
        "rpact": sorted(KEY[k] for k in act if k in RP_KEYS),
        "flags": (int("iou" in act), int("track_id" in act), int("lineage_id" in act)),
    }


def vtxt(cv):
    kind, v = cv
    return {"z": "z%d", "t": "t%d"}[kind] % v


# --------------------------------------------------------------------------- model lines
def init_lines(t, cfg, rp_vals=True):
    """describe the freshly built tracks to the model driver"""
    g = t.graph
    a = t.track_annotator
    L = ["S"]
    act = {k for ann in t.annotators for k, (_, on) in ann.all_features.items() if on}
    regn = [KEY[k] for k in t.features.node_features]
    rege = [KEY[k] for k in t.features.edge_features]
    pk = t.features.position_key
    pk = pk if isinstance(pk, list) else [pk]
    rpall = [KEY[k] for k in RP_KEYS] if cfg["seg"] else []
    rpact = [KEY[k] for k in RP_KEYS if k in act] if cfg["seg"] else []
    j = lambda l: ",".join(map(str, l)) if l else "-"
    L.append("F %s %s %s %s %s %d %d %d %d" % (j(regn), j(rege), j([KEY[k] for k in pk]), j(rpall), j(rpact),
                                               int(cfg["seg"]), int("iou" in act), int("track_id" in act), int("lineage_id" in act)))
    if cfg["seg"]:
        seg = np.asarray(t.segmentation)
        L.append("SEG " + ";".join(",".join(str(int(x)) for x in fr.reshape(-1)) for fr in seg))
    else:
        L.append("SEG none")
    for n in g.nodes:
        toks = []
        for k, v in g.nodes[n].items():
            if v is None:
                toks.append("%d=n" % KEY[k])
            elif k in RP_KEYS and cfg["seg"]:
                tm = g.nodes[n]["time"]
                m = np.nonzero(seg[tm].reshape(-1) == n)[0]
                toks.append("%d=r%s" % (KEY[k], ".".join(map(str, m.tolist()))))
            else:
                toks.append("%d=%s" % (KEY[k], vtxt(canon_value(cfg, k, v))))
        L.append("N %d %s" % (n, " ".join(toks)))
    for u, v in g.edges:
        toks = []
        for k, val in g.edges[u, v].items():
            if k == "iou":
                toks.append("8=" + iou_txt(t, u, v))
            elif val is not None:
                toks.append("%d=t%d" % (KEY[k], int(val)))
        L.append(("E %d %d %s" % (u, v, " ".join(toks))).rstrip())
    for k, v in a.tracklet_id_to_nodes.items():
        L.append("B T %d %s" % (k, ",".join(map(str, v))))
    for k, v in a.lineage_id_to_nodes.items():
        L.append("B L %d %s" % (k, ",".join(map(str, v))))
    L.append("M %d %d %d" % (a.max_tracklet_id, a.max_lineage_id, t.node_id_counter))
    L.append("G")
    return L


def masks(t, n):
    seg = np.asarray(t.segmentation)
    return set(np.nonzero(seg[t.get_time(n)].reshape(-1) == n)[0].tolist())


def iou_txt(t, u, v):
    a, b = masks(t, u), masks(t, v)
    i = len(a & b)
    return "i0/1" if (not a or not b or i == 0) else "i%d/%d" % (i, len(a) + len(b) - i)


def px_txt(px):
    return "-" if px is None else "%d:%s" % (px[0], ".".join(map(str, px[1])))


def to_pixels(cfg, px):
    tt, idx = px
    coords = np.unravel_index(np.array(idx, dtype=np.int64), cfg.get("shape", [5, 5] if cfg["ndim"] == 3 else [3, 3, 3]))
    return (np.full(len(idx), tt, dtype=np.int64), *coords)


# --------------------------------------------------------------------------- operations
def gen_op(rng, t, cfg, ids_seen):
    """choose the next operation by looking at the implementation state: (line for the model, thunk, kind)"""
    from funtracks.user_actions import (UserAddEdge, UserAddNode, UserDeleteEdge, UserDeleteNode, UserSwapPredecessors,
                                        UserUpdateNodeAttrs, UserUpdateSegmentation)

    g = t.graph
    ns = list(g.nodes)
    T = cfg["T"]
    if cfg.get("_plan"):
        item, cfg["_plan"] = cfg["_plan"][0], cfg["_plan"][1:]
        op = planned_op(rng, t, cfg, item)
        if op is not None:
            return op
    pick = lambda: rng.choice(ns + [99]) if ns and rng.random() < 0.93 else 99
    w = [("ae", 16), ("de", 13), ("an", 14), ("dn", 10), ("sw", 6), ("ua", 5), ("u", 11), ("r", 6), ("q", 4)]
    if cfg["seg"]:
        w.append(("p", 18))
    if cfg.get("toggles"):
        w.append(("tg", int(100 * cfg["toggles"])))
    kind = rng.choices([k for k, _ in w], [x for _, x in w])[0]
    # bursts: several undos (redos) in a row, so that new edits are made with >= 2 undone steps pending
    if cfg.get("_burst"):
        kind, cfg["_burst"] = cfg["_burst"][0], cfg["_burst"][1:]
        if kind == "E":   # any edit (made while undone steps are pending)
            ek = [k for k, _ in w if k not in ("u", "r", "q", "tg")]
            kind = rng.choices(ek, [x for k, x in w if k in ek])[0]
    elif kind == "u" and rng.random() < 0.2:
        # directed history pattern: k >= 2 undos, a new edit (the pending inverses are carried over),
        # then undo back through the carried-over section and redo again
        k = rng.randint(2, 3)
        cfg["_burst"] = ["u"] * (k - 1) + ["E"] + ["u"] * rng.randint(k + 1, k + 3) + ["r"] * rng.randint(1, k + 2)
    elif kind == "u" and rng.random() < 0.45:
        cfg["_burst"] = ["u"] * rng.randint(1, 3)
    elif kind == "r" and rng.random() < 0.3:
        cfg["_burst"] = ["r"] * rng.randint(1, 2)
    if kind == "tg":
        return gen_toggle(rng, t, cfg)
    if kind == "ae":
        r = rng.random()
        u = v = None
        if ns and r < 0.55:
            cand = [(a, b) for a in ns for b in ns if t.get_time(a) < t.get_time(b) and g.out_degree(a) < 2 and not g.has_edge(a, b)]
            roots = [(a, b) for a, b in cand if g.in_degree(b) == 0]
            pool = roots if roots and rng.random() < 0.75 else cand
            if pool:
                u, v = rng.choice(pool)
        elif ns and r < 0.72:
            cand = [(a, b) for a in ns for b in ns if t.get_time(a) < t.get_time(b) and g.in_degree(b) > 0]
            if cand:
                u, v = rng.choice(cand)
        elif ns and r < 0.82:
            cand = [(a, b) for a in ns for b in ns if t.get_time(a) >= t.get_time(b)]
            if cand:
                u, v = rng.choice(cand)
        if u is None:
            u, v = pick(), pick()
        f = rng.random() < 0.4
        # directed: re-route the later daughter of a division below its earlier sibling, forcing the
        # conflicting division edge away (the source's track changes during the call: it merges with its parent's)
        sibs = [(a, b) for pp in ns if g.out_degree(pp) == 2 for a in g.successors(pp) for b in g.successors(pp)
                if t.get_time(a) < t.get_time(b)]
        if sibs and rng.random() < 0.12:
            (u, v), f = rng.choice(sibs), True
        return "A %d %d %d" % (u, v, f), (lambda: UserAddEdge(t, (u, v), force=f)), "add_edge"
    if kind == "de":
        es = list(g.edges)
        e = rng.choice(es) if es and rng.random() < 0.88 else (pick(), pick())
        return "D %d %d" % e, (lambda: UserDeleteEdge(t, e)), "delete_edge"
    if kind == "an":
        unused = [i for i in range(1, 60) if i not in g]
        nid = rng.choice(unused) if rng.random() < 0.93 or not ns else rng.choice(ns)
        if not cfg["seg"] and 0 not in g and rng.random() < 0.1:
            nid = 0
        tm = rng.randrange(T)
        tids = sorted({t.get_track_id(x) for x in ns})
        r = rng.random()
        tid = rng.choice(tids) if tids and r < 0.6 else (t.get_next_track_id() if r < 0.8 else rng.choice([50, 51, 60]))
        # branch-directed choices: splice into a skip edge of a track / add below a division
        skips = [(a, b) for a, b in g.edges if t.get_time(b) - t.get_time(a) >= 2]
        divs = [a for a in ns if g.out_degree(a) == 2 and t.get_time(a) < T - 1]
        r3 = rng.random()
        if skips and r3 < 0.3:
            # into the empty frames under a skip edge, with the track id of either endpoint (the same id on a
            # linear track; the daughter's or the parent's id under a division edge)
            a, b = rng.choice(skips)
            tm, tid = rng.randrange(t.get_time(a) + 1, t.get_time(b)), t.get_track_id(rng.choice([a, b, b]))
        elif divs and r3 < 0.45:
            a = rng.choice(divs)
            tm, tid = rng.randrange(t.get_time(a) + 1, T), t.get_track_id(a)
        f = rng.random() < 0.4
        attrs = {"time": tm, "track_id": tid}
        toks = ["0=z%d" % tm, "2=z%d" % tid]
        r2 = rng.random()
        if r2 < 0.04:
            del attrs["time"]
            toks = [x for x in toks if not x.startswith("0=")]
        elif r2 < 0.08:
            del attrs["track_id"]
            toks = [x for x in toks if not x.startswith("2=")]
        px = None
        if cfg["seg"]:
            if rng.random() < 0.9:
                occ = set(np.nonzero(np.asarray(t.segmentation)[tm].reshape(-1))[0].tolist())
                b = blob(rng, cfg["shape"], occ)
                if b is not None:
                    px = (tm, b)
                    if rng.random() < 0.3:   # a position / area hint together with the mask
                        hint = rng.choice(["pos", "area"])
                        attrs[hint] = [float(nid)] + [0.0] * (cfg["ndim"] - 2) if hint == "pos" else float(nid)
                        toks.append("%d=t%d" % (KEY[hint], nid))
        elif rng.random() < 0.9:
            if cfg["per_axis"]:
                axes = (["z"] if cfg["ndim"] == 4 else []) + ["y", "x"]
                if rng.random() < 0.25:  # only some of the coordinates: must be refused before any sub-edit
                    axes = rng.sample(axes, rng.randint(1, len(axes) - 1))
                for ax in axes:
                    attrs[ax] = float(nid)
                    toks.append("%d=t%d" % (KEY[ax], nid))
            else:
                attrs["pos"] = [float(nid)] + [0.0] * (cfg["ndim"] - 2)
                if rng.random() < 0.4:  # one row of an (N, ndim) array, as TracksController.add_nodes hands it over
                    attrs["pos"] = np.array(attrs["pos"])
                toks.append("1=t%d" % nid)
        # malformed stream: pixels without an array (ValueError) / in a frame that does not exist
        # (IndexError): must be refused before any sub-edit (F-11d)
        r4 = rng.random()
        if not cfg["seg"] and r4 < 0.12:
            px = (tm, [0])
        elif cfg["seg"] and px is not None and r4 < 0.06:
            px = (T + rng.randrange(0, 2), px[1])
        # a caller-supplied lineage id is outside the documented domain of UserAddNode (it is
        # taken at face value); the generator never passes one - see DESIGN.md, domain limits
        pixels = None if px is None else to_pixels(cfg, px)
        ids_seen.add(nid)
        return ("AN %d %d %s %s" % (nid, f, px_txt(px), " ".join(toks))).rstrip(), (lambda: UserAddNode(t, nid, attrs, pixels=pixels, force=f)), "add_node"
    if kind == "dn":
        n_ = pick()
        # directed: delete the last node of a track, undo, cut it off its track, link it below another track,
        # then delete its former predecessor (the lookups of the old track must have forgotten the node)
        tails = [x for x in ns if g.out_degree(x) == 0 and g.in_degree(x) == 1
                 and t.get_track_id(next(iter(g.predecessors(x)))) == t.get_track_id(x)]
        if tails and rng.random() < 0.25:
            n_ = rng.choice(tails)
            cfg["_plan"] = [("undo", None), ("cut_above", n_), ("link_from_other_track", n_),
                            ("delete", next(iter(g.predecessors(n_))))]
        if cfg["seg"] and n_ in g and rng.random() < 0.3:
            # "the pixels of the node, if known": the caller hands over exactly the node's own pixels of an array it
            # has NOT painted - the same edit as without the argument
            return "DN %d" % n_, (lambda: UserDeleteNode(t, n_, pixels=t.get_pixels(n_))), "delete_node"
        return "DN %d" % n_, (lambda: UserDeleteNode(t, n_)), "delete_node"
    if kind == "sw":
        a_, b_ = pick(), pick()
        withp = [x for x in ns if g.in_degree(x) > 0]
        if withp and rng.random() < 0.7:
            a_ = rng.choice(withp)
            b_ = rng.choice(ns)
        return "SW %d %d" % (a_, b_), (lambda: UserSwapPredecessors(t, (a_, b_))), "swap"
    if kind == "ua":
        n_ = pick()
        r = rng.random()
        if r < 0.75:
            val = rng.randint(1, 9)
            key = rng.choice(["c1", "c2"])
            return "UA %d %d=t%d" % (n_, KEY[key], val), (lambda: UserUpdateNodeAttrs(t, n_, {key: val})), "update_attrs"
        # "pos" only where it is a managed (protected) feature: writing a scalar into a user-supplied
        # position vector is outside the domain
        key = rng.choice(["time", "track_id", "lineage_id", "area", "iou"] + (["pos"] if cfg["seg"] else []))
        val = rng.randint(1, 9)
        line = "UA %d %d=%s%d" % (n_, KEY[key], "z" if key in ("time", "track_id", "lineage_id") else "t", val)
        return line, (lambda: UserUpdateNodeAttrs(t, n_, {key: val})), "update_attrs_protected"
    if kind == "u":
        return "U", t.undo, "undo"
    if kind == "r":
        return "R", t.redo, "redo"
    if kind == "q":
        tids = sorted({t.get_track_id(x) for x in ns}) + [77]
        tid, tm = rng.choice(tids), rng.randint(-1, T)
        r = rng.random()
        if r < 0.4:
            return "Q %d %d" % (tid, tm), (lambda: t.get_track_neighbors(tid, tm)), "q_neighbors"
        if r < 0.7:
            return "H %d %d" % (tid, tm), (lambda: t.has_track_id_at_time(tid, tm)), "q_has_track"
        if r < 0.85:
            k = rng.randint(1, 3)
            return "I %d" % k, (lambda: t._get_new_node_ids(k)), "q_new_ids"
        return "X", (lambda: (t.get_next_track_id(), t.get_next_lineage_id())), "q_next_ids"
    # paint
    seg = np.asarray(t.segmentation)
    tm = rng.randrange(T)
    shape = cfg["shape"]
    lo = [rng.randrange(0, s) for s in shape]
    hi = [min(s, l + rng.randint(1, 3)) for s, l in zip(shape, lo)]
    idx = sorted(int(np.ravel_multi_index(tuple(a + b for a, b in zip(p, lo)), shape)) for p in np.ndindex(*[h - l for h, l in zip(hi, lo)]))
    here = sorted(set(seg[tm].reshape(-1).tolist()) - {0})
    r = rng.random()
    if r < 0.35:
        unused = [i for i in range(1, 60) if i not in g and not (seg == i).any()]
        new = rng.choice(unused)
    elif r < 0.65 and here:
        new = rng.choice(here)
    elif r < 0.73 and ns:
        new = rng.choice(ns)
    else:
        new = 0
    tids = sorted({t.get_track_id(x) for x in ns})
    tid = rng.choice(tids) if tids and rng.random() < 0.6 else t.get_next_track_id()
    f = rng.random() < 0.4
    # directed: a new label over ALL pixels of both daughters of one division, into the dividing parent's track
    # (the nested UserAddNode is refused after two UserDeleteNode sub-edits: rollback of several dependent groups)
    fam = [(pp, list(g.successors(pp))) for pp in ns if g.out_degree(pp) == 2]
    fam = [(pp, ds) for pp, ds in fam if t.get_time(ds[0]) == t.get_time(ds[1])]
    if fam and rng.random() < 0.12:
        pp, ds = rng.choice(fam)
        tm = int(t.get_time(ds[0]))
        fl = seg[tm].reshape(-1)
        idx = sorted(int(i) for i in np.nonzero((fl == ds[0]) | (fl == ds[1]))[0])
        if idx:
            unused = [i for i in range(1, 60) if i not in g and not (seg == i).any()]
            # the refusal must survive the deletion of the daughters: take the track of ANOTHER dividing node
            others = [q for q in ns if q != pp and g.out_degree(q) == 2 and t.get_time(q) < tm]
            tid_ = int(t.get_track_id(rng.choice(others))) if others else int(t.get_track_id(pp))
            new, tid, f = rng.choice(unused), tid_, rng.random() < 0.25

    def do_paint():
        flat = t.segmentation[tm].reshape(-1)
        old = flat[idx].copy()
        changed = [i for i, o in zip(idx, old.tolist()) if o != new]
        groups = []
        for val in sorted(set(int(o) for o in old.tolist() if o != new)):
            gi = [i for i, o in zip(idx, old.tolist()) if o == val]
            groups.append((to_pixels(cfg, (tm, gi)), val))
        flat[changed] = new
        try:
            UserUpdateSegmentation(t, new, groups, current_track_id=tid, force=f)
        except BaseException:
            flat = t.segmentation[tm].reshape(-1)
            for (_, gi_val), gi in zip(groups, [[i for i, o in zip(idx, old.tolist()) if o == val] for _, val in groups]):
                flat[gi] = gi_val
            raise

    return "P %d %d %s %d %d" % (new, tm, ".".join(map(str, idx)), tid, f), do_paint, "paint"


def planned_op(rng, t, cfg, item):
    """one step of a directed pattern (see gen_toggle); None when it no longer applies"""
    from funtracks.user_actions import UserUpdateSegmentation

    kind, arg = item
    g_ = t.graph
    if kind == "undo":
        return "U", t.undo, "undo"
    if kind == "cut_above":      # delete the edge into the node
        from funtracks.user_actions import UserDeleteEdge

        if arg not in g_ or g_.in_degree(arg) != 1:
            return None
        e = (next(iter(g_.predecessors(arg))), arg)
        return "D %d %d" % e, (lambda: UserDeleteEdge(t, e)), "delete_edge"
    if kind == "link_from_other_track":   # link the node below a node of another track
        from funtracks.user_actions import UserAddEdge

        if arg not in g_ or g_.in_degree(arg) != 0:
            return None
        cand = [a for a in g_.nodes if t.get_time(a) < t.get_time(arg) and g_.out_degree(a) < 2
                and t.get_track_id(a) != t.get_track_id(arg)]
        if not cand:
            return None
        e = (rng.choice(cand), arg)
        return "A %d %d 0" % e, (lambda: UserAddEdge(t, e, force=False)), "add_edge"
    if kind == "delete":
        from funtracks.user_actions import UserDeleteNode

        if arg not in g_:
            return None
        return "DN %d" % arg, (lambda: UserDeleteNode(t, arg)), "delete_node"
    if kind == "dis":
        ks = list(arg)
        return "DIS %s" % ",".join(str(KEY[k]) for k in ks), (lambda: t.disable_features(ks)), "disable"
    if kind == "en":
        ks, rc = arg
        return "EN %s %d - -" % (",".join(str(KEY[k]) for k in ks), rc), (lambda: t.enable_features(list(ks), recompute=bool(rc))), "enable"
    if kind == "erase_overlap":
        u, v = arg
        g = t.graph
        if u not in g or v not in g or t.segmentation is None:
            return None
        seg = np.asarray(t.segmentation)
        A = set(np.nonzero(seg[t.get_time(u)].reshape(-1) == u)[0].tolist())
        B = set(np.nonzero(seg[t.get_time(v)].reshape(-1) == v)[0].tolist())
        ov = sorted(A & B)
        if not ov:
            return None
        node, tm, rest = (v, t.get_time(v), B - set(ov)) if len(B) > len(ov) else (u, t.get_time(u), A - set(ov))
        if not rest:
            return None
        idx = ov
        tid = t.get_track_id(node)

        def do_erase():
            flat = t.segmentation[tm].reshape(-1)
            old = flat[idx].copy()
            groups = []
            for val in sorted(set(int(o) for o in old.tolist() if o != 0)):
                gi = [i for i, o in zip(idx, old.tolist()) if o == val]
                groups.append((to_pixels(cfg, (tm, gi)), val))
            flat[[i for i, o in zip(idx, old.tolist()) if o != 0]] = 0
            try:
                UserUpdateSegmentation(t, 0, groups, current_track_id=tid, force=False)
            except BaseException:
                flat = t.segmentation[tm].reshape(-1)
                flat[idx] = old
                raise

        return "P 0 %d %s %d 0" % (tm, ".".join(map(str, idx)), tid), do_erase, "paint"
    return None


def toggle_domain(cfg):
    """managed keys the generator may switch (numeric-kernel domain limits respected)"""
    ks = []
    if cfg["seg"]:
        ks += ["pos", "area", "iou"]
        iso = cfg["scale"] is None or len(set(cfg["scale"][1:])) == 1
        if cfg["ndim"] == 3:
            ks.append("ellipse_axis_radii")
            if iso:
                ks += ["perimeter", "circularity"]
    return ks


def comps_txt(comps):
    return ";".join(",".join(str(int(n)) for n in c) for c in comps) if comps else "-"


def gen_toggle(rng, t, cfg):
    g = t.graph
    dom = toggle_domain(cfg)
    act = {k for ann in t.annotators for k, (_, on) in ann.all_features.items() if on}
    r = rng.random()
    # directed patterns: (a) disable iou, make an overlap vanish, enable iou again (bulk must write the 0);
    # (b) register a disabled key without recomputation, then enable it with recomputation
    if cfg["seg"] and "iou" in act and rng.random() < 0.25:
        es = [(u, w) for u, w in g.edges if g.edges[u, w].get("iou")]
        if es:
            cfg["_plan"] = [("erase_overlap", rng.choice(es)), ("en", (["iou"], 1))]
            return planned_op(rng, t, cfg, ("dis", ["iou"]))
    if rng.random() < 0.06:
        # the empty subset ("the newly ticked features", none ticked): nothing may be computed or switched
        if rng.random() < 0.6:
            return "EN - 1 - -", (lambda: t.enable_features([])), "enable"
        return "DIS -", (lambda: t.disable_features([])), "disable"
    off = [k for k in dom if k not in act]
    if off and rng.random() < 0.2:
        k = rng.choice(off)
        cfg["_plan"] = [("en", ([k], 1))]
        return planned_op(rng, t, cfg, ("en", ([k], 0)))
    if r < 0.55:
        pool = dom + ["track_id", "lineage_id"]
        ks = rng.sample(pool, rng.randint(1, min(3, len(pool))))
        if rng.random() < 0.15:
            ks.insert(rng.randrange(len(ks) + 1), "bogus")
        # the answers of the component oracle, computed the way the annotator will
        ctrk = clin = None
        if "bogus" not in ks:
            if "track_id" in ks:
                cp = g.copy()
                for p_ in [n for n, d in g.out_degree() if d >= 2]:
                    for d_ in list(g.successors(p_)):
                        cp.remove_edge(p_, d_)
                ctrk = [list(c) for c in nx.weakly_connected_components(cp)]
            if "lineage_id" in ks:
                clin = [list(c) for c in nx.weakly_connected_components(g)]
        line = "EN %s 1 %s %s" % (",".join(str(KEY[k]) for k in ks), comps_txt(ctrk), comps_txt(clin))
        return line, (lambda: t.enable_features(list(ks))), "enable"
    pool = [k for k in dom if k in act] or dom or ["bogus"]
    ks = rng.sample(pool, rng.randint(1, min(2, len(pool))))
    if rng.random() < 0.2:
        ks.insert(rng.randrange(len(ks) + 1), "bogus")
    if not cfg["seg"] and "bogus" not in ks:
        ks = ["bogus"]
    return "DIS %s" % ",".join(str(KEY[k]) for k in ks), (lambda: t.disable_features(list(ks))), "disable"


def classify(exc):
    from funtracks.exceptions import InvalidActionError

    if isinstance(exc, InvalidActionError):
        return 11 if exc.forceable else 10
    if isinstance(exc, Hang):
        return 15
    if isinstance(exc, IndexError):
        return 16
    if isinstance(exc, KeyError):
        return 13
    if isinstance(exc, nx.NetworkXError):
        return 14
    if isinstance(exc, ValueError):
        return 12
    return 99


def run_scenario(seed, idx, nsteps=None, seg_p=0.5, on_step=None, toggles=0.0):
    """returns dict(lines, obs (one per line that produces a record), kinds, cfg)"""
    import random

    rng = random.Random(repr((seed, idx)))
    cfg = gen_config(rng, seg_p)
    cfg["toggles"] = toggles
    g, seg = gen_forest(rng, cfg)
    t = build_tracks(cfg, g, seg)
    ctor_rec = cfg.pop("_ctor", None)
    cnt = [0, "-"]

    def on_refresh(*a):
        cnt[0] += 1
        cnt[1] = "n" if (not a or a[0] is None) else str(int(a[0]))

    t.refresh.connect(on_refresh)
    if on_step is not None:
        on_step.start(t, cfg)
    lines = init_lines(t, cfg)
    obs = [dict(observe(t, cfg, cnt[0], cnt[1]), ret=0, aux=[])]
    kinds = ["init"]
    ids_seen = set(g.nodes)
    n = nsteps if nsteps is not None else rng.randint(4, 22)
    old = signal.signal(signal.SIGALRM, _alarm)
    hung = False
    try:
        for _ in range(n):
            line, thunk, kind = gen_op(rng, t, cfg, ids_seen)
            before = on_step.before(t) if on_step else None
            aux = []
            signal.setitimer(signal.ITIMER_REAL, 3.0)
            try:
                r = thunk()
                if isinstance(r, bool):
                    code = 1 if r else 2
                elif kind == "q_neighbors":
                    code, aux = 0, [-1 if x is None else int(x) for x in r]
                elif kind in ("q_new_ids", "q_next_ids"):
                    code, aux = 0, [int(x) for x in r]
                else:
                    code = 0
            except Hang:
                code = 15
                hung = True
            except Exception as e:  # noqa: BLE001
                code = classify(e)
            finally:
                signal.setitimer(signal.ITIMER_REAL, 0)
            lines.append(line)
            kinds.append(kind)
            o = dict(observe(t, cfg, cnt[0], cnt[1]), ret=code, aux=aux)
            obs.append(o)
            if on_step:
                on_step.after(t, line, kind, code, before, o)
            if hung:
                break
    finally:
        signal.signal(signal.SIGALRM, old)
    cfg.pop("_burst", None)
    cfg.pop("_plan", None)
    return {"lines": lines, "obs": obs, "kinds": kinds, "cfg": cfg, "seed": seed, "index": idx, "tracks": t, "ctor": ctor_rec}


# --------------------------------------------------------------------------- model output parsing and comparison
def parse_attrs(s):
    d = {}
    if s:
        for kvp in s.split(","):
            k, v = kvp.split("=", 1)
            d[int(k)] = v
    return d


def parse_record(line):
    rec = dict(f.split("=", 1) for f in line.split("|"))
    out = {"ret": int(rec["ret"]), "aux": [int(x) for x in rec["aux"].split(",")] if rec["aux"] else []}
    nodes = {}
    if rec["nodes"]:
        for item in rec["nodes"].split(";"):
            nid, rest = item.split("{", 1)
            nodes[int(nid)] = parse_attrs(rest[:-1])
    edges = {}
    if rec["edges"]:
        for item in rec["edges"].split(";"):
            uv, rest = item.split("{", 1)
            u, v = uv.split("-") if not uv.startswith("-") else (None, None)
            edges[(int(u), int(v))] = parse_attrs(rest[:-1])
    out["nodes"], out["edges"] = nodes, edges
    out["seg"] = None if rec["seg"] == "none" else [[int(x) for x in fr.split(",")] if fr else [] for fr in rec["seg"].split(";")]

    def book(s):
        d = {}
        if s:
            for item in s.split(";"):
                k, l = item.split(":")
                d[int(k)] = sorted(int(x) for x in l.split(",")) if l else []
        return d

    out["tb"], out["lb"] = book(rec["tb"]), book(rec["lb"])
    for k in ("mt", "ml", "u", "r", "nc"):
        out[k] = int(rec[k])
    n, last = rec["rf"].split(":")
    out["rf"] = (int(n), last)
    lst = lambda s: sorted(int(x) for x in s.split(",")) if s else []
    out["regn"], out["rege"], out["rpact"] = lst(rec["regn"]), lst(rec["rege"]), lst(rec["rpact"])
    out["flags"] = tuple(int(c) for c in rec["flags"])
    return out


def rp_reference(cfg, key, t_frame_shape, mask, scale):
    """reference value of a regionprops feature from a mask (flat indices) and the scale"""
    shape = cfg["shape"]
    coords = np.array(np.unravel_index(np.array(mask, dtype=np.int64), shape)).T  # (n, d)
    sp = np.ones(len(shape)) if scale is None else np.array(scale[1:], dtype=float)
    if key == "area":
        return float(len(mask) * np.prod(sp))
    if key == "pos":
        return (coords.mean(axis=0) * sp).tolist()
    from funtracks.annotators._regionprops_extended import regionprops_extended

    arr = np.zeros(shape, dtype=np.int64)
    arr.reshape(-1)[mask] = 1
    region = regionprops_extended(arr, spacing=None if scale is None else tuple(scale[1:]))[0]
    v = getattr(region, {"ellipse_axis_radii": "axes", "circularity": "circularity", "perimeter": "perimeter"}[key])
    return list(v) if isinstance(v, tuple) else v


def close(a, b):
    try:
        a = np.asarray(a, dtype=float)
        b = np.asarray(b, dtype=float)
    except (TypeError, ValueError):
        return a == b
    if a.shape != b.shape:
        return False
    with np.errstate(invalid="ignore"):
        return bool(np.all((a == b) | (np.abs(a - b) <= 1e-9 * np.maximum(1.0, np.abs(b))) | (np.isnan(a) & np.isnan(b))))


def cmp_attr(cfg, k, iv, mv):
    """implementation canonical value vs model text"""
    if iv is None and (mv is None or mv == "n"):
        return True
    if iv is None or mv is None or mv == "n":
        return False
    kind, v = iv
    if kind in ("z", "t"):
        return mv == "%s%d" % (kind, v)
    if kind == "f":
        if mv.startswith("t"):
            # a caller-supplied value stored under a managed key that is currently disabled (opaque token)
            try:
                tok = v[0] if isinstance(v, (list, tuple, np.ndarray)) else v
                return float(tok) == float(int(mv[1:]))
            except (TypeError, ValueError, IndexError):
                return False
        if not mv.startswith("r"):
            return False
        mask = [int(x) for x in mv[1:].split(".")] if len(mv) > 1 else []
        if not mask:
            return False
        try:
            ref = rp_reference(cfg, KEYNAME[k], None, mask, cfg["scale"])
        except Exception:  # noqa: BLE001  (degenerate mask: the reference itself is undefined)
            return False
        return close(v, ref)
    if kind == "q":
        if not mv.startswith("i"):
            return False
        a, b = mv[1:].split("/")
        return abs(float(v) - float(Fraction(int(a), int(b)))) <= 1e-12
    return False


FIELD_PROPS = {
    "ret": ["C11", "C03", "C02"], "aux": ["C06"], "nodeset": ["C01", "C03"], "edgeset": ["C01", "C03"],
    "attr:0": ["C01"], "attr:1": ["C01", "C08"], "attr:2": ["C04", "C01"], "attr:3": ["C05", "C01"],
    "attr:4": ["C08"], "attr:5": ["C08"], "attr:6": ["C08"], "attr:7": ["C08"], "attr:other": ["C01"],
    "eattr:8": ["C09"], "seg": ["C07"], "tb": ["C06"], "lb": ["C06"], "mt": ["C06"], "ml": ["C06"], "nc": ["C06"],
    "u": ["C02"], "r": ["C02"], "rf": ["C20"], "regn": ["C10"], "rege": ["C10"], "rpact": ["C10"], "flags": ["C10"],
}


def diff_step(cfg, io, mo):
    """list of field names on which implementation and model observations differ"""
    bad = []
    if io["ret"] != mo["ret"]:
        bad.append("ret")
    if io["aux"] != mo["aux"]:
        bad.append("aux")
    if set(io["nodes"]) != set(mo["nodes"]):
        bad.append("nodeset")
    if set(io["edges"]) != set(mo["edges"]):
        bad.append("edgeset")
    for n in set(io["nodes"]) & set(mo["nodes"]):
        ia, ma = io["nodes"][n], mo["nodes"][n]
        for k in set(ia) | set(ma):
            if not cmp_attr(cfg, k, ia.get(k), ma.get(k)):
                f = "attr:%d" % k if k <= 7 else "attr:other"
                if f not in bad:
                    bad.append(f)
    for e in set(io["edges"]) & set(mo["edges"]):
        ia, ma = io["edges"][e], mo["edges"][e]
        for k in set(ia) | set(ma):
            if not cmp_attr(cfg, k, ia.get(k), ma.get(k)):
                if "eattr:8" not in bad:
                    bad.append("eattr:8")
    for f in ("seg", "tb", "lb", "mt", "ml", "nc", "u", "r", "regn", "rege", "rpact", "flags"):
        if io[f] != mo[f]:
            bad.append(f)
    if (io["rf"][0], str(io["rf"][1])) != (mo["rf"][0], str(mo["rf"][1])):
        bad.append("rf")
    return bad


def compare(scn, model_lines):
    """walk one scenario; returns (steps compared, first divergence or None)"""
    cfg = scn["cfg"]
    recs = [l for l in model_lines if l.startswith("ret=")]
    steps = 0
    for i, io in enumerate(scn["obs"]):
        if i >= len(recs):
            return steps, {"step": i, "fields": ["missing-model-record"], "line": scn["lines"][-1]}
        mo = parse_record(recs[i])
        bad = diff_step(cfg, io, mo)
        steps += 1
        if bad:
            nline = len(scn["lines"]) - (len(scn["obs"]) - 1) + i - 1 if i > 0 else None
            return steps, {"step": i, "fields": bad, "op": scn["lines"][nline] if nline is not None else "init",
                           "impl": _brief(io), "model": recs[i][:600]}
    return steps, None


def compare_ctor(scn, model_lines):
    """constructor correspondence of one scenario: (records compared, first divergence or None)"""
    rec = scn.get("ctor")
    if not rec:
        return 0, None
    recs = [l for l in model_lines if l.startswith("ret=")]
    n = 0
    for i, io in enumerate(rec["obs"]):
        if i >= len(recs):
            return n, {"step": i, "fields": ["missing-model-record"], "op": "construct"}
        bad = diff_step(scn["cfg"], io, parse_record(recs[i]))
        n += 1
        if bad:
            return n, {"step": i, "fields": bad, "op": "construct" if i == 0 else rec["lines"][-1], "impl": _brief(io), "model": recs[i][:600]}
    return n, None


def _brief(o):
    o = dict(o, edges={"%d-%d" % e: v for e, v in o["edges"].items()}, seg="...")
    return json.dumps(o, default=str)[:600]


def split_model_output(lines):
    out, cur = [], None
    for l in lines:
        if l == "S":
            cur = []
            out.append(cur)
        elif cur is not None:
            cur.append(l)
    return out
