#!/bin/sh
# usage: seeded_run.sh <seeded id, e.g. C11-1> [check ids...] : run checks against a seeded change in a scratch worktree
ID=$1; shift; P=$(/venv/bin/python -c "import json,sys; print(json.load(open('/verif/seeded/$ID/meta.json'))['property'])" 2>/dev/null); P=${P:-${ID%%-*}}; CHECKS="${@:-$P}"
WT=/tmp/seedwt_$ID
git -C /repo worktree add -q --detach $WT HEAD || exit 2
git -C $WT apply /verif/seeded/$ID/patch.diff || exit 3
for c in $CHECKS; do (cd /verif && VERIF_REPO=$WT ./check $c | tail -3 | cut -c1-260); done
git -C /repo worktree remove --force $WT; git -C /repo worktree prune
# the scratch run regenerated Gen/*.v from the changed tree: put the files of /repo back
(cd /verif && PYTHONPATH=/repo/src /venv/bin/python harness/regen_all.py >/dev/null 2>&1)
