#!/bin/sh
# usage: seeded_confirm.sh <Cxx> <worktree> <n>: confirm a seeded change (demo fails with / passes without it) and store it as seeded/<Cxx>-<n>
P=$1; WT=$2; N=$3
cd "$WT" || exit 2
git diff -- src > /tmp/seedc_$P.diff
[ -s /tmp/seedc_$P.diff ] || { echo "no diff"; exit 3; }
PYTHONPATH=$WT/src /venv/bin/python demo_$P.py >/tmp/seedc_$P.with 2>&1; W=$?
git apply -R /tmp/seedc_$P.diff || exit 4
PYTHONPATH=$WT/src /venv/bin/python demo_$P.py >/tmp/seedc_$P.without 2>&1; WO=$?
git apply /tmp/seedc_$P.diff || exit 5
echo "$P: demo exit with=$W without=$WO"
if [ $W -ne 0 ] && [ $WO -eq 0 ]; then
  D=/verif/seeded/$P-$N; mkdir -p $D; cp /tmp/seedc_$P.diff $D/patch.diff; cp demo_$P.py $D/demo.py
  tail -5 /tmp/seedc_$P.with | grep -v conda > $D/demo_with.txt; tail -3 /tmp/seedc_$P.without | grep -v conda > $D/demo_without.txt
  echo stored $D
fi
