"""Fail-closed translator: feature switching (property C10)  ->  coq/Gen/Toggle_gen.v

Sources (below $VERIF_REPO/src/funtracks, default /repo) and what is translated, in this order:
  annotators/_graph_annotator.py      class GraphAnnotator:      activate_features, deactivate_features,
                                                                 features (property), _filter_feature_keys
  annotators/_annotator_registry.py   class AnnotatorRegistry:   all_features, features (properties), compute,
                                                                 activate_features, deactivate_features
  data_model/tracks.py                class Tracks:              enable_features, disable_features
  actions/update_node_attrs.py        class UpdateNodeAttrs:     __init__ up to and including the protected-key
                                                                 loop (the rest of __init__ must be, literally,
                                                                 the four statements TAIL below)
One Gallina definition `gen_<Class>_<method>` each (a leading `_` of the method name is dropped;
`gen_UpdateNodeAttrs_init_check`).  Proofs/ToggleTie.v proves every generated definition equal to the
hand-written model (Model/Toggle.v: set_flags, register, unregister, available, enable_features,
disable_features, the bulk computation; Model/Edit.v: the refusal of do_upd_attrs), so a change of
the Python changes the generated text and un-hooks the tie.

Anything not listed below raises `Unsupported("<file>:<line>: ...")`; nothing is guessed or skipped.
This table, the emitter below and Model/PyRt4.v (object representation + combinators) are the trusted part.

CLOSED IDIOM TABLE        (s = the model state = the Tracks object with everything reachable from it;
                           Python variable x = Gallina variable v_x; re-assignment = shadowing `let`)
 -- skipped (nothing else is)
 docstrings; parameter / return annotations (they only select the types below; the annotation of `x: T = e`
 is ignored); defaults of parameters (only None / True / False are accepted; every parameter is explicit in
 Gallina); `super().__init__(tracks)` as first statement of UpdateNodeAttrs.__init__ (stores self.tracks);
 the text of exception messages.  Decorators other than @property, and any class-level statement that
 rebinds a translated method, are Unsupported; so is a RegionpropsAnnotator / EdgeAnnotator / TrackAnnotator
 that defines or assigns activate_features, deactivate_features, features, _filter_feature_keys,
 all_features, __getattr__, __getattribute__ or __setattr__ (the translated base-class code would not be
 what runs), and a Tracks._get_annotators that does not append exactly RegionpropsAnnotator, EdgeAnnotator,
 TrackAnnotator, in this order (the order of `registry`)
 -- objects (receivers; representation in Model/PyRt4.v)
 self           in GraphAnnotator          the annotator's identity  self : ann
 self           in AnnotatorRegistry       the registry = tracks.annotators;  `for a in self` iterates `registry`
 self / tracks  in Tracks / UpdateNodeAttrs.__init__     the state s
 T.annotators                              the registry
 T.features                                the FeatureDict:  features_of s  /  put_features s d
 T.features.time_key                       KTime
 A.all_features        (A an annotator: GraphAnnotator's self, or a loop variable over the registry)
                                           ann_table s A       (a field; binding a name to it is Unsupported: alias)
 A.all_features[k] = v                     let s := ann_put s A (set k v (ann_table s A)) in ..
 A.features   R.all_features   R.features  (properties: a fresh dict per read)
                                           gen_GraphAnnotator_features s A    gen_AnnotatorRegistry_all_features s
                                           gen_AnnotatorRegistry_features s
 A.activate_features(l)  A.deactivate_features(l)       do _u, s <- gen_GraphAnnotator_.. s A l; ..
 A.compute(ko)                                          do _u, s <- ann_compute s A ko ctrk clin; ..   (PyRt4: the model's
                                                        rp_compute / iou_compute / trk_compute, by the annotator's class)
 R.activate_features(l)  R.deactivate_features(l)       do _u, s <- gen_AnnotatorRegistry_.. s l; ..
 R.compute(l)                                           do _u, s <- gen_AnnotatorRegistry_compute s (Some l) ctrk clin; ..
                                           (ctrk, clin: the nx.weakly_connected_components oracle; extra parameters of
                                            `compute` and `enable_features`)
 T.features[k] = v                         let s := put_features s (set k v (features_of s)) in ..
 del T.features[k]                         do d, s <- py_dict_del s k (features_of s); let s := put_features s d in ..  (KeyError)
 -- parameter types (by annotation)
 list[str] -> list Z;   list[str] | None -> option (list Z);   bool -> bool;   dict[str, Any] -> attrs;
 Node -> Z;   Tracks -> the state
 -- statements
 x = e;  x: T = e                          let v_x := e in ..
 a, b = e      (e a (Feature, bool) entry; `_` allowed)         let '(v_a, v_b) := e in ..
 x.update(e)   (x a local dict bound to `{}`)                   let v_x := update v_x e in ..
 x.add(e)      (x a local set)                                  let v_x := py_set_add e v_x in ..
 if c: A else: B ; rest                    if c then <A; rest> else <B; rest>      (the rest is duplicated)
 if x is None: / if x is not None:  (x : option)                match v_x with None => .. | Some v_x => .. end
 if l:  (l a list)                         if negb (py_is_nil v_l) then .. else ..
 for x in l: body ; rest                   effectful method:  bind (py_for l <carried> s (fun v_x <carried> s => body)) (fun <carried> s => rest)
                                           pure method:       let <carried> := fold_left (fun <carried> v_x => body) l <carried> in rest
                                           l: a list of keys, `self` (registry), or a dict[str, Any] parameter (its keys);
                                           <carried> = the locals assigned in the body that exist before the loop;
                                           no return / break / continue inside a loop
 return e                                  Ok e s  (effectful)  |  e  (pure);   falling off the end: Ok tt s
 raise KeyError(msg) / ValueError(msg)     Err EKey s / Err EValue s      (msg: a string or an f-string over locals,
                                           conversions !r !s allowed: evaluating it cannot raise)
 -- a method is PURE (emitted as a plain function of s) when it contains no raise, no d[k] read, no
 -- assignment / del through an object and no call of an effectful method; otherwise it lives in `res`
 -- expressions (a raising sub-expression is bound first: do t, s <- ..; not allowed in a pure method
 --              or where evaluation is conditional)
 d[k]   (d a dict)                         do t, s <- py_dict_get s k d; ..                       (KeyError)
 k in d / k not in d   (dict)              haskey k d / negb (haskey k d)
 k in l / k not in l   (list, set)         memz k l / negb (memz k l)
 not c                                     negb c
 True False                                true false
 (a, b)   (Feature, bool)                  (a, b)
 x = {}                                    no code: x stands for [] until its first x.update(e), which types it
 d.keys()   list(e)   set(e)               keys d     e     py_set e
 [x for x in l if c]                       filter (fun v_x => c) l
 {k: v for k, (a, b) in d.items() if c}    fold_left (fun acc '(v_k, (v_a, v_b)) => if c then set k v acc else acc) d []   (typed binders)
"""
import ast
import hashlib
import os
import sys


class Unsupported(Exception):
    pass


REPO = os.environ.get("VERIF_REPO", "/repo")
OUT = "/verif/coq/Gen/Toggle_gen.v"

# (file, class, [(method, is_property)])  -- translated in this order
UNITS = [
    ("annotators/_graph_annotator.py", "GraphAnnotator",
     [("activate_features", False), ("deactivate_features", False), ("features", True), ("_filter_feature_keys", False)]),
    ("annotators/_annotator_registry.py", "AnnotatorRegistry",
     [("all_features", True), ("features", True), ("compute", False), ("activate_features", False), ("deactivate_features", False)]),
    ("data_model/tracks.py", "Tracks", [("enable_features", False), ("disable_features", False)]),
    ("actions/update_node_attrs.py", "UpdateNodeAttrs", [("__init__", False)]),
]
# the annotator classes must not override what is translated from their base class
SUBCLASSES = [("annotators/_regionprops_annotator.py", "RegionpropsAnnotator"), ("annotators/_edge_annotator.py", "EdgeAnnotator"),
              ("annotators/_track_annotator.py", "TrackAnnotator")]
NO_OVERRIDE = {"activate_features", "deactivate_features", "features", "_filter_feature_keys", "all_features", "__getattr__",
               "__getattribute__", "__setattr__"}
BASES = {"GraphAnnotator": [], "AnnotatorRegistry": ["list[GraphAnnotator]"], "Tracks": [], "UpdateNodeAttrs": ["BasicAction"]}
# the remainder of UpdateNodeAttrs.__init__ (the model's do_upd_attrs after its refusal test)
TAIL = ["self.node = node", "self.prev_attrs = {attr: self.tracks.get_node_attr(node, attr) for attr in attrs}",
        "self.new_attrs = attrs", "self._apply()"]
ORACLE = {"compute", "enable_features"}                      # methods with the component-oracle parameters
EFFECT_CALLS = {"activate_features", "deactivate_features", "compute", "enable_features", "disable_features"}

ANNOT = {"list[str]": "keys", "list[str] | None": "optkeys", "None | list[str]": "optkeys", "bool": "bool",
         "dict[str, Any]": "attrs", "Node": "Z", "Tracks": "TRACKS"}
COQTY = {"keys": "list Z", "optkeys": "option (list Z)", "bool": "bool", "attrs": "attrs", "Z": "Z", "key": "Z", "table": "table",
         "fdict": "dict ftype", "entry": "(ftype * bool)", "ftype": "ftype", "ann": "ann", "set": "list Z", "unit": "unit"}

CUR = {"file": "?", "n": 0, "cls": None, "pure": False, "done": set()}


def fail(node, why):
    raise Unsupported("%s:%s: %s: %s" % (CUR["file"], getattr(node, "lineno", "?"), why, ast.dump(node)[:160] if isinstance(node, ast.AST) else node))


def fresh(prefix):
    CUR["n"] += 1
    return "%s%d" % (prefix, CUR["n"])


class V:
    """a translated expression: Coq text, type; alias = it denotes a mutable field of an object;
    fresh = a dict / set created by this expression (safe to mutate through a local name)"""

    def __init__(self, coq, ty, alias=False, fresh=False):
        self.coq, self.ty, self.alias, self.fresh = coq, ty, alias, fresh


def cname(x):
    return "_" if x == "_" else "v_" + x


def ind(txt):
    return "\n".join("  " + l for l in txt.split("\n"))


def need(method):
    """a generated definition may only be referred to after it has been emitted"""
    if method not in CUR["done"]:
        raise Unsupported("%s: reference to %s before its translation" % (CUR["file"], method))
    return method


def is_docstring(s):
    return isinstance(s, ast.Expr) and isinstance(s.value, ast.Constant) and isinstance(s.value.value, str)


def is_none(n):
    return isinstance(n, ast.Constant) and n.value is None


# --------------------------------------------------------------------------- expressions
def ex(n, env, pre):
    """translate an expression; `pre` collects the raising sub-expressions (name, term) that must be
    bound first, in evaluation order (None: not allowed here)"""

    def hoist(term, ty, prefix="t"):
        if pre is None or CUR["pure"]: fail(n, "raising expression not allowed in this position")
        x = fresh(prefix)
        pre.append((x, term))
        return V(x, ty)

    if isinstance(n, ast.Constant):
        if type(n.value) is bool: return V("true" if n.value else "false", "bool")
        fail(n, "constant")
    if isinstance(n, ast.Name):
        if n.id in env: return env[n.id]
        fail(n, "unknown (or possibly unbound) variable")
    if isinstance(n, ast.Attribute):
        b = ex(n.value, env, pre)
        a = n.attr
        if b.ty == "ann":
            if a == "all_features": return V("(ann_table s %s)" % b.coq, "table", alias=True)
            if a == "features": return V("(%s s %s)" % (need("gen_GraphAnnotator_features"), b.coq), "fdict", fresh=True)
        if b.ty == "REGISTRY":
            if a == "all_features": return V("(%s s)" % need("gen_AnnotatorRegistry_all_features"), "table", fresh=True)
            if a == "features": return V("(%s s)" % need("gen_AnnotatorRegistry_features"), "fdict", fresh=True)
        if b.ty == "TRACKS":
            if a == "annotators": return V("", "REGISTRY")
            if a == "features": return V("(features_of s)", "FEATURES", alias=True)
        if b.ty == "FEATURES" and a == "time_key": return V("KTime", "key")
        fail(n, "attribute")
    if isinstance(n, ast.Tuple) and len(n.elts) == 2 and isinstance(n.ctx, ast.Load):
        x, y = ex(n.elts[0], env, pre), ex(n.elts[1], env, pre)
        if x.ty == "ftype" and y.ty == "bool": return V("(%s, %s)" % (x.coq, y.coq), "entry")
        fail(n, "tuple")
    if isinstance(n, ast.Dict) and not n.keys: return V("(@nil (Z * _))", "emptydict", fresh=True)
    if isinstance(n, ast.Subscript) and isinstance(n.ctx, ast.Load):
        d = ex(n.value, env, pre); k = ex(n.slice, env, pre)
        if k.ty != "key": fail(n, "subscript index")
        if d.ty == "table": return hoist("py_dict_get s %s %s" % (k.coq, d.coq), "entry")
        if d.ty in ("fdict", "FEATURES"): return hoist("py_dict_get s %s %s" % (k.coq, d.coq), "ftype")
        fail(n, "subscript")
    if isinstance(n, ast.UnaryOp) and isinstance(n.op, ast.Not):
        v = ex(n.operand, env, pre)
        if v.ty != "bool": fail(n, "not of a non-boolean")
        return V("(negb %s)" % v.coq, "bool")
    if isinstance(n, ast.Compare) and len(n.ops) == 1 and isinstance(n.ops[0], (ast.In, ast.NotIn)):
        k, d = ex(n.left, env, pre), ex(n.comparators[0], env, pre)
        if k.ty != "key": fail(n, "membership test of a non-key")
        if d.ty in ("table", "fdict", "FEATURES"): t = "(haskey %s %s)" % (k.coq, d.coq)
        elif d.ty in ("keys", "set"): t = "(memz %s %s)" % (k.coq, d.coq)
        else: fail(n, "membership test in %s" % d.ty)
        return V(t if isinstance(n.ops[0], ast.In) else "(negb %s)" % t, "bool")
    if isinstance(n, ast.ListComp) and len(n.generators) == 1:
        g = n.generators[0]
        if g.is_async or not isinstance(g.target, ast.Name) or len(g.ifs) != 1: fail(n, "comprehension")
        x = g.target.id
        if not (isinstance(n.elt, ast.Name) and n.elt.id == x) or x in env: fail(n, "comprehension element / target")
        it = ex(g.iter, env, pre)
        if it.ty != "keys": fail(n, "comprehension over %s" % it.ty)
        e2 = dict(env); e2[x] = V(cname(x), "key")
        c = ex(g.ifs[0], e2, None)
        if c.ty != "bool": fail(n, "comprehension filter")
        return V("(filter (fun %s => %s) %s)" % (cname(x), c.coq, it.coq), "keys", fresh=True)
    if isinstance(n, ast.DictComp) and len(n.generators) == 1:
        # {k: v for k, (a, b) in d.items() if c}
        g = n.generators[0]; t = g.target
        ok = (not g.is_async and len(g.ifs) == 1 and isinstance(t, ast.Tuple) and len(t.elts) == 2 and isinstance(t.elts[0], ast.Name)
              and isinstance(t.elts[1], ast.Tuple) and len(t.elts[1].elts) == 2 and all(isinstance(e, ast.Name) for e in t.elts[1].elts)
              and isinstance(g.iter, ast.Call) and isinstance(g.iter.func, ast.Attribute) and g.iter.func.attr == "items"
              and not g.iter.args and not g.iter.keywords)
        if not ok: fail(n, "dict comprehension")
        d = ex(g.iter.func.value, env, pre)
        if d.ty != "table": fail(n, "dict comprehension over %s" % d.ty)
        k, a, b = t.elts[0].id, t.elts[1].elts[0].id, t.elts[1].elts[1].id
        if len({k, a, b}) != 3 or any(x in env for x in (k, a, b)): fail(n, "comprehension targets must be new, distinct names")
        e2 = dict(env); e2[k] = V(cname(k), "key"); e2[a] = V(cname(a), "ftype"); e2[b] = V(cname(b), "bool")
        c = ex(g.ifs[0], e2, None); kk = ex(n.key, e2, None); vv = ex(n.value, e2, None)
        if c.ty != "bool" or kk.ty != "key" or vv.ty != "ftype": fail(n, "dict comprehension parts")
        return V("(fold_left (fun (acc : dict ftype) '((%s, (%s, %s)) : Z * (ftype * bool)) => if %s then set %s %s acc else acc) %s (@nil (Z * ftype)))"
                 % (cname(k), cname(a), cname(b), c.coq, kk.coq, vv.coq, d.coq), "fdict", fresh=True)
    if isinstance(n, ast.Call):
        f, args = n.func, n.args
        if n.keywords: fail(n, "keyword arguments")
        if isinstance(f, ast.Name) and len(args) == 1:
            v = ex(args[0], env, pre)
            if f.id == "list" and v.ty == "keys": return V(v.coq, "keys", fresh=True)
            if f.id == "set" and v.ty == "keys": return V("(py_set %s)" % v.coq, "set", fresh=True)
            fail(n, "call of %s on %s" % (f.id, v.ty))
        if isinstance(f, ast.Attribute) and f.attr == "keys" and not args:
            d = ex(f.value, env, pre)
            if d.ty in ("table", "fdict", "FEATURES"): return V("(keys %s)" % d.coq, "keys", fresh=True)
            fail(n, "keys() of %s" % d.ty)
        fail(n, "call")
    fail(n, "expression")


def message(n, env):
    """an exception text: a constant or an f-string whose holes are local variables"""
    if isinstance(n, ast.Constant) and isinstance(n.value, str): return
    if isinstance(n, ast.JoinedStr):
        for p in n.values:
            if isinstance(p, ast.Constant): continue
            if (isinstance(p, ast.FormattedValue) and p.format_spec is None and p.conversion in (-1, 114, 115)
                    and isinstance(p.value, ast.Name) and p.value.id in env and env[p.value.id].ty in COQTY): continue
            fail(n, "message")
        return
    fail(n, "message")


# --------------------------------------------------------------------------- statements
def binds(pre):
    return "".join("do %s, s <- %s;\n" % (x, t) for x, t in pre)


def assigned(stmts):
    out = []

    def add(x):
        if x != "_" and x not in out: out.append(x)
    for s in stmts:
        if isinstance(s, ast.Assign):
            for t in s.targets:
                for e in (t.elts if isinstance(t, ast.Tuple) else [t]):
                    if isinstance(e, ast.Name): add(e.id)
        elif isinstance(s, ast.AnnAssign) and isinstance(s.target, ast.Name): add(s.target.id)
        elif isinstance(s, ast.If): [add(x) for x in assigned(s.body) + assigned(s.orelse)]
        elif isinstance(s, ast.For): [add(x) for x in assigned(s.body)]
        elif (isinstance(s, ast.Expr) and isinstance(s.value, ast.Call) and isinstance(s.value.func, ast.Attribute)
              and s.value.func.attr in ("update", "add") and isinstance(s.value.func.value, ast.Name)):
            add(s.value.func.value.id)
    return out


def terminates(stmts):
    if not stmts: return False
    s = stmts[-1]
    if isinstance(s, (ast.Raise, ast.Return)): return True
    if isinstance(s, ast.If): return bool(s.orelse) and terminates(s.body) and terminates(s.orelse)
    return False


def tuple_val(names, env):
    if not names: return "tt"
    vals = [env[x].coq for x in names]
    return vals[0] if len(vals) == 1 else "(%s)" % ", ".join(vals)


def tuple_pat(names):
    if not names: return "(_ : unit)"
    if len(names) == 1: return cname(names[0])
    return "'(%s)" % ", ".join(cname(x) for x in names)


def tuple_ty(names, env):
    return " * ".join(COQTY[env[x].ty] for x in names) if names else "unit"


def dead(env):
    raise Unsupported("%s: internal: continuation of a block that cannot fall through" % CUR["file"])


def cond(t, env, kt, kf):
    """a statement condition; kt / kf build the branches from the (narrowed) environment"""
    if isinstance(t, ast.UnaryOp) and isinstance(t.op, ast.Not) and isinstance(t.operand, ast.Name) and env.get(t.operand.id) and env[t.operand.id].ty == "keys":
        return cond(t.operand, env, kf, kt)
    if (isinstance(t, ast.Compare) and len(t.ops) == 1 and isinstance(t.ops[0], (ast.Is, ast.IsNot)) and is_none(t.comparators[0])):
        x = t.left
        if not (isinstance(x, ast.Name) and x.id in env and env[x.id].ty == "optkeys"): fail(t, "None test")
        v = env[x.id]
        e1 = dict(env); e1[x.id] = V(v.coq, "keys")
        some, none = (kt(e1), kf(dict(env))) if isinstance(t.ops[0], ast.IsNot) else (kf(e1), kt(dict(env)))
        return "match %s with\n| None =>\n%s\n| Some %s =>\n%s\nend" % (v.coq, ind(none), v.coq, ind(some))
    if isinstance(t, ast.Name) and t.id in env and env[t.id].ty == "keys":
        return "if negb (py_is_nil %s)\nthen\n%s\nelse\n%s" % (env[t.id].coq, ind(kt(dict(env))), ind(kf(dict(env))))
    c = ex(t, env, None)
    if c.ty != "bool": fail(t, "condition of type %s" % c.ty)
    return "if %s\nthen\n%s\nelse\n%s" % (c.coq, ind(kt(dict(env))), ind(kf(dict(env))))


def method_call(c, env, pre):
    """an expression statement `recv.m(args)` with an effect -> (bound name, monadic term) or None"""
    f = c.func
    if not (isinstance(f, ast.Attribute) and not c.keywords): return None
    m = f.attr
    if m not in EFFECT_CALLS: return None
    recv = ex(f.value, env, None)
    args = [ex(a, env, pre) for a in c.args]
    if recv.ty == "ann":
        if m in ("activate_features", "deactivate_features") and len(args) == 1 and args[0].ty == "keys":
            return "%s s %s %s" % (need("gen_GraphAnnotator_" + m), recv.coq, args[0].coq)
        if m == "compute" and len(args) == 1 and args[0].ty in ("keys", "optkeys"):
            CUR["oracle_used"] = True
            return "ann_compute s %s %s ctrk clin" % (recv.coq, args[0].coq if args[0].ty == "optkeys" else "(Some %s)" % args[0].coq)
    if recv.ty == "REGISTRY":
        if m in ("activate_features", "deactivate_features") and len(args) == 1 and args[0].ty == "keys":
            return "%s s %s" % (need("gen_AnnotatorRegistry_" + m), args[0].coq)
        if m == "compute" and len(args) == 1 and args[0].ty in ("keys", "optkeys"):
            CUR["oracle_used"] = True
            return "%s s %s ctrk clin" % (need("gen_AnnotatorRegistry_compute"), args[0].coq if args[0].ty == "optkeys" else "(Some %s)" % args[0].coq)
    fail(c, "method call")


def block(stmts, env, k, in_loop=False):
    """stmts -> Gallina text; k(env) builds what follows the block"""
    if not stmts: return k(env)
    s, rest = stmts[0], stmts[1:]
    go = lambda e: block(rest, e, k, in_loop)
    pure = CUR["pure"]
    if is_docstring(s): return go(env)
    if isinstance(s, ast.Return):
        if rest: fail(rest[0], "statement after return")
        if in_loop: fail(s, "return inside a loop")
        if s.value is None: fail(s, "bare return")
        pre = []
        v = ex(s.value, env, pre)
        if v.alias: fail(s, "returning a mutable field (alias)")
        if v.ty not in COQTY: fail(s, "return of a value of type %s" % v.ty)
        CUR["ret"].add(v.ty)
        return binds(pre) + (v.coq if pure else "Ok %s s" % v.coq)
    if isinstance(s, ast.Raise):
        if rest: fail(rest[0], "statement after raise")
        c = s.exc
        if (s.cause is None and isinstance(c, ast.Call) and isinstance(c.func, ast.Name) and len(c.args) == 1 and not c.keywords
                and c.func.id in ("KeyError", "ValueError")):
            message(c.args[0], env)
            return "Err %s s" % {"KeyError": "EKey", "ValueError": "EValue"}[c.func.id]
        fail(s, "raise")
    if isinstance(s, ast.If):
        bt, ot = terminates(s.body), terminates(s.orelse)
        if bt and ot and rest: fail(rest[0], "unreachable statement")
        kb = (lambda e: block(s.body, e, dead, in_loop)) if bt else (lambda e: block(s.body + rest, e, k, in_loop))
        ko = (lambda e: block(s.orelse, e, dead, in_loop)) if ot else (lambda e: block(s.orelse + rest, e, k, in_loop))
        return cond(s.test, env, kb, ko)
    if isinstance(s, ast.For):
        if s.orelse or not isinstance(s.target, ast.Name): fail(s, "for statement")
        for x in ast.walk(ast.Module(body=s.body, type_ignores=[])):
            if isinstance(x, (ast.Return, ast.Break, ast.Continue, ast.While)): fail(x, "return / break / continue / while inside a loop")
        x = s.target.id
        if x in env or x in assigned(s.body): fail(s, "the loop target must be a new name that the body does not rebind")
        it = s.iter
        if isinstance(it, ast.Name) and it.id == "self" and CUR["cls"] == "AnnotatorRegistry": itc, el = "registry", "ann"
        else:
            itv = ex(it, env, None)
            if itv.ty == "keys": itc, el = itv.coq, "key"
            elif itv.ty == "attrs": itc, el = "(keys %s)" % itv.coq, "key"
            else: fail(s, "loop over %s" % itv.ty)
            if isinstance(it, ast.Name) and it.id in assigned(s.body): fail(s, "the loop changes the list it iterates over")
        carried = [v for v in assigned(s.body) if v in env]
        for v in carried:
            if env[v].ty not in COQTY and env[v].ty != "emptydict": fail(s, "loop-carried variable of type %s" % env[v].ty)
        e0 = dict(env); e0[x] = V(cname(x), el)
        ends = []

        def kend(e):
            ends.append(e)
            return tuple_val(carried, e) if pure else "Ok %s s" % tuple_val(carried, e)
        save = CUR["n"]
        block(s.body, e0, kend, True)             # first pass: learn the types the carried variables end with
        CUR["n"] = save
        e1 = dict(e0); e2 = dict(env)
        for v in carried:
            tys = {e[v].ty for e in ends} - {"emptydict"}
            if len(tys) > 1: fail(s, "loop-carried variable %s ends with types %s" % (v, sorted(tys)))
            ty = tys.pop() if tys else env[v].ty
            if env[v].ty not in (ty, "emptydict"): fail(s, "loop-carried variable %s changes its type" % v)
            e1[v] = V(cname(v), ty, fresh=env[v].fresh); e2[v] = V(cname(v), ty, fresh=env[v].fresh)
        ends.clear()
        body = block(s.body, e1, kend, True)
        pat = tuple_pat(carried)
        if pure:
            if not carried: fail(s, "loop without effect in a pure method")
            return "let %s := fold_left (fun %s %s =>\n%s) %s %s in\n%s" % (
                pat, pat, cname(x), ind(body), itc, tuple_val(carried, env), go(e2))
        return "bind (A := %s) (py_for %s %s s (fun %s %s s =>\n%s))\n(fun %s s =>\n%s)" % (
            tuple_ty(carried, e2), itc, tuple_val(carried, env), cname(x), pat, ind(body), pat, ind(go(e2)))
    if isinstance(s, ast.AnnAssign) and isinstance(s.target, ast.Name) and s.simple == 1 and s.value is not None:
        return block([ast.copy_location(ast.Assign(targets=[s.target], value=s.value), s)] + rest, env, k, in_loop)
    if isinstance(s, ast.Assign) and len(s.targets) == 1:
        t, val = s.targets[0], s.value
        if isinstance(t, ast.Name):
            if t.id in ("self", "tracks", "s", "ctrk", "clin"): fail(s, "assignment to %s" % t.id)
            pre = []
            v = ex(val, env, pre)
            if v.alias: fail(s, "binding a name to a mutable field (alias)")
            if isinstance(val, ast.Name) and v.ty in ("table", "fdict", "set", "emptydict"): fail(s, "aliasing of a mutable value")
            if v.ty not in COQTY and v.ty != "emptydict": fail(s, "assignment of a value of type %s" % v.ty)
            e2 = dict(env)
            if v.ty == "emptydict":          # `{}`: its Gallina type is known at the first update; the literal is used in place
                e2[t.id] = V(v.coq, v.ty, fresh=True)
                return binds(pre) + go(e2)
            e2[t.id] = V(cname(t.id), v.ty, fresh=v.fresh)
            return binds(pre) + "let %s := %s in\n" % (cname(t.id), v.coq) + go(e2)
        if isinstance(t, ast.Tuple) and len(t.elts) == 2 and all(isinstance(e, ast.Name) for e in t.elts):
            pre = []
            v = ex(val, env, pre)
            if v.ty != "entry": fail(s, "tuple assignment from %s" % v.ty)
            a, b = (e.id for e in t.elts)
            if a == b and a != "_": fail(s, "tuple assignment targets")
            e2 = dict(env)
            if a != "_": e2[a] = V(cname(a), "ftype")
            if b != "_": e2[b] = V(cname(b), "bool")
            return binds(pre) + "let '(%s, %s) := %s in\n" % (cname(a), cname(b), v.coq) + go(e2)
        if isinstance(t, ast.Subscript):
            if pure: fail(s, "item assignment in a pure method")
            pre = []
            v = ex(val, env, pre)                   # Python evaluates the right-hand side first
            o = t.value
            kk = ex(t.slice, env, None)
            if kk.ty != "key": fail(s, "item assignment index")
            if isinstance(o, ast.Attribute) and o.attr == "all_features":
                a = ex(o.value, env, None)
                if a.ty == "ann" and v.ty == "entry":
                    return binds(pre) + "let s := ann_put s %s (set %s %s (ann_table s %s)) in\n" % (a.coq, kk.coq, v.coq, a.coq) + go(env)
            if isinstance(o, ast.Attribute) and o.attr == "features":
                a = ex(o.value, env, None)
                if a.ty == "TRACKS" and v.ty == "ftype":
                    return binds(pre) + "let s := put_features s (set %s %s (features_of s)) in\n" % (kk.coq, v.coq) + go(env)
            fail(s, "item assignment")
        fail(s, "assignment")
    if isinstance(s, ast.Delete) and len(s.targets) == 1 and isinstance(s.targets[0], ast.Subscript):
        t = s.targets[0]
        d = ex(t.value, env, None); kk = ex(t.slice, env, None)
        if d.ty == "FEATURES" and kk.ty == "key" and not pure:
            x = fresh("d")
            return "do %s, s <- py_dict_del s %s (features_of s);\nlet s := put_features s %s in\n" % (x, kk.coq, x) + go(env)
        fail(s, "del")
    if isinstance(s, ast.Expr) and isinstance(s.value, ast.Call):
        c = s.value; f = c.func
        if isinstance(f, ast.Attribute) and isinstance(f.value, ast.Name) and f.attr in ("update", "add") and len(c.args) == 1 and not c.keywords:
            x = f.value.id
            if x not in env or not env[x].fresh: fail(s, "%s() on something that is not a local, freshly created value" % f.attr)
            v = ex(c.args[0], env, None)
            e2 = dict(env)
            if f.attr == "update" and env[x].ty in ("emptydict", "table", "fdict") and v.ty in ("table", "fdict") and env[x].ty in ("emptydict", v.ty):
                e2[x] = V(cname(x), v.ty, fresh=True)
                return "let %s := update %s %s in\n" % (cname(x), env[x].coq, v.coq) + go(e2)
            if f.attr == "add" and env[x].ty == "set" and v.ty == "key":
                e2[x] = V(cname(x), "set", fresh=True)
                return "let %s := py_set_add %s %s in\n" % (cname(x), v.coq, env[x].coq) + go(e2)
            fail(s, "%s()" % f.attr)
        if not pure:
            pre = []
            term = method_call(c, env, pre)
            if term is not None:
                if pre: fail(s, "raising argument of a method call")
                return "do _u, s <- %s;\n" % term + go(env)
    fail(s, "statement")


# --------------------------------------------------------------------------- methods
def is_effectful(fn):
    for x in ast.walk(fn):
        if isinstance(x, (ast.Raise, ast.Delete)): return True
        if isinstance(x, ast.Subscript): return True          # d[k] read (may raise) or written (through an object)
        if isinstance(x, ast.Call) and isinstance(x.func, ast.Attribute) and x.func.attr in EFFECT_CALLS: return True
    return False


def translate_method(cls, fn, is_prop, body=None):
    CUR["n"] = 0
    decos = [ast.unparse(d) for d in fn.decorator_list]
    if decos != (["property"] if is_prop else []): fail(fn, "decorators %s" % decos)
    a = fn.args
    if a.vararg or a.kwarg or a.kwonlyargs or a.posonlyargs or not a.args or a.args[0].arg != "self": fail(fn, "signature")
    for d in a.defaults:
        if not (isinstance(d, ast.Constant) and (d.value is None or type(d.value) is bool)): fail(fn, "default value")
    env = {}; params = []
    if cls == "GraphAnnotator": env["self"] = V("self", "ann"); params.append("(self : ann)")
    elif cls == "AnnotatorRegistry": env["self"] = V("", "REGISTRY")
    elif cls == "Tracks": env["self"] = V("", "TRACKS")
    for p in a.args[1:]:
        ty = ANNOT.get(ast.unparse(p.annotation) if p.annotation else None)
        if ty is None: fail(p, "parameter annotation")
        if p.arg in ("self", "s", "ctrk", "clin"): fail(p, "parameter name")
        if ty == "TRACKS": env[p.arg] = V("", "TRACKS")
        else:
            env[p.arg] = V(cname(p.arg), ty); params.append("(%s : %s)" % (cname(p.arg), COQTY[ty]))
    stmts = fn.body if body is None else body
    for x in ast.walk(ast.Module(body=stmts, type_ignores=[])):
        if isinstance(x, (ast.FunctionDef, ast.Lambda, ast.Global, ast.Nonlocal, ast.While, ast.With, ast.Try, ast.Break, ast.Continue,
                          ast.Yield, ast.YieldFrom, ast.Await, ast.NamedExpr, ast.Starred, ast.AugAssign, ast.Assert, ast.Import, ast.ImportFrom)):
            fail(x, "statement / expression kind")
    CUR["pure"] = not is_effectful(ast.Module(body=stmts, type_ignores=[]))
    CUR["ret"] = set(); CUR["oracle_used"] = False
    if is_prop and (len(a.args) != 1 or not CUR["pure"]): fail(fn, "a property must be a pure method of self")
    name = "gen_%s_%s" % (cls, "init_check" if fn.name == "__init__" else fn.name.lstrip("_"))
    if CUR["pure"]:
        if not terminates([s for s in stmts if not is_docstring(s)]): fail(fn, "a pure method must end in return")
        txt = block(stmts, env, dead)
        rty = ""
    else:
        txt = block(stmts, env, lambda e: "Ok tt s")
        if CUR["ret"]: fail(fn, "an effectful method that returns a value")      # none in the translated sources
        rty = " : res unit"
    oracle = fn.name in ORACLE
    if CUR["oracle_used"] and not oracle: fail(fn, "compute reached from a method without the oracle parameters")
    if oracle: params.append("(ctrk clin : list (list Z))")
    CUR["done"].add(name)
    return "Definition %s (s : state) %s%s :=\n%s.\n" % (name, " ".join(params), rty, ind(txt))


def get_class(path, cls):
    CUR["file"] = path
    src = open(path).read()
    tree = ast.parse(src)
    c = [n for n in tree.body if isinstance(n, ast.ClassDef) and n.name == cls]
    if len(c) != 1: raise Unsupported("%s: class %s not found" % (path, cls))
    return src, c[0]


def members(cls_node, name):
    return [m for m in cls_node.body if isinstance(m, (ast.FunctionDef, ast.AsyncFunctionDef)) and m.name == name]


def translate_unit(root, rel, cls, methods):
    path = os.path.join(root, rel)
    src, c = get_class(path, cls)
    CUR["cls"] = cls
    if [ast.unparse(b) for b in c.bases] != BASES[cls] or c.keywords or c.decorator_list: fail(c, "class header")
    names = {n for n, _ in methods}
    for m in c.body:      # a class-level statement other than a def must not rebind a translated method
        if is_docstring(m) or isinstance(m, ast.FunctionDef): continue
        tg = m.targets if isinstance(m, ast.Assign) else [m.target] if isinstance(m, ast.AnnAssign) else None
        if tg is None or not all(isinstance(t, ast.Name) and t.id not in names for t in tg): fail(m, "class-level statement")
    out = ["(* class %s  <-  %s   sha256=%s *)" % (cls, rel, hashlib.sha256(src.encode()).hexdigest()[:16])]
    for name, is_prop in methods:
        ms = members(c, name)
        if len(ms) != 1: raise Unsupported("%s: %s.%s defined %d times" % (path, cls, name, len(ms)))
        fn = ms[0]
        if cls == "UpdateNodeAttrs":
            body = [s for s in fn.body if not is_docstring(s)]
            if not body or ast.unparse(body[0]) != "super().__init__(tracks)": fail(fn, "first statement must be super().__init__(tracks)")
            body = body[1:]
            cut = [i for i, s in enumerate(body) if ast.unparse(s) == TAIL[0]]
            if len(cut) != 1: fail(fn, "`%s` expected exactly once" % TAIL[0])
            tail = [ast.unparse(s) for s in body[cut[0]:]]
            if tail != TAIL: fail(body[cut[0]], "the remainder of __init__ is not the expected %s" % TAIL)
            out.append(translate_method(cls, fn, False, body[:cut[0]]))
        else:
            out.append(translate_method(cls, fn, is_prop))
    return "\n".join(out)


def check_no_override(root):
    for rel, cls in SUBCLASSES:
        path = os.path.join(root, rel)
        src, c = get_class(path, cls)
        if [ast.unparse(b) for b in c.bases] != ["GraphAnnotator"]: fail(c, "class header")
        for x in ast.walk(c):
            if isinstance(x, (ast.FunctionDef, ast.AsyncFunctionDef)) and x.name in NO_OVERRIDE: fail(x, "%s overrides %s" % (cls, x.name))
            if isinstance(x, (ast.Assign, ast.AnnAssign, ast.AugAssign, ast.Delete)):
                for t in (x.targets if isinstance(x, (ast.Assign, ast.Delete)) else [x.target]):
                    for y in ast.walk(t):
                        if isinstance(y, ast.Attribute) and y.attr in NO_OVERRIDE and not isinstance(y.ctx, ast.Load): fail(x, "%s rebinds %s" % (cls, y.attr))


def check_registry_order(root):
    """`registry` (Model/PyRt4.v) lists the annotators in the order Tracks._get_annotators appends them"""
    path = os.path.join(root, "data_model/tracks.py")
    src, c = get_class(path, "Tracks")
    ms = members(c, "_get_annotators")
    if len(ms) != 1: raise Unsupported("%s: Tracks._get_annotators defined %d times" % (path, len(ms)))
    order = []
    for x in ast.walk(ms[0]):
        if (isinstance(x, ast.Call) and isinstance(x.func, ast.Attribute) and x.func.attr in ("append", "insert", "extend")
                and isinstance(x.func.value, ast.Name) and x.func.value.id == "annotator_list"):
            if x.func.attr != "append" or len(x.args) != 1 or not (isinstance(x.args[0], ast.Call) and isinstance(x.args[0].func, ast.Name)):
                fail(x, "_get_annotators: annotator_list is filled in another way than append(<Class>(..))")
            order.append((x.lineno, x.args[0].func.id))
    if [n for _, n in sorted(order)] != [cls for _, cls in SUBCLASSES]:
        fail(ms[0], "_get_annotators: annotators are not appended in the order %s" % [cls for _, cls in SUBCLASSES])
    r = [s for s in ms[0].body if isinstance(s, ast.Return)]
    if len(r) != 1 or ast.unparse(r[0]) != "return AnnotatorRegistry(annotator_list)": fail(ms[0], "_get_annotators: return statement")


HEADER = """(* GENERATED by harness/translate_toggle.py from %s/src/funtracks -- do not edit.
   Shallow embedding of Tracks.enable_features / disable_features, the AnnotatorRegistry / GraphAnnotator
   methods they reach, and the protected-key test of UpdateNodeAttrs.__init__, over the model state of
   Model/Edit.v; the idiom table is at the top of the translator, the object representation and the
   runtime combinators are in Model/PyRt4.v (loops: py_for of Model/PyRt.v). *)
From Coq Require Import ZArith List Bool.
From FT Require Import Base.Dict Model.Edit Model.Toggle Model.PyRt Model.PyRt4.
Import ListNotations.
Open Scope Z_scope.
"""


def main(repo=None):
    repo = repo or REPO
    root = os.path.join(repo, "src", "funtracks")
    CUR["done"] = set()
    check_no_override(root)
    check_registry_order(root)
    parts = [HEADER % repo]
    for rel, cls, methods in UNITS:
        parts.append(translate_unit(root, rel, cls, methods))
    return "\n".join(parts)


def regenerate(out=None, repo=None):
    """(re)write the generated file from the current sources; returns (ok, message).  A source outside the
    idiom table yields a file that does not type-check (fail closed).  The file is written only when its
    content (ignoring the header and the source-hash lines) changes."""
    out = out or OUT
    try:
        txt = main(repo); ok = True; msg = "translated"
    except Unsupported as e:
        txt = "(* TRANSLATION FAILED: %s *)\nDefinition translation_failed : False := I.\n" % str(e).replace("*)", "* )").replace("(*", "( *")
        ok = False; msg = str(e)
    except Exception as e:      # a bug of the translator must not look like a translation
        txt = "(* TRANSLATION FAILED: %s: %s *)\nDefinition translation_failed : False := I.\n" % (type(e).__name__, str(e).replace("*)", "* )").replace("(*", "( *"))
        ok = False; msg = "%s: %s" % (type(e).__name__, e)
    os.makedirs(os.path.dirname(out), exist_ok=True)
    old = open(out).read() if os.path.exists(out) else None
    strip = lambda t: "\n".join(l for l in t.split("\n") if "sha256=" not in l and not l.startswith("(* GENERATED"))
    if old is None or strip(old) != strip(txt):
        open(out, "w").write(txt)
    return ok, msg


if __name__ == "__main__":
    if len(sys.argv) > 1 and sys.argv[1] == "--stdout":
        sys.stdout.write(main())
    else:
        ok, msg = regenerate(*(sys.argv[1:3]))
        print((ok, msg))
        sys.exit(0 if ok else 1)
