"""Fail-closed translator: funtracks/import_export/_name_mapping.py -> coq/Gen/NameMapping_gen.v

The engine and the CLOSED IDIOM TABLE are in harness/translate_pure.py.  This module adds the
configuration for this source file (trusted with the table).  All nine functions of the file
are translated, in file order; any other module-level statement than the module docstring,
`from __future__ import annotations`, `import difflib` and these nine `def`s is Unsupported.

Representation (the one of Model/NameMap.v):
 * strings are interned Z codes; the only string constants are
     "seg_id" -> SEG_ID    "node" -> NODE    "edge" -> EDGE;
 * `mapping : dict[str, str | list[str]]`  = dict value  (Single c | Multi l);
   `_map_remaining_to_self` (annotated dict[str, str]) returns the same type, every value a Single;
 * `display_name_to_key : dict[str, tuple[str, int]]` = dict (Z * Z);
 * a feature dict (`available_computed_features`, annotated bare `dict`) = dict feature, where the
   record `feature` answers the four lookups the code makes:
     .get("feature_type") -> f_type   .get("num_values", 1) -> f_num
     .get("value_names", []) -> f_vnames   .get("display_name") -> f_disp : option Z
     (Some d iff the display name is a str: `isinstance(display_name, str)` = is_some);
   `available_computed_features: dict | None` of infer_edge_name_map = option (dict feature);
 * `s.lower()` = the Section variable `lower`; `difflib.get_close_matches(q, c, n=1, cutoff=cutoff)`
   with `cutoff` the parameter whose default is the constant 0.4 (never passed by a call in the
   file) = `close_matches closest q c` with the Section variable `closest`.

Proofs/NameMapTie.v proves  gen_<f> args = Ok (<f> args)  for each of them.
"""
import os, sys
sys.path.insert(0, os.path.dirname(os.path.abspath(__file__)))
import translate_pure as T
from translate_pure import Unsupported

REL = "src/funtracks/import_export/_name_mapping.py"
SRC = os.environ.get("VERIF_REPO", "/repo") + "/" + REL
OUT = "/verif/coq/Gen/NameMapping_gen.v"

LS = ("list", "str")
MAPPING = ("dict", "str", "value")
D2K = ("dict", "str", ("tuple", ("str", "int")))
FEATS = ("dict", "str", "feature")

CFG = {
    "tool": "harness/translate_name_mapping.py",
    "only": None,
    "order": ["_match_exact", "_match_fuzzy", "_match_display_names_exact", "_match_display_names_fuzzy",
              "_map_remaining_to_self", "build_standard_fields", "build_display_name_mapping",
              "infer_node_name_map", "infer_edge_name_map"],
    "sigs": {
        "_match_exact": {"params": [("target_fields", LS), ("importable_props", LS), ("mapping", MAPPING)], "ret": LS},
        "_match_fuzzy": {"params": [("target_fields", LS), ("importable_props", LS), ("mapping", MAPPING)],
                         "consts": {"cutoff": 0.4}, "ret": LS},
        "_match_display_names_exact": {"params": [("importable_props", LS), ("display_name_to_key", D2K), ("mapping", MAPPING)], "ret": LS},
        "_match_display_names_fuzzy": {"params": [("importable_props", LS), ("display_name_to_key", D2K), ("mapping", MAPPING)],
                                       "consts": {"cutoff": 0.4}, "ret": LS},
        "_map_remaining_to_self": {"params": [("remaining_props", LS)], "ret": MAPPING},
        "build_standard_fields": {"params": [("required_features", LS)], "ret": LS},
        "build_display_name_mapping": {"params": [("available_computed_features", FEATS)], "ret": D2K},
        "infer_node_name_map": {"params": [("importable_node_properties", LS), ("required_features", LS),
                                           ("available_computed_features", FEATS)], "ret": MAPPING},
        "infer_edge_name_map": {"params": [("importable_edge_properties", LS),
                                           ("available_computed_features", ("opt", FEATS))], "ret": MAPPING},
    },
    "gen_name": lambda f: "gen_" + f.lstrip("_"),
    "modules": {"difflib"},
    "lower": True,
    "imports_required": ["import difflib"],
    "imports_skipped": ["from __future__ import annotations"],
    "strings": {"seg_id": "SEG_ID", "node": "NODE", "edge": "EDGE"},
    "feature_get": {   # key -> (record field, type, the default that must be written in the call)
        "feature_type": ("f_type", "str", None),
        "num_values": ("f_num", "int", "1"),
        "value_names": ("f_vnames", ("list", "str"), "[]"),
        "display_name": ("f_disp", ("opt", "str"), None),
    },
    "preamble": [
        "From Coq Require Import ZArith List Bool.",
        "From FT Require Import Base.Dict Model.PyRt2.",
        "From FT Require Import Model.NameMap.   (* types and constants only: value, feature, SEG_ID, NODE, EDGE *)",
        "Import ListNotations.",
        "Open Scope Z_scope.",
        "",
        "Section Oracles.",
        "Variable lower : Z -> Z.",
        "Variable closest : Z -> list Z -> option Z.",
        "",
    ],
    "postamble": ["End Oracles."],
}

def regenerate(src=None, out=None):
    return T.regenerate(CFG, src or SRC, out or OUT, REL)

if __name__ == "__main__":
    if len(sys.argv) > 1: sys.stdout.write(T.translate(CFG, sys.argv[1], REL))
    else: print(regenerate())
