import sys
sys.path.insert(0,'/verif/harness')
import common as C, edit_engine as G, check, collections, json
pid=sys.argv[1]; n=int(sys.argv[2]); seed=int(sys.argv[3]) if len(sys.argv)>3 else 0
allv=collections.Counter(); shown=collections.Counter()
scns=G.run_shard(seed,n)
scns=[s for s in scns if 'error' not in s]
scns.sort(key=lambda s: len(s['lines']))
for s in scns:
    seen=set()
    for prop,what,line,_ in s['violations']:
        allv[prop]+=1
        if prop not in seen and shown[prop]<2:
            seen.add(prop); shown[prop]+=1
            print(prop,"|",what[:400],"\n   idx",s['index'],"| ops",G.ops_of(s)[:25],"\n   init",[l for l in s['lines'] if l[0] in 'NE'])
print(dict(allv))
