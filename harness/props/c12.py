"""C12 - import reproduces the source table / graph: correspondence of Model/ImportTable.v with
funtracks.import_export.tracks_from_df (CSV/DataFrame path) and import_from_geff (GEFF path, on
real stores written with geff), plus the property's direct oracle computed from the generating
table / graph, plus the malformation classes (must raise ValueError)."""
from __future__ import annotations

import math
import shutil
import tempfile
from pathlib import Path

import numpy as np

import common as C

META = {
    "claimed": True,
    "id": "C12",
    "coq_targets": ["Props/C12.vo", "Extract/Extract_C12.vo"],
    "technique": "Coq proof over an executable model of the import pipeline (insertion-ordered dicts for the name map, the DataFrame and the InMemoryGeff property dict; fold invariants for the renaming loop and for _combine_multi_value_props) + differential correspondence of the extracted model with tracks_from_df on real DataFrames and import_from_geff on real GEFF stores + direct oracle from the generating table",
    "level_text": "Theorems C12_csv_nodes_edges / C12_csv_values / C12_csv_keys / C12_renumber_injective / C12_csv_reject_* / C12_geff_* hold for every table (any number of rows and columns, any cells), every name map satisfying the stated side conditions and every malformed variant; the hand-written model is tied to /repo by running the extracted model and the implementation on the same generated DataFrames / GEFF stores and comparing node ids (in order), edges, and every imported attribute (key order included). Source tie: the import pipeline of the model (rename, combination of list-mapped columns, id integerisation, edge derivation, structural validation, graph construction, handle_segmentation; whole CSV build = import_csv, whole GEFF build = import_geff) equals, for all arguments, the code translated on every run from _tracks_builder.py, csv/_import.py, geff/_import.py and _validation.py (Gen/ImportPipeline_gen.v; Proofs/ImportTie.v, 24 closed theorems); pandas dtype inference, geff's id validators and file reading stay oracle inputs.",
    "level_note": "Trusted: Coq kernel, extraction (ExtrOcamlBasic), OCaml driver, Python harness (interning of strings / floats into cells). Oracles: pandas dtype inference of the id column (flag ityp, read from the real DataFrame), geff validate_tracklets / validate_lineages (their answers during the implementation run are recorded and given to the model), geff read_to_memory (the arrays it returns are the model's input on the GEFF path). Modelled not verified: pandas Series.unique/map/is_unique, numpy column_stack, networkx node/edge insertion. Not modelled: CSV text parsing, numpy dtype coercion of values (an empty cell of a mapped column is imported as NaN / the string 'nan'), ast.literal_eval of list-like strings, None values inside a name map, segmentation and node_features arguments, edge properties, SolutionTracks construction (it adds track_id / lineage_id when absent).",
    "design_ref": "DESIGN.md section 9 (C12)",
    "assumptions": [
        "domain limit (name map): keys and the columns used in list mappings are pairwise distinct (NoDup (keys ++ multi columns)); otherwise a mapping is silently lost or takes another column's values (Examples C12_clash_two_list_mappings / C12_clash_key_named_as_list_column; correspondence-only harness modes clash_*)",
        "domain limit (parent encoding): with integer-typed ids the parent cells are integer-valued numbers or empty (None/NaN/NA); an empty-string parent in a DataFrame raises ValueError from int('') (Example C12_empty_string_parent_integer_ids; correspondence-only mode emptystr_int). With renumbered ids '' means no parent",
        "domain limit (ids): no id cell is empty, -1 or ''; float ids containing NaN are outside the model",
        "domain limit (values): every mapped custom column has at least one non-empty cell (else AttributeError from geff_spec, F-12b); list mappings combine numeric columns only (numpy would cast mixed columns to strings); an empty cell is imported as NaN / the string 'nan', not as an absent attribute",
        "domain limit (exception type): a table without any column raises KeyError('id') instead of ValueError; pos mapped to one scalar column raises ValueError",
        "by design: a mapped track_id / lineage_id column that does not validate as tracklets / lineages is dropped with a warning and recomputed by SolutionTracks (the value theorems assume the validator's answer for these two keys)",
        "GEFF: in-memory part only (after geff read_to_memory); edge properties ignored; columns of list mappings are 1-D properties",
    ],
    "trusted": ["translator harness/translate_import.py (closed idiom table; fail closed) with coq/Model/PyRt6.v",
                "pandas is_integer_dtype / unique / map / is_unique; numpy column_stack; geff.validate.tracks (recorded answers); geff read_to_memory / write / write_arrays"],
}

STD = {"time": 1, "id": 2, "parent_id": 3, "pos": 4, "z": 5, "y": 6, "x": 7, "track_id": 8, "lineage_id": 9,
       "ellipse_axis_radii": 10}
NAN, NA = "__nan__", "__NA__"
COLPOOL = ["cell", "mother", "frame", "t", "T", "row", "col", "depth", "Y", "X", "Z", "label", "node", "parent", "idx",
           "c0", "c1", "c2"]
STRS = ["u", "v", "w", "aa", "bb", "G1", "S", "M", "ctrl", "q7"]


# ----------------------------------------------------------------------------- interning
class Intern:
    def __init__(self):
        self.names, self.strs, self.toks = dict(STD), {}, {}

    def name(self, s):
        if s not in self.names:
            self.names[s] = 100 + len(self.names)
        return self.names[s]

    def cell(self, v, out=False):
        import pandas as pd

        if v is None or v is pd.NA:
            return "n"
        if isinstance(v, (bool, np.bool_, int, np.integer)):
            return "i%d" % int(v)
        if isinstance(v, (float, np.floating)):
            if math.isnan(v):
                return "n"
            if float(v).is_integer():
                return "i%d" % int(v)
            return "t%d" % self.toks.setdefault(float(v), len(self.toks) + 1)
        if isinstance(v, str):
            if v == "":
                return "s0"  # the empty string has the reserved code 0 in the model
            if out and v == "nan" and v not in self.strs:
                return "n"  # numpy's rendering of an empty cell in a string column
            return "s%d" % self.strs.setdefault(v, len(self.strs) + 1)
        return "?%s" % type(v).__name__

    def value(self, v):
        if isinstance(v, np.ndarray):
            v = v.tolist()
        if isinstance(v, (list, tuple)):
            return "[" + "+".join(self.cell(x, True) for x in v) + "]"
        return self.cell(v, True)


def nm_line(it, nm):
    parts = []
    for k, v in nm.items():
        if isinstance(v, list):
            parts.append("%d=M%s" % (it.name(k), "+".join(str(it.name(c)) for c in v)))
        else:
            parts.append("%d=S%d" % (it.name(k), it.name(v)))
    return ";".join(parts)


# ----------------------------------------------------------------------------- recording the validator oracles
class Recorder:
    """wraps geff's validate_tracklets / validate_lineages as seen by funtracks' _validation module"""

    def __init__(self):
        import funtracks.import_export._validation as V

        self.V = V
        self.orig = (V.validate_tracklets, V.validate_lineages)
        self.trk = self.lin = None

    def __enter__(self):
        def vt(*a, **k):
            r = self.orig[0](*a, **k)
            self.trk = bool(r[0])
            return r

        def vl(*a, **k):
            r = self.orig[1](*a, **k)
            self.lin = bool(r[0])
            return r

        self.V.validate_tracklets, self.V.validate_lineages = vt, vl
        return self

    def __exit__(self, *a):
        self.V.validate_tracklets, self.V.validate_lineages = self.orig

    def flags(self):
        return ("1" if self.trk in (None, True) else "0") + ("1" if self.lin in (None, True) else "0")


# ----------------------------------------------------------------------------- forests
def gen_forest(rng, n, p_link=0.65):
    """parent index (earlier row) or None per node, times increasing along links, at most 2 children"""
    par, nchild, times = [], [0] * n, []
    for i in range(n):
        cands = [j for j in range(i) if nchild[j] < 2]
        if cands and rng.random() < p_link:
            p = rng.choice(cands)
            nchild[p] += 1
            par.append(p)
            times.append(times[p] + (1 if rng.random() < 0.85 else 2))
        else:
            par.append(None)
            times.append(rng.randint(0, 2))
    return par, times


def tracklets_lineages(par):
    n = len(par)
    kids = [[j for j in range(n) if par[j] == i] for i in range(n)]
    trk, lin = [None] * n, [None] * n
    nt = nl = 0
    for i in range(n):  # parents come before children
        if par[i] is None:
            nl += 1
            lin[i] = 20 + nl
        else:
            lin[i] = lin[par[i]]
        if par[i] is not None and len(kids[par[i]]) == 1:
            trk[i] = trk[par[i]]
        else:
            nt += 1
            trk[i] = 10 + nt
    return trk, lin


def dyadic(rng):
    return rng.randint(0, 160) / 8.0


# ----------------------------------------------------------------------------- CSV cases
ID_KINDS = ["contig", "contig0", "sparse", "sparse", "str", "str", "float", "frac", "objint", "Int64"]
WF_MODES = ["plain"] * 10 + ["legacy", "dupmap", "dupmap", "trk_valid", "trk_valid", "trk_invalid", "ell", "zero_rows",
                             "unmapped_extra", "multi1", "multi3", "shuffled_rows", "shuffled_rows",
                             "raw_id_clash", "raw_id_clash", "zero_parent", "zero_parent", "zero_leaf", "zero_root"]
DISC_MODES = ["emptystr_int", "clash_two_multis", "clash_single_named_as_multicol"]
MAL_MODES = ["dup_id", "dup_id_renamed", "dup_id_str", "unknown_parent_int", "unknown_parent_renum", "self_parent_int", "self_parent_renum",
             "unmapped_time", "unmapped_id", "unmapped_parent", "unmapped_pos", "missing_col_single", "missing_col_multi",
             "missing_col_custom", "pos_one_col", "ell_wrong_len", "pos_single_scalar", "empty_map"]


def gen_csv(rng, mode):
    """-> case dict: cols [[name, dtype, values]], nm {key: col | [cols]}, expect {...}"""
    n = 0 if mode == "zero_rows" else rng.randint(1, 8)
    if mode in ("raw_id_clash", "dup_id", "dup_id_renamed", "dup_id_str", "unknown_parent_int", "self_parent_int", "self_parent_renum",
                "unknown_parent_renum") and n < 2:
        n = rng.randint(2, 8)
    nd = 3 if rng.random() < 0.4 else 2
    kind = rng.choice(ID_KINDS)
    if mode in ("unknown_parent_int", "self_parent_int", "dup_id", "dup_id_renamed"):
        kind = rng.choice(["contig", "sparse", "sparse", "Int64"])
    if mode in ("zero_parent", "zero_leaf", "zero_root"):
        kind = rng.choice(["sparse", "sparse", "contig0", "Int64"])
        n = max(n, 3)
    if mode == "emptystr_int":
        kind = rng.choice(["contig", "sparse"])
    if mode in ("dup_id_str",):
        kind = "str"
    if mode in ("unknown_parent_renum", "self_parent_renum"):
        kind = rng.choice(["str", "float", "frac", "objint"])
    par, times = gen_forest(rng, n)
    zero_at = None
    if mode in ("zero_parent", "zero_leaf", "zero_root"):
        # node id 0 in a given role (an id that is falsy / not > 0): parent of somebody, leaf with a parent, root
        if all(p is None for p in par):
            par[n - 1] = 0
            times[n - 1] = times[0] + 1
        has_child = {p for p in par if p is not None}
        cands = {"zero_parent": sorted(has_child), "zero_leaf": [i for i in range(n) if par[i] is not None and i not in has_child],
                 "zero_root": [i for i in range(n) if par[i] is None]}[mode]
        zero_at = rng.choice(cands)
    # ids
    if kind == "contig":
        ids = list(range(1, n + 1))
    elif kind == "contig0":
        ids = list(range(n))
    elif kind in ("sparse", "objint", "Int64"):
        ids = rng.sample(range(0, 60), n)
    elif kind == "str":
        ids = rng.sample(["n%d" % i for i in range(30)] + ["a", "b", "c", "d", "e", "f", "g", "h"], n)
    elif kind == "float":
        ids = [float(x) for x in rng.sample(range(0, 60), n)]
    else:  # frac: non-integral floats (at least one)
        ids = [x / 2.0 for x in rng.sample(range(1, 80), n)]
        if n and all(float(x).is_integer() for x in ids):
            ids[0] = ids[0] + 0.25 if (ids[0] + 0.25) not in ids else 77.75
    if zero_at is not None:
        if 0 in ids:
            j = ids.index(0)
            ids[j] = ids[zero_at]
        ids[zero_at] = 0
    int_typed = kind in ("contig", "contig0", "sparse", "Int64")
    # parent encoding of the roots
    if kind in ("contig", "contig0", "sparse"):
        none_style = rng.choice(["-1", "-1", "nan", "none_obj"])
    elif kind == "Int64":
        none_style = rng.choice(["-1", "NA"])
    elif kind == "objint":
        none_style = rng.choice(["-1", "none_obj", "nan"])
    elif kind == "str":
        none_style = rng.choice(["none_obj", "empty", "-1", "nan"])
    else:
        none_style = rng.choice(["nan", "-1"])
    if mode == "emptystr_int":
        none_style = "empty"
        if all(p is not None for p in par):
            par[0] = None
    none_val = {"-1": -1.0 if kind in ("float", "frac") else -1, "nan": NAN, "none_obj": None, "NA": NA, "empty": ""}[none_style]
    parent_vals = [ids[p] if p is not None else none_val for p in par]
    # malformations of the table
    if mode in ("dup_id", "dup_id_renamed", "dup_id_str"):
        i, j = rng.sample(range(n), 2)
        ids[j] = ids[i]
    if mode in ("unknown_parent_int", "unknown_parent_renum"):
        j = rng.randrange(n)
        unknown = {"str": "zz", "float": 71.0, "frac": 71.5}.get(kind, 71)
        parent_vals[j] = unknown
        par[j] = "unknown"
    if mode in ("self_parent_int", "self_parent_renum"):
        j = rng.randrange(n)
        parent_vals[j] = ids[j]
        par[j] = j
    if mode in ("shuffled_rows",):
        perm = list(range(n))
        rng.shuffle(perm)
        ids = [ids[k] for k in perm]
        parent_vals = [parent_vals[k] for k in perm]
        times = [times[k] for k in perm]
        inv = {old: new for new, old in enumerate(perm)}
        par = [None if par[k] is None else inv[par[k]] for k in perm]
    id_dtype = {"objint": "object", "Int64": "Int64"}.get(kind)
    par_dtype = "Int64" if kind == "Int64" else ("object" if none_style in ("none_obj", "empty") or kind in ("objint",) else None)
    if kind == "str" and none_style in ("-1", "nan"):
        par_dtype = "object"
    # column names
    renamed = rng.random() < 0.5 or mode == "dup_id_renamed" or mode == "raw_id_clash"
    if mode == "dup_id":
        renamed = False
    pool = list(COLPOOL)
    rng.shuffle(pool)
    axes = ["z", "y", "x"][-nd:]
    if renamed:
        c_id, c_par, c_time = pool.pop(), pool.pop(), pool.pop()
        c_axes = [pool.pop() for _ in axes]
    else:
        c_id, c_par, c_time, c_axes = "id", "parent_id", "time", list(axes)
    time_vals = [float(t) for t in times] if rng.random() < 0.05 else list(times)
    cols = [[c_id, id_dtype, ids], [c_par, par_dtype, parent_vals], [c_time, None, time_vals]]
    for a in c_axes:
        cols.append([a, None, [rng.randint(0, 20) for _ in range(n)] if rng.random() < 0.1 else [dyadic(rng) for _ in range(n)]])
    nm = {"id": c_id, "parent_id": c_par, "time": c_time}
    if mode == "legacy" :
        for a, c in zip(axes, c_axes):
            nm[a] = c
    else:
        nm["pos"] = list(c_axes) if rng.random() < 0.85 else list(reversed(c_axes))
    # custom columns
    numeric_cols = []
    for k in range(rng.randint(0, 3)):
        cname = pool.pop() if rng.random() < 0.7 else "feat%d" % k
        ck = rng.choice(["int", "float", "str", "bool", "float_nan", "Int64_na", "str_none"])
        if ck == "int":
            vals, dt = [rng.randint(-5, 40) for _ in range(n)], None
        elif ck == "float":
            vals, dt = [dyadic(rng) for _ in range(n)], None
        elif ck == "str":
            vals, dt = [rng.choice(STRS) for _ in range(n)], None
        elif ck == "bool":
            vals, dt = [rng.random() < 0.5 for _ in range(n)], None
        elif ck == "float_nan":
            vals, dt = [dyadic(rng) if (i == 0 or rng.random() < 0.6) else NAN for i in range(n)], "float"
        elif ck == "Int64_na":
            vals, dt = [rng.randint(0, 30) if (i == 0 or rng.random() < 0.6) else NA for i in range(n)], "Int64"
        else:
            vals, dt = [rng.choice(STRS) if (i == 0 or rng.random() < 0.6) else None for i in range(n)], None
        cols.append([cname, dt, vals])
        if ck in ("int", "float", "float_nan"):
            numeric_cols.append(cname)
        if mode == "unmapped_extra" and k == 0:
            continue
        key = cname if rng.random() < 0.5 else rng.choice(["area", "circ", "seg_id", "kind", "score"]) + str(k)
        nm[key] = cname
    # list-valued custom property
    want_multi = {"multi1": 1, "multi3": 3}.get(mode, 2 if rng.random() < 0.3 else 0)
    if mode in ("clash_two_multis",):
        want_multi = 2
    if want_multi:
        vcols = []
        for k in range(want_multi):
            cname = "w%d" % k
            cols.append([cname, None, [dyadic(rng) for _ in range(n)] if rng.random() < 0.7 else [rng.randint(0, 9) for _ in range(n)]])
            vcols.append(cname)
        if mode == "clash_two_multis":
            vcols[rng.randrange(len(vcols))] = rng.choice(c_axes)
        nm["vec"] = vcols
    if mode == "dupmap":
        src_c = rng.choice([c_time] + c_axes + [c[0] for c in cols[3 + nd:]])
        nm["dupA"] = src_c
        if rng.random() < 0.5:
            nm["dupB"] = src_c
    if mode == "clash_single_named_as_multicol":
        # a Single key whose NAME is one of the pos columns, listed before pos
        victim = rng.choice(nm["pos"])
        other = rng.choice([c_time] + [c for c in c_axes if c != victim])
        nm = {**{k: v for k, v in nm.items() if k != "pos"}, victim: other, "pos": nm["pos"]}
    if mode in ("trk_valid", "trk_invalid"):
        trk, lin = tracklets_lineages(par) if all(p is None or isinstance(p, int) for p in par) else ([1] * n, [1] * n)
        if mode == "trk_invalid":
            which = rng.choice(["trk", "lin", "both"])
            if which in ("trk", "both"):
                trk = [rng.randint(1, 2) for _ in range(n)]
            if which in ("lin", "both"):
                lin = [rng.randint(1, 2) for _ in range(n)]
        tn, ln = ("track_id", "lineage_id") if rng.random() < 0.5 else ("tid", "lin")
        cols.append([tn, None, trk])
        nm["track_id"] = tn
        if rng.random() < 0.7:
            cols.append([ln, None, lin])
            nm["lineage_id"] = ln
    if mode in ("ell", "ell_wrong_len"):
        k = nd if mode == "ell" else rng.choice([x for x in (1, 2, 3, 4) if x != nd])
        ecols = []
        for j in range(k):
            cols.append(["ax%d" % j, None, [dyadic(rng) for _ in range(n)]])
            ecols.append("ax%d" % j)
        nm["ellipse_axis_radii"] = ecols
    if mode == "raw_id_clash":
        # an unrelated column literally called "id" with repeated values (the id column is renamed)
        v = rng.randint(1, 5)
        cols.append(["id", None, [v] * n])
        if rng.random() < 0.5:
            nm["group"] = "id"
    # malformations of the name map
    if mode == "unmapped_time":
        del nm["time"]
    if mode == "unmapped_id":
        del nm["id"]
    if mode == "unmapped_parent":
        del nm["parent_id"]
    if mode == "unmapped_pos":
        nm.pop("pos", None)
    if mode == "missing_col_single":
        nm[rng.choice(["time", "id", "parent_id"])] = "nope"
    if mode == "missing_col_multi":
        p = list(nm["pos"])
        p[rng.randrange(len(p))] = "nope"
        nm["pos"] = p
    if mode == "missing_col_custom":
        nm["extra"] = "nope"
    if mode == "pos_one_col":
        nm["pos"] = nm["pos"][:1]
    if mode == "pos_single_scalar":
        nm["pos"] = nm["pos"][0]
    if mode == "empty_map":
        nm = {}
    # column order and name-map order
    if rng.random() < 0.5:
        rng.shuffle(cols)
    if rng.random() < 0.5 and mode not in ("clash_two_multis", "clash_single_named_as_multicol"):
        items = list(nm.items())
        rng.shuffle(items)
        nm = dict(items)
    if mode == "clash_two_multis":  # pos first, so that pos survives and "vec" is the victim
        nm = {"pos": nm["pos"], **{k: v for k, v in nm.items() if k != "pos"}}
    return {"kind": "C", "mode": mode, "cols": cols, "nm": nm, "n": n, "nd": nd, "id_kind": kind, "int_typed": int_typed,
            "none_style": none_style, "c_id": c_id, "c_par": c_par, "par": par, "renamed": renamed}


def build_df(case):
    import pandas as pd

    def conv(v):
        return float("nan") if v == NAN else (pd.NA if v == NA else v)

    data = {}
    for name, dt, vals in case["cols"]:
        vals = [conv(v) if isinstance(v, str) or v is None else v for v in vals]
        data[name] = pd.Series(vals, dtype=dt) if dt else pd.Series(vals)
    return pd.DataFrame(data)


def csv_line(it, case, df, flags):
    import pandas as pd

    c_id = case["nm"].get("id")
    ityp = isinstance(c_id, str) and c_id in df.columns and bool(pd.api.types.is_integer_dtype(df[c_id]))
    cols = list(df.columns)
    colvals = [df[c].tolist() for c in cols]
    rows = [",".join(it.cell(colvals[j][i]) for j in range(len(cols))) for i in range(len(df))]
    return "C|%s%s|%s|%s|%s" % ("1" if ityp else "0", flags, ",".join(str(it.name(c)) for c in cols), ";".join(rows),
                               nm_line(it, case["nm"])), ityp


def canon_graph(it, g, nm_keys, flags):
    """the imported attributes of tracks.graph in the driver's output format.  track_id / lineage_id are
    (re)computed by SolutionTracks whenever the import did not deliver them: they count as imported only
    when mapped and validated."""
    keep_trk = "track_id" in nm_keys and flags[0] == "1"
    keep_lin = "lineage_id" in nm_keys and flags[1] == "1"
    nodes = []
    for n in g.nodes:
        attrs = []
        for k, v in g.nodes[n].items():
            if (k == "track_id" and not keep_trk) or (k == "lineage_id" and not keep_lin):
                continue
            attrs.append("%d=%s" % (it.name(k), it.value(v)))
        nodes.append("%d{%s}" % (int(n), ",".join(attrs)))
    edges = sorted((int(u), int(v)) for u, v in g.edges)
    return "OK " + ";".join(nodes) + "|" + ",".join("%d>%d" % e for e in edges)


def canon_model(mo):
    if not mo.startswith("OK "):
        return mo
    body, es = mo[3:].rsplit("|", 1)
    edges = sorted(tuple(int(x) for x in e.split(">")) for e in es.split(",") if e)
    return "OK " + body + "|" + ",".join("%d>%d" % e for e in edges)


def exc_code(e):
    if isinstance(e, ValueError):
        return "VE"
    if isinstance(e, KeyError):
        return "OE1"
    return "EXC:%s:%s" % (type(e).__name__, str(e)[:120])


def run_csv_impl(it, case):
    from funtracks.import_export import tracks_from_df

    df = build_df(case)
    nm = {k: (list(v) if isinstance(v, list) else v) for k, v in case["nm"].items()}  # the builder mutates its map
    with Recorder() as rec:
        try:
            tr = tracks_from_df(df, node_name_map=nm)
            g, err = tr.graph, None
        except Exception as e:  # noqa: BLE001
            g, err = None, exc_code(e)
    flags = rec.flags()
    line, ityp = csv_line(it, case, df, flags)
    io = err if g is None else canon_graph(it, g, set(nm.keys()), flags)
    return df, g, io, line, flags, ityp


# ----------------------------------------------------------------------------- direct oracle (CSV)
def is_empty(v):
    import pandas as pd

    return v is None or v is pd.NA or v == NAN or v == NA or (isinstance(v, float) and math.isnan(v))


def same_value(src, got):
    if is_empty(src):
        return got is None or (isinstance(got, float) and math.isnan(got)) or got == "nan"
    if isinstance(src, str):
        return isinstance(got, str) and got == src
    if isinstance(got, (str, list)) or got is None:
        return False
    return float(src) == float(got)


def effective_map(nm):
    """the key -> source(s) reading of the name map that the property text speaks about (legacy z/y/x -> pos)"""
    m = dict(nm)
    if "pos" not in m:
        comps = [m.pop(a) for a in ("z", "y", "x") if a in m]
        if len(comps) >= 2:
            m["pos"] = comps
    return m


def oracle_csv(case, g, flags):
    """the property text on the generating table: node per row (ids kept when integer-typed, else any
    one-to-one renumbering), exactly the parent links, every mapped value"""
    cols = {name: vals for name, _, vals in case["cols"]}
    nm = effective_map(case["nm"])
    ids, pars = cols[nm["id"]], cols[nm["parent_id"]]
    n = len(ids)
    nodes = list(g.nodes)
    if len(nodes) != n:
        return "%d nodes for %d rows" % (len(nodes), n)
    if len(set(nodes)) != n:
        return "node ids not distinct"
    f = {}
    for i in range(n):
        f[ids[i]] = nodes[i]
        if case["int_typed"] and int(nodes[i]) != int(ids[i]):
            return "integer id %s imported as %s" % (ids[i], nodes[i])
    want_edges = set()
    for i in range(n):
        p = pars[i]
        if is_empty(p) or p == "" or (not isinstance(p, str) and float(p) == -1):
            continue
        if p not in f:
            return "generator error: parent %r unknown" % (p,)
        want_edges.add((f[p], nodes[i]))
    if set(g.edges) != want_edges:
        return "edges %s, expected %s" % (sorted(g.edges), sorted(want_edges))
    for i in range(n):
        a = g.nodes[nodes[i]]
        for k, s in nm.items():
            if k in ("id", "parent_id"):
                continue
            if (k == "track_id" and flags[0] == "0") or (k == "lineage_id" and flags[1] == "0"):
                continue  # invalid tracklet / lineage columns are dropped with a warning (documented)
            if isinstance(s, list):
                got = a.get(k)
                if isinstance(got, np.ndarray):
                    got = got.tolist()
                if not isinstance(got, list) or len(got) != len(s) or not all(same_value(cols[c][i], x) for c, x in zip(s, got)):
                    return "row %d key %s: %r, expected %r" % (i, k, got, [cols[c][i] for c in s])
            else:
                if k not in a or not same_value(cols[s][i], a[k]):
                    return "row %d key %s: %r, expected %r" % (i, k, a.get(k, "<absent>"), cols[s][i])
        extra = [k for k in a if k not in nm and k not in ("track_id", "lineage_id")]
        if extra:
            return "row %d: unmapped keys imported: %s" % (i, extra)
    return None


# ----------------------------------------------------------------------------- GEFF cases
GEFF_WF = ["plain"] * 6 + ["stacked", "stacked", "missing_attr", "missing_attr", "dupmap", "vec", "vec_missing", "trk_valid", "trk_invalid"]
GEFF_MAL = ["g_dup_ids", "g_unknown_node", "g_self_edge", "g_repeated_edge", "g_missing_col", "g_unmapped_time", "g_unmapped_pos"]


def gen_geff(rng, mode):
    n = rng.randint(2, 7) if mode.startswith("g_") else rng.randint(1, 7)
    nd = 3 if rng.random() < 0.4 else 2
    ids = rng.sample(range(0, 60), n)
    par, times = gen_forest(rng, n)
    axes = ["z", "y", "x"][-nd:]
    renamed = rng.random() < 0.5
    pool = list(COLPOOL)
    rng.shuffle(pool)
    p_time = pool.pop() if renamed else rng.choice(["t", "time"])
    p_axes = [pool.pop() for _ in axes] if renamed else list(axes)
    props = {p_time: list(times)}
    nm = {"time": p_time}
    if mode == "stacked":
        p_pos = rng.choice(["pos", "loc", "centroid"])
        props[p_pos] = [[dyadic(rng) for _ in axes] for _ in range(n)]
        nm["pos"] = p_pos
    else:
        for a in p_axes:
            props[a] = [dyadic(rng) for _ in range(n)]
        nm["pos"] = list(p_axes)
    for k in range(rng.randint(0, 2)):
        cname = pool.pop()
        ck = rng.choice(["int", "float", "str"])
        vals = [rng.randint(0, 40) if ck == "int" else dyadic(rng) if ck == "float" else rng.choice(STRS) for _ in range(n)]
        if mode == "missing_attr" and n >= 2:
            for i in rng.sample(range(n), rng.randint(1, n - 1)):
                vals[i] = None
        props[cname] = vals
        if rng.random() < 0.8:
            nm[cname if rng.random() < 0.5 else "key%d" % k] = cname
    if mode in ("vec", "vec_missing"):
        for c in ("w0", "w1"):
            props[c] = [dyadic(rng) for _ in range(n)]
        if mode == "vec_missing" and n >= 2:
            props["w1"][rng.randrange(n)] = None
            if rng.random() < 0.5:   # the other component is missing elsewhere
                j = rng.randrange(n)
                if props["w1"][j] is not None:
                    props["w0"][j] = None
        nm["vec"] = ["w0", "w1"]
        if rng.random() < 0.5:       # the components are ALSO mapped on their own (duplicate mapping is supported:
            nm["wa"] = "w0"          # each key gets a copy of the data - and of its missing mask)
            if rng.random() < 0.5:
                nm["wb"] = "w1"
    if mode == "dupmap":
        nm["dupA"] = rng.choice(list(props))
        if isinstance(props[nm["dupA"]][0], list):
            nm["dupA"] = p_time
    if mode in ("trk_valid", "trk_invalid"):
        trk, lin = tracklets_lineages(par)
        if mode == "trk_invalid":
            trk = [rng.randint(1, 2) for _ in range(n)]
            if rng.random() < 0.5:
                lin = [rng.randint(1, 2) for _ in range(n)]
        props["tid"], props["lin"] = trk, lin
        nm["track_id"], nm["lineage_id"] = "tid", "lin"
    edges = [[ids[p], ids[i]] for i, p in enumerate(par) if p is not None]
    if mode == "g_dup_ids":
        i, j = rng.sample(range(n), 2)
        ids[j] = ids[i]
        if rng.random() < 0.45:   # roots only: the duplicate must be rejected although there is no edge to validate
            edges = []
    if mode == "g_unknown_node":
        edges.append(rng.choice([[71, ids[0]], [ids[0], 71]]))
    if mode == "g_self_edge":
        edges.append([ids[-1], ids[-1]])
    if mode == "g_repeated_edge":
        if not edges:
            edges.append([ids[0], ids[1]])
        edges.append(list(edges[0]))
    if mode == "g_missing_col":
        nm[rng.choice(["time", "extra"])] = "nope"
    if mode == "g_unmapped_time":
        del nm["time"]
    if mode == "g_unmapped_pos":
        del nm["pos"]
    if rng.random() < 0.5:
        items = list(nm.items())
        rng.shuffle(items)
        nm = dict(items)
    return {"kind": "G", "mode": mode, "ids": ids, "edges": edges, "props": props, "nm": nm, "n": n, "nd": nd,
            "arrays": mode in ("g_dup_ids", "g_unknown_node", "g_self_edge", "g_repeated_edge")}


def write_store(case, path):
    import geff
    import networkx as nx

    if not case["arrays"]:
        g = nx.DiGraph()
        for i, nid in enumerate(case["ids"]):
            attrs = {}
            for name, vals in case["props"].items():
                if vals[i] is not None:
                    attrs[name] = np.array(vals[i]) if isinstance(vals[i], list) else vals[i]
            g.add_node(nid, **attrs)
        for u, v in case["edges"]:
            g.add_edge(u, v)
        geff.write(g, path)
        return
    from geff.core_io import write_arrays
    from geff_spec.utils import add_or_update_props_metadata, create_or_update_metadata, create_props_metadata

    md = create_or_update_metadata(metadata=None, is_directed=True)
    np_ = {k: {"values": np.array(v), "missing": None} for k, v in case["props"].items()}
    md = add_or_update_props_metadata(md, [create_props_metadata(identifier=k, prop_data=v) for k, v in np_.items()], c_type="node")
    write_arrays(path, np.array(case["ids"], dtype=np.uint64), np_, np.array(case["edges"], dtype=np.uint64).reshape(-1, 2), {}, md,
                 structure_validation=False)


def geff_line(it, mem, nm, flags):
    ids = [int(x) for x in mem["node_ids"].tolist()]
    edges = ["%d>%d" % (int(u), int(v)) for u, v in mem["edge_ids"].tolist()]
    ps = []
    for name, pd_ in mem["node_props"].items():
        vals, miss = pd_["values"], pd_.get("missing")
        ms = "-" if miss is None else "".join("1" if b else "0" for b in miss.tolist())
        if vals.ndim == 2:
            body = "/".join(",".join(it.cell(x) for x in r) for r in vals.tolist())
            ps.append("%d:V%d:%s:%s" % (it.name(name), vals.shape[1], body, ms))
        else:
            ps.append("%d:S:%s:%s" % (it.name(name), ",".join(it.cell(x) for x in vals.tolist()), ms))
    return "G|%s|%s|%s|%s|%s" % (flags, ",".join(map(str, ids)), ",".join(edges), ";".join(ps), nm_line(it, nm))


def run_geff_impl(it, case):
    from geff.core_io._base_read import read_to_memory

    from funtracks.import_export import import_from_geff

    d = Path(tempfile.mkdtemp(prefix="funverif."))
    try:
        p = d / "g.zarr"
        write_store(case, p)
        mem = read_to_memory(p)
        with Recorder() as rec:
            try:
                tr = import_from_geff(p, node_name_map=dict(case["nm"]))
                g, err = tr.graph, None
            except Exception as e:  # noqa: BLE001
                g, err = None, exc_code(e)
        flags = rec.flags()
        line = geff_line(it, mem, case["nm"], flags)
        io = err if g is None else canon_graph(it, g, set(case["nm"].keys()), flags)
        return g, io, line, flags
    finally:
        shutil.rmtree(d, ignore_errors=True)


def oracle_geff(case, g, flags):
    ids, props, nm = case["ids"], case["props"], effective_map(case["nm"])
    if list(g.nodes) != ids:
        return "nodes %s, expected %s" % (list(g.nodes), ids)
    if set(g.edges) != {tuple(e) for e in case["edges"]}:
        return "edges %s, expected %s" % (sorted(g.edges), sorted(case["edges"]))
    for i, nid in enumerate(ids):
        a = g.nodes[nid]
        for k, s in nm.items():
            if (k == "track_id" and flags[0] == "0") or (k == "lineage_id" and flags[1] == "0"):
                continue
            if isinstance(s, list):
                src = [props[c][i] for c in s]
                if any(v is None for v in src):
                    if k in a:
                        return "node %d key %s present although a component is missing" % (nid, k)
                    continue
                got = a.get(k)
                if not isinstance(got, list) or len(got) != len(src) or not all(same_value(x, y) for x, y in zip(src, got)):
                    return "node %d key %s: %r, expected %r" % (nid, k, got, src)
            else:
                src = props[s][i]
                if src is None:
                    if k in a:
                        return "node %d key %s present although missing in the source" % (nid, k)
                    continue
                got = a.get(k, "<absent>")
                if isinstance(src, list):
                    ok = isinstance(got, list) and len(got) == len(src) and all(same_value(x, y) for x, y in zip(src, got))
                else:
                    ok = k in a and same_value(src, got)
                if not ok:
                    return "node %d key %s: %r, expected %r" % (nid, k, got, src)
        extra = [k for k in a if k not in nm and k not in ("track_id", "lineage_id")]
        if extra:
            return "node %d: unmapped keys imported: %s" % (nid, extra)
    return None


# ----------------------------------------------------------------------------- run
def evaluate(it, case):
    """-> (line, impl_out, graph, flags)"""
    if case["kind"] == "C":
        _, g, io, line, flags, _ = run_csv_impl(it, case)
    else:
        g, io, line, flags = run_geff_impl(it, case)
    return line, io, g, flags


def judge(case, g, io, flags):
    """the property's verdict on the implementation's answer (None = fine)"""
    mode = case["mode"]
    if mode in MAL_MODES or mode in GEFF_MAL:
        if io == "VE":
            return None
        return "malformed source (%s) %s" % (mode, "accepted" if g is not None else "raised " + io)
    if mode in DISC_MODES:
        return None  # documented discrepancies: correspondence only
    if g is None:
        return "well-formed source (%s) rejected: %s" % (mode, io)
    return oracle_csv(case, g, flags) if case["kind"] == "C" else oracle_geff(case, g, flags)


def plan(ctx):
    rng = ctx.rng
    q = ctx.quick()
    cases = []
    for k in range(300 if q else 3000):
        cases.append(gen_csv(rng, WF_MODES[k % len(WF_MODES)]))
    for m in DISC_MODES:
        for _ in range(12 if q else 60):
            cases.append(gen_csv(rng, m))
    for m in MAL_MODES:
        for _ in range(20 if q else 100):
            cases.append(gen_csv(rng, m))
    for k in range(30 if q else 300):
        cases.append(gen_geff(rng, GEFF_WF[k % len(GEFF_WF)]))
    for m in GEFF_MAL:
        for _ in range(3 if q else 20):
            cases.append(gen_geff(rng, m))
    return cases


def run(ctx):
    it = Intern()
    cases = plan(ctx)
    stats = {"csv_wellformed": 0, "csv_malformed": 0, "csv_documented_discrepancy": 0, "geff_wellformed": 0, "geff_malformed": 0,
             "impl_ValueError": 0, "impl_ok": 0, "impl_other_exception": 0, "2D": 0, "3D": 0}
    lines, impl, graphs = [], [], []
    for c in cases:
        line, io, g, flags = evaluate(it, c)
        lines.append(line)
        impl.append(io)
        graphs.append((g, flags))
        m = c["mode"]
        grp = ("csv_" if c["kind"] == "C" else "geff_") + ("malformed" if (m in MAL_MODES or m in GEFF_MAL) else
                                                             "documented_discrepancy" if m in DISC_MODES else "wellformed")
        stats[grp] += 1
        stats["mode_" + m] = stats.get("mode_" + m, 0) + 1
        stats["%dD" % c["nd"]] += 1
        if c["kind"] == "C":
            stats["ids_" + c["id_kind"]] = stats.get("ids_" + c["id_kind"], 0) + 1
            stats["rootparent_" + c["none_style"]] = stats.get("rootparent_" + c["none_style"], 0) + 1
            stats["rows_%d" % c["n"]] = stats.get("rows_%d" % c["n"], 0) + 1
        stats["impl_ValueError" if io == "VE" else "impl_ok" if io.startswith("OK") else "impl_other_exception"] += 1
    rc, mout = C.run_driver(ctx.driver, lines)
    divergences, violations, samples, distinct = [], [], [], set()
    if rc != 0 or len(mout) != len(lines):
        divergences.append({"what": "model driver failed", "rc": rc, "out": mout[-3:]})
        mout = [""] * len(lines)
    for c, line, io, (g, flags), mo in zip(cases, lines, impl, graphs, mout):
        mc = canon_model(mo)
        if io != mc:
            divergences.append({"input": line, "mode": c["mode"], "impl": io, "model": mc})
        bad = judge(c, g, io, flags)
        if bad:
            violations.append({"what": "%s: %s" % ("tracks_from_df" if c["kind"] == "C" else "import_from_geff", bad),
                               "input": {"case": c}, "impl": io, "model": mc, "signature": "C12:" + c["mode"]})
        if c["n"] >= 2 and (io.startswith("OK") and "|" in io and io.rsplit("|", 1)[1]):
            distinct.add(line)
        if len(samples) < 5 and c["n"] >= 3 and c["mode"] in ("plain", "dupmap", "stacked", "dup_id_renamed", "unknown_parent_renum")[len(samples):len(samples) + 1]:
            samples.append({"mode": c["mode"], "input": line, "impl_output": io, "model_output": mc})
    stats["interned_strings"] = len(it.strs)
    stats["interned_float_tokens"] = len(it.toks)
    return {"evaluations": len(cases), "distinct_nontrivial": len(distinct),
            "rule": "DataFrames of 0-8 rows: ids contiguous from 1 / from 0, sparse ints, strings, integer-valued floats, non-integral floats, object-dtype ints, nullable Int64; random forests (<= 2 children, rows in topological or shuffled order); root parents encoded as -1 / NaN / None / pd.NA / '' as the id kind allows; 2D and 3D dyadic positions (10% integer columns); standard or renamed column names; composite pos in axis or reversed order, or legacy z/y/x keys; 0-3 custom columns (int, float, str, bool, float with NaN, Int64 with NA, str with None) under their own or renamed keys; list-valued custom key of 1-3 columns; duplicate mappings of one column; valid / invalid track_id and lineage_id columns; ellipse_axis_radii lists; shuffled column and name-map order. Every well-formed mode is judged by the direct oracle (node per row, exact links, every mapped value, no unmapped key); an unrelated raw column named 'id' with repeated values (must be accepted); node id 0 forced into the role of a parent / a leaf / a root (parent value 0); 18 malformation classes x 20 must raise ValueError (incl. unknown parent with integer and with renumbered ids); 3 documented domain-limit modes ('' parent with integer ids, two clashing name maps) are compared with the model only. GEFF: stores written by geff.write from networkx graphs (axes or stacked position, renamed props, attributes missing on some nodes, list-valued key with a missing component, duplicate mapping, track/lineage props) and, for the structural malformations, by geff write_arrays without validation; the model's input is what geff read_to_memory returns. Non-trivial = at least 2 rows/nodes and at least one edge imported.",
            "samples": samples, "divergences": divergences, "violations": violations, "stats": stats}


def replay(ctx, payload):
    inp = payload.get("input")
    if isinstance(inp, dict) and "witness" in inp:
        import witnesses

        r = witnesses.run(ids=[inp["witness"]])
        return {"violation": not all(x[2] for x in r), "detail": r}
    case = inp["case"]
    it = Intern()
    line, io, g, flags = evaluate(it, case)
    exe, _ = C.build_driver("C12")
    rc, mo = C.run_driver(exe, [line])
    return {"input": line, "impl": io, "model": canon_model(mo[0]) if mo else None, "violation": judge(case, g, io, flags)}
