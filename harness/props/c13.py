"""C13 - relabelling on import: correspondence of Model/Relabel.v with
funtracks.import_export._import_segmentation.relabel_segmentation (called directly)
and with TracksBuilder.handle_segmentation (through tracks_from_df), plus the
property's direct oracle (brute-force pixel map) on the implementation's output."""
from __future__ import annotations

import networkx as nx
from pathlib import Path

import numpy as np

import common as C

META = {
    "claimed": True,
    "id": "C13",
    "coq_targets": ["Props/C13.vo", "Extract/Extract_C13.vo"],
    "technique": "Coq proof (association-list model of dict(zip(..)); fold invariants for the per-frame and per-time painting loops, reusing the C19 painter lemmas) + differential correspondence of the extracted model with relabel_segmentation and with the tracks_from_df import path",
    "level_text": "Theorems C13_offset / C13_relabel / C13_relabel_last_wins / C13_graph_shift / C13_shortcut_sound / C13_handle_segmentation hold for every label array and every list of (node id, time, seg id) rows of every size (unbounded Z labels and ids); the hand-written model is tied to /repo by running the extracted model and the implementation (direct call and end-to-end DataFrame import) on the same generated inputs and comparing arrays pixel by pixel, the renamed node sets, and which branch of handle_segmentation was taken. C13_relabel_is_generated: relabel_segmentation of the model equals, for all arguments, the code translated on every run from the current _import_segmentation.py (Gen/Relabel_gen.v; fail-closed translator). Source tie: the import pipeline of the model (rename, combination of list-mapped columns, id integerisation, edge derivation, structural validation, graph construction, handle_segmentation; whole CSV build = import_csv, whole GEFF build = import_geff) equals, for all arguments, the code translated on every run from _tracks_builder.py, csv/_import.py, geff/_import.py and _validation.py (Gen/ImportPipeline_gen.v; Proofs/ImportTie.v, 24 closed theorems); pandas dtype inference, geff's id validators and file reading stay oracle inputs.",
    "level_note": "Trusted: Coq kernel, extraction (ExtrOcamlBasic), OCaml driver, Python harness. Modelled not verified: numpy boolean-mask assignment, np.unique, np.isin, np.array_equal, Python dict insertion order, networkx relabel_nodes (its effect on the node set is compared with the model on every case; edges are checked by the oracle only), pandas/geff loading of the DataFrame (row order is preserved; checked by the comparison). uint64 wrap-around is out of scope (ids are unbounded Z in the model, non-negative in the harness). Tied to the source in a second way: relabel_segmentation is re-translated on every run (harness/translate_numpy_utils.py, fail closed; numpy combinators Model/NpRt.v) and proved equal to the model (Proofs/RelabelTie.v).",
    "design_ref": "DESIGN.md section 9 (C13)",
    "assumptions": ["every row's time is a valid frame index (0 <= time < T); Python raises IndexError otherwise",
                    "C13_relabel / C13_handle_segmentation: the (time, seg id) pairs of the rows are pairwise distinct (C13_relabel_last_wins covers repeated pairs: the later row wins)",
                    "C13_handle_segmentation: the identity shortcut is not taken while 0 is a node id (only possible when node 0 has seg id 0, i.e. claims the background; then nothing is shifted - see Example C13_shortcut_id0_differs)",
                    "node ids are non-negative and below 2^64 - 1 (the output array is uint64)"],
    "trusted": ["translator harness/translate_import.py (closed idiom table; fail closed) with coq/Model/PyRt6.v",
                "translator harness/translate_numpy_utils.py (closed idiom table; fail closed) with the numpy combinators coq/Model/NpRt.v",
                "networkx.relabel_nodes(copy=False) with the mapping id -> id+1: node set and edge set after the call are compared with id+offset on every generated case"],
}

SHAPES_2D = [(2, 2), (2, 3), (3, 3), (1, 4), (3, 2)]
SHAPES_3D = [(2, 2, 2), (1, 2, 3), (2, 1, 2)]
MODES = ["random", "random", "perm", "perm", "identity_clean", "identity_clean", "identity_unlisted", "identity_stray", "id0", "id0",
         "dup_key", "ghost", "seg0"]


# array dtype dimension: name -> (numpy dtype, largest label/id base used by the generator, k of the 2^k multiples)
# (64-bit: values are kept <= 2^61 so that the OCaml driver's native ints and int64 copies hold them exactly)
DTYPES = {"uint8": (np.uint8, 255, 8), "uint16": (np.uint16, 65535, 16), "int32": (np.int32, 2 ** 31 - 1, 31),
          "int64": (np.int64, 2 ** 61, 40), "uint64": (np.uint64, 2 ** 61, 40)}
BUILDER_MAX_ID = 300000
DTYPE_DRAW = ["uint8"] * 6 + ["uint16"] * 4 + ["int32"] * 3 + ["int64"] * 5 + ["uint64"] * 2


SRC_FORMATS = ["tif_folder_unpadded", "tif_folder_unpadded", "tif_folder_padded", "tif_single", "zarr"]


def write_source(arr, fmt, root):
    """write the label array the way a user hands it over as a path; returns the path"""
    import shutil
    import tifffile
    import zarr

    d = Path(root) / "segsrc"
    shutil.rmtree(d, ignore_errors=True)
    if fmt.startswith("tif_folder"):
        d.mkdir(parents=True)
        for t in range(arr.shape[0]):
            name = ("seg_%d.tif" % t) if fmt.endswith("unpadded") else ("seg_%04d.tif" % t)
            tifffile.imwrite(d / name, arr[t])
        return d
    if fmt == "tif_single":
        d.mkdir(parents=True)
        tifffile.imwrite(d / "stack.tif", arr)
        return d / "stack.tif"
    z = zarr.open(str(d), mode="w", shape=arr.shape, dtype=arr.dtype, chunks=(1, *arr.shape[1:]))
    z[:] = arr
    return d


def mk_array(a64, dt, dask):
    arr = a64.astype(DTYPES[dt][0])
    if isinstance(dask, str):  # "path:<format>:<tmp dir>" - the segmentation is given as a path
        _, fmt, root = dask.split(":", 2)
        return write_source(arr, fmt, root)
    if dask:
        import dask.array as da

        return da.from_array(arr, chunks=(1, *arr.shape[1:]))
    return arr


def widen(rng, a, rows, dt, ident):
    """spread labels up to the dtype maximum and node ids beyond it (injectively; 0 stays 0)"""
    _, top, k = DTYPES[dt]
    narrow = dt in ("uint8", "uint16", "int32")
    if rng.random() < 0.4:
        lm = {v: top - (v - 1) for v in range(1, 13) if rng.random() < 0.5}
        for v, w in lm.items():
            a[a == v] = -w
        a[a < 0] *= -1
        rows = [((lm.get(i, i) if ident else i), t, lm.get(l, l)) for i, t, l in rows]
    if not ident and rng.random() < (0.75 if narrow else 0.4):
        orig = sorted({r[0] for r in rows})
        taken, im = set(), {}
        for i in orig:
            u = rng.random()
            if i == 0 or u < 0.3:
                c = i
            elif u < 0.65:
                c = top - 5 + i            # uint8: 251.., uint16: 65531.., int32: 2^31-5..
            elif u < 0.85:
                c = i * 2 ** k             # wraps to 0 in a k-bit buffer
            else:
                c = 2 ** k + i             # wraps to the small value i
            if c in taken or (c != i and c in orig):
                c = i                      # original ids are pairwise distinct and never taken by a transformed one
            taken.add(c)
            im[i] = c
        rows = [(im[i], t, l) for i, t, l in rows]
    return a, rows


def pframes(a):
    return ";".join(",".join(str(int(x)) for x in fr.reshape(-1)) for fr in a)


def prow(rows):
    return ",".join("%d:%d:%d" % r for r in rows)


# ----------------------------------------------------------------------------- generators
def gen_seg(rng, T, shape, unique):
    a = np.zeros((T, *shape), dtype=np.int64)
    pool = list(range(1, max(13, 3 * T + 1)))
    rng.shuffle(pool)
    for t in range(T):
        if rng.random() < 0.08:
            continue
        nlab = rng.randint(1, 3)
        labs = [pool.pop() for _ in range(nlab)] if unique else rng.sample(range(1, 7), nlab)
        flat = a[t].reshape(-1)
        for i in range(flat.size):
            if rng.random() < 0.7:
                flat[i] = rng.choice(labs)
    return a


def detections(a):
    return [(t, int(l)) for t in range(a.shape[0]) for l in np.unique(a[t]) if l != 0]


def gen_case(rng, mode, dt="int64", T=None):
    """returns (seg as int64 reference array, rows [(id, time, seg_id)], parents {id: parent id}, tags)"""
    T = T or rng.randint(2, 4)
    shape = rng.choice(SHAPES_3D) if rng.random() < 0.3 else rng.choice(SHAPES_2D)
    ident = mode.startswith("identity")
    a = gen_seg(rng, T, shape, unique=ident)
    dets = detections(a)
    rng.shuffle(dets)
    tags = set()
    if ident:
        listed = list(dets)
        if mode == "identity_unlisted" and len(listed) >= 2:
            listed.pop()
            tags.add("unlisted")
        if mode == "identity_stray" and listed:
            t0, l0 = rng.choice(listed)
            t1 = rng.choice([t for t in range(T) if t != t0])
            flat = a[t1].reshape(-1)
            flat[rng.randrange(flat.size)] = l0  # may also erase a detection: it becomes a node without pixels
            tags.add("stray")
        rows = [(l, t, l) for t, l in listed]
    else:
        listed = [d for d in dets if rng.random() < 0.85]
        n = len(listed)
        if mode == "perm":
            vals = sorted({l for _, l in listed})
            rng.shuffle(vals)
            fresh = [x for x in range(7, 30) if x not in vals]
            rng.shuffle(fresh)
            ids = (vals + fresh)[:n]
        else:
            lo = 0 if (mode == "id0" or rng.random() < 0.15) else 1
            ids = rng.sample(range(lo, 10), min(n, 10 - lo)) + list(range(20, 20 + max(0, n - (10 - lo))))
            if mode == "id0" and n and 0 not in ids:
                ids[rng.randrange(n)] = 0
        rows = [(i, t, l) for i, (t, l) in zip(ids, listed)]
        used = {r[0] for r in rows}
        fresh = [x for x in range(10, 40) if x not in used]
        if mode == "dup_key" and rows:
            _, t, l = rng.choice(rows)
            rows.insert(rng.randrange(len(rows) + 1), (fresh.pop(0), t, l))
            tags.add("dup_key")
        if mode == "ghost":
            t = rng.randrange(T)
            l = rng.choice([x for x in range(1, 9) if (t, x) not in dets])
            rows.insert(rng.randrange(len(rows) + 1), (fresh.pop(0), t, l))
            tags.add("ghost")
        if mode == "seg0":
            t = rng.randrange(T)
            rows.insert(rng.randrange(len(rows) + 1), (fresh.pop(0), t, 0))
            tags.add("seg0")
    a, rows = widen(rng, a, rows, dt, ident)
    if rng.random() < 0.5:
        rows.sort(key=lambda r: r[1])
    else:
        rng.shuffle(rows)
    # forward-in-time forest
    parents, nchild = {}, {}
    for i, t, _ in rows:
        cands = [j for j, tj, _ in rows if tj < t and nchild.get(j, 0) < 2]
        if cands and rng.random() < 0.6:
            p = rng.choice(cands)
            parents[i] = p
            nchild[p] = nchild.get(p, 0) + 1
    return a, rows, parents, tags


def classify(a, rows, tags):
    s = set(tags)
    claimed = {(t, l) for _, t, l in rows}
    if any(d not in claimed for d in detections(a)):
        s.add("unlisted")
    by_label = {}
    for _, t, l in rows:
        if l and (a[t] == l).any():
            by_label.setdefault(l, set()).add(t)
    if any(len(v) > 1 for v in by_label.values()):
        s.add("reused_label")
    off = 1 if any(i == 0 for i, _, _ in rows) else 0
    if off:
        s.add("id0")
    for i, t, l in rows:
        if any(j + off == l and j != i for j, tj, _ in rows):
            s.add("label_is_other_id")
        if any(j + off == l and j != i and tj == t for j, tj, _ in rows):
            s.add("chain_same_frame")
    if rows and all(i == l for i, _, l in rows):
        s.add("segids_eq_ids")
    return s


# ----------------------------------------------------------------------------- oracle
def oracle(a, rows, parents, out, nodes_time, edges, shifted):
    """the property text, pixel by pixel.  [shifted]: whether ids are expected to move by one"""
    off = 1 if shifted else 0
    if tuple(out.shape) != tuple(a.shape):
        return "shape %s != %s" % (out.shape, a.shape)
    T = a.shape[0]
    af, of = a.reshape(T, -1), out.reshape(T, -1)
    for t in range(T):
        for p in range(af.shape[1]):
            cl = [i + off for i, tt, l in rows if tt == t and l == af[t, p]]
            got = int(of[t, p])
            if cl and got not in cl:
                return "pixel (%d,%d) label %d: expected node id %s, got %d" % (t, p, af[t, p], cl, got)
            if not cl and got != 0:
                return "pixel (%d,%d) label %d is unclaimed but became %d" % (t, p, af[t, p], got)
    want_nodes = {i + off: t for i, t, _ in rows}
    if nodes_time != want_nodes:
        return "graph nodes/times %s, expected %s" % (sorted(nodes_time.items()), sorted(want_nodes.items()))
    want_edges = {(p + off, c + off) for c, p in parents.items()}
    if set(edges) != want_edges:
        return "graph edges %s, expected %s" % (sorted(edges), sorted(want_edges))
    return None


# ----------------------------------------------------------------------------- implementation runs
def run_direct(a, rows, parents, dt="int64", dask=False):
    from funtracks.import_export._import_segmentation import relabel_segmentation

    g = nx.DiGraph()
    for i, t, _ in rows:
        g.add_node(i, time=t)
    for c, p in parents.items():
        g.add_edge(p, c)
    out = relabel_segmentation(mk_array(a, dt, dask), g, np.array([r[0] for r in rows], dtype=np.int64),
                               np.array([r[2] for r in rows], dtype=np.int64), np.array([r[1] for r in rows], dtype=np.int64))
    return np.asarray(out), {int(n): int(g.nodes[n]["time"]) for n in g.nodes}, [(int(u), int(v)) for u, v in g.edges]


def first_pixel(a, t, l):
    idx = np.argwhere(a[t] == l)
    return None if len(idx) == 0 else [float(x) for x in idx[0]]


def builder_rows(a, rows):
    """the validation of the import looks at the LAST node only: its position must lie in its mask.
    Move a row with pixels to the end if needed; None if no row has pixels."""
    if not rows:
        return None
    if first_pixel(a, rows[-1][1], rows[-1][2]) is not None:
        return rows
    for k in range(len(rows) - 1, -1, -1):
        if first_pixel(a, rows[k][1], rows[k][2]) is not None:
            return rows[:k] + rows[k + 1:] + [rows[k]]
    return None


def run_builder(a, rows, parents, dt="int64", dask=False):
    import pandas as pd
    from funtracks.import_export import tracks_from_df

    nd = a.ndim - 1
    pos = [first_pixel(a, t, l) or [0.0] * nd for _, t, l in rows]
    d = {"id": [r[0] for r in rows], "parent_id": [parents.get(r[0], -1) for r in rows], "time": [r[1] for r in rows]}
    for k, ax in enumerate(["z", "y", "x"][-nd:]):
        d[ax] = [p[k] for p in pos]
    d["seg_id"] = [r[2] for r in rows]
    tr = tracks_from_df(pd.DataFrame(d), segmentation=mk_array(a, dt, dask))
    out = np.asarray(tr.segmentation)
    g = tr.graph
    return out, {int(n): int(g.nodes[n]["time"]) for n in g.nodes}, [(int(u), int(v)) for u, v in g.edges], (None if dt == "uint64" else out.dtype == np.uint64)


def canon(out, nodes_time):
    return pframes(out) + "|" + ",".join("%d:%d" % kv for kv in sorted(nodes_time.items()))


def canon_model(mo):
    """'<frames>|id:t:seg,...' -> '<frames>|id:t,...' sorted by id"""
    if "|" not in mo:
        return mo
    fr, rs = mo.split("|", 1)
    nt = {}
    for r in [x for x in rs.split(",") if x]:
        i, t, _ = r.split(":")
        nt[int(i)] = int(t)
    return fr + "|" + ",".join("%d:%d" % kv for kv in sorted(nt.items()))


def run(ctx):
    rng = ctx.rng
    n = 520 if ctx.quick() else 6500
    cases, lines = [], []
    stats = {"direct_runs": 0, "builder_runs": 0, "builder_skipped_no_pixels": 0, "2D": 0, "3D": 0,
             "shortcut_taken(model)": 0, "relabel_branch(model)": 0, "empty_rows": 0,
             "builder_skipped_huge_ids": 0, "dask_array": 0, "ids_beyond_dtype_max": 0, "ids_multiple_of_2^bits": 0, "labels_near_dtype_max": 0}
    for k in range(n):
        mode = MODES[k % len(MODES)]
        dt = rng.choice(DTYPE_DRAW)
        dask = rng.random() < 0.08
        a, rows, parents, tags = gen_case(rng, mode, dt)
        tg = classify(a, rows, tags)
        stats["dtype_" + dt] = stats.get("dtype_" + dt, 0) + 1
        stats["dask_array"] += int(dask)
        real_max = int(np.iinfo(DTYPES[dt][0]).max)
        off_ = 1 if any(i == 0 for i, _, _ in rows) else 0
        if any(i + off_ > real_max for i, _, _ in rows):
            stats["ids_beyond_dtype_max"] += 1
            stats["ids_beyond_dtype_max_" + dt] = stats.get("ids_beyond_dtype_max_" + dt, 0) + 1
        if any(i + off_ > real_max and (i + off_) % (real_max + 1) == 0 for i, _, _ in rows):
            stats["ids_multiple_of_2^bits"] += 1
        if a.size and int(a.max()) >= DTYPES[dt][1] - 11 and dt in ("uint8", "uint16", "int32"):
            stats["labels_near_dtype_max"] += 1
        stats["mode_" + mode] = stats.get("mode_" + mode, 0) + 1
        stats["3D" if a.ndim == 4 else "2D"] += 1
        if not rows:
            stats["empty_rows"] += 1
        cases.append(("R", a, rows, parents, tg, dt, dask))
        lines.append("R %s#%s" % (prow(rows), pframes(a)))
        brows = builder_rows(a, rows)
        id0_shortcut = "segids_eq_ids" in tg and "id0" in tg  # node 0 with seg id 0: outside C13_handle_segmentation
        if brows is None or id0_shortcut:
            stats["builder_skipped_no_pixels"] += 1
            continue
        if any(i + off_ > BUILDER_MAX_ID for i, _, _ in rows):
            # SolutionTracks runs regionprops on the imported array: scipy find_objects allocates max_label slots
            # (a node id of 2^31 or more kills the interpreter) - outside C13, so such cases only go the direct way
            stats["builder_skipped_huge_ids"] += 1
            continue
        cases.append(("H", a, brows, parents, classify(a, brows, tags), dt, dask))
        lines.append("H %s#%s" % (prow(brows), pframes(a)))
    # ---- the segmentation handed over as a PATH (folder of per-frame TIFFs with unpadded or padded frame
    #      numbers, one multi-page TIFF, a zarr array), 11-13 frames so that the order of the frames matters
    import tempfile
    tmp_root = tempfile.mkdtemp(prefix="funverif.")
    for k in range(12 if ctx.quick() else 80):
        mode = rng.choice(MODES)
        dt = rng.choice(["uint8", "uint16", "int32", "int64"])
        a, rows, parents, tags = gen_case(rng, mode, dt, T=rng.randint(11, 13))
        brows = builder_rows(a, rows)
        tg = classify(a, rows, tags)
        off_ = 1 if any(i == 0 for i, _, _ in rows) else 0
        if brows is None or ("segids_eq_ids" in tg and "id0" in tg) or any(i + off_ > BUILDER_MAX_ID for i, _, _ in rows):
            continue
        fmt = rng.choice(SRC_FORMATS)
        stats["path_" + fmt] = stats.get("path_" + fmt, 0) + 1
        cases.append(("H", a, brows, parents, classify(a, brows, tags), dt, "path:%s:%s" % (fmt, tmp_root)))
        lines.append("H %s#%s" % (prow(brows), pframes(a)))
    rc, mout = C.run_driver(ctx.driver, lines)
    divergences, violations, samples = [], [], []
    distinct = set()
    if rc != 0 or len(mout) != len(lines):
        divergences.append({"what": "model driver failed", "rc": rc, "out": mout[-3:]})
        mout = [""] * len(lines)
    for (kind, a, rows, parents, tg, dt, dask), line, mo in zip(cases, lines, mout):
        inp = {"line": line, "dtype": dt, "dask": dask, "shape": list(a.shape)}
        for x in tg:
            stats["tag_" + x] = stats.get("tag_" + x, 0) + 1
        has0 = any(i == 0 for i, _, _ in rows)
        try:
            if kind == "R":
                stats["direct_runs"] += 1
                out, nt, edges = run_direct(a, rows, parents, dt, dask)
                io, mc = canon(out, nt), canon_model(mo)
            else:
                stats["builder_runs"] += 1
                out, nt, edges, relabelled = run_builder(a, rows, parents, dt, dask)
                if relabelled is None:  # uint64 source: the branch is not observable from the output dtype
                    relabelled = mo.startswith("0")
                io = ("0 " if relabelled else "1 ") + canon(out, nt)
                mc = mo[:2] + canon_model(mo[2:])
                stats["shortcut_taken(model)" if mo.startswith("1") else "relabel_branch(model)"] += 1
            bad = oracle(a, rows, parents, out.astype(np.int64), nt, edges, shifted=has0)
        except Exception as e:  # noqa: BLE001
            io, mc = "exception %s: %s" % (type(e).__name__, str(e)[:200]), canon_model(mo)
            bad = "implementation raised " + io
        nontrivial = len(rows) >= 2 and any(l != i + (1 if has0 else 0) and (a[t] == l).any() for i, t, l in rows)
        if nontrivial:
            distinct.add(line)
        if io != mc:
            divergences.append({"input": inp, "impl": io, "model": mc})
        if bad:
            violations.append({"what": "%s: %s" % ({"R": "relabel_segmentation", "H": "tracks_from_df(segmentation, seg_id)"}[kind], bad),
                               "input": inp, "impl": io, "model": mc, "signature": "C13:" + kind})
        if len(samples) < 4 and nontrivial and kind == "RHRH"[len(samples)] and (len(samples) < 2 or has0):
            samples.append({"input": inp, "impl_output": io, "model_output": mc})
    return {"evaluations": len(cases), "distinct_nontrivial": len(distinct),
            "rule": "random label arrays (2-4 frames, 4-9 pixels per frame, 2D and 3D shapes flattened in C order, 8% empty frames, labels 1..6 reused across frames; globally unique labels 1..12 in the identity modes) with row lists built in 10 modes cycled (random, permutation, id-0 and clean-identity modes twice as often as the others): random ids 0..9 over ~85% of the detections (ids collide with label values: chains), ids = a permutation of the label values, seg ids = node ids with all labels listed (shortcut) / one detection unlisted / one stray label copied into another frame, a forced node id 0, a repeated (time, seg id), a node whose seg id has no pixels, a node with seg id 0; rows sorted by time or shuffled; random forward-in-time forest as parent_id. Array dtype drawn per case from uint8 (30%), uint16 (20%), int32 (15%), int64 (25%), uint64 (10%), 8% of the arrays wrapped in a dask array; in 40% of the cases about half of the label values are moved to dtype_max-11..dtype_max (2^61 for the 64-bit types); in 75% (narrow types) / 40% (64-bit) of the non-identity cases each non-zero node id is kept (30%), moved just around the dtype maximum (35%: 250+i for uint8, 65530+i for uint16, 2^31-6+i for int32), multiplied by 2^bits (20%) or set to 2^bits+i (15%), injectively - so ids that do not fit the source dtype are common; the model is dtype-free and outputs are compared as int64. Every case is run directly through relabel_segmentation (R) and, when some row has pixels and all node ids are <= 300000 (regionprops of the imported array allocates max-label slots), end-to-end through tracks_from_df (H; position = first pixel of the mask). Non-trivial = at least 2 rows and at least one row with pixels whose seg id differs from its final node id; distinct = distinct input lines.",
            "samples": samples, "divergences": divergences, "violations": violations, "stats": stats}


def _parse(line):
    kind, rest = line.split(" ", 1)
    rs, fs = rest.split("#", 1)
    rows = [tuple(int(x) for x in r.split(":")) for r in rs.split(",") if r]
    fr = [[int(x) for x in f.split(",")] for f in fs.split(";")]
    return kind, rows, np.array(fr, dtype=np.int64).reshape(len(fr), 1, -1)


def replay(ctx, payload):
    """re-run one input (line + dtype + shape; no edges) on implementation and model"""
    line = payload.get("input")
    if isinstance(line, dict) and "witness" in line:
        import witnesses

        r = witnesses.run(ids=[line["witness"]])
        return {"violation": not all(x[2] for x in r), "detail": r}
    dt, dask, shape = "int64", False, None
    if isinstance(line, dict):
        dt, dask, shape, line = line.get("dtype", "int64"), bool(line.get("dask")), line.get("shape"), line["line"]
    exe, _ = C.build_driver("C13")
    rc, mo = C.run_driver(exe, [line])
    kind, rows, a = _parse(line)
    if shape:
        a = a.reshape(shape)
    res = {"input": line, "dtype": dt, "dask": dask, "model": mo}
    has0 = any(i == 0 for i, _, _ in rows)
    try:
        if kind == "R":
            out, nt, edges = run_direct(a, rows, {}, dt, dask)
        else:
            out, nt, edges, _ = run_builder(a, rows, {}, dt, dask)
        res["impl"] = canon(out, nt)
        res["violation"] = oracle(a, rows, {}, out.astype(np.int64), nt, edges, shifted=has0)
    except Exception as e:  # noqa: BLE001
        res["impl"] = "exception %s: %s" % (type(e).__name__, e)
        res["violation"] = res["impl"]
    return res
