"""C07 - Segmentation labels and nodes stay in one-to-one correspondence (edit machine; engine: harness/edit_engine.py)."""
import edit_engine as G

META = {
    "id": "C07",
    "claimed": True,
    "driver_id": "Edit",
    "coq_targets": ["Props/C07.vo", "Extract/Extract_Edit.vo"],
    "technique": 'Coq invariant / refinement proofs over the executable edit-machine model + step-by-step differential correspondence of the extracted model with the implementation + direct oracle on the implementation',
    "level_text": "Proved in Coq about the executable model (Props/C07.v, all closed under the global context): C07_set_pixels, C07_mask_of, C07_pixels (array primitives: a write changes exactly the in-range pixels given and keeps the shape; a mask is exactly the in-range indices carrying the label, strictly increasing; get_pixels returns the node's time frame and exactly its pixels); W_seg (every node labels at least one pixel, only in its own time frame; every non-zero label is a node; 0 is no node) is preserved by each basic action under its documented precondition: C07_W_seg_add_node / _add_node_gen, C07_W_seg_del_node / _del_node_px, C07_W_seg_upd_seg_grow / _shrink / _gen, C07_W_seg_add_edge, C07_W_seg_del_edge, C07_W_seg_upd_attrs, C07_W_seg_upd_track (with C07_pre_write_of_W_seg linking the general mid-stroke forms to W_seg); for the whole paint/erase stroke, for every state and every stroke: C07_paint_exact (a stroke that returns normally leaves the array exactly as painted, same shape) C07_paint_error_restores (a stroke that raises at any point, also after the rollback of a refused forceable action, leaves the previous array bit for bit) and, for states satisfying W_seg in which 'time' is not a regionprops key, C07_paint_undo (Tracks.undo right after a successful stroke succeeds and restores the previous array bit for bit; the example C07_undo_needs_W_seg shows the hypothesis is needed). Every clause has a theorem about the model. C07_run_edge_calls (every state reachable from a well-formed state by any sequence, of any length, of edge-level calls - add / delete edge with and without force, swap, track queries, fresh ids - satisfies the complete invariant WF: dictionaries, forest, track ids, lineage ids, lookups, label/node correspondence, fresh features; induction over the call list); C07_run_node_calls (the same reachability statement with UserAddNode and UserDeleteNode included, accepted or refused, each UserAddNode respecting its documented preconditions - integer time / track id, no caller-supplied lineage id, and with a segmentation a non-zero id and background pixels of its own frame; Proofs/EditWFNodeExample.v shows three accepted calls outside these preconditions that break the invariant); C07_sessions (from a well-formed state with an empty history, EVERY state reached along ANY sequence - of any length - of calls of the WHOLE public interface of the edit machine - edge, swap, node, attribute and stroke edits, undo, redo, queries - accepted or refused, satisfies the complete invariant WF; hypotheses: three configuration facts no call changes, and the documented per-call preconditions of UserAddNode / node calls without segmentation at the moment each call is made; strokes, edge calls, attribute updates, undo and redo have none); C07_paint and C07_run_paint_calls (every accepted stroke yields a well-formed state; every refused stroke too, the rolled-back one included); C07_user_actions_are_generated (the seven composite user actions of the model equal, for all arguments, the code translated on every run from the current user_actions/*.py); C07_sessions_from_construction (the start state need not be assumed well formed: for every valid raw solution - forest, labels and nodes one-to-one, fresh feature table, true oracle partitions - the state constructed by enabling the core features with recomputation is well formed, so every session over the whole interface from it stays well formed). C07_core_is_generated: one level further down, the queries, the node-id counter, Tracks.undo / redo and the seven basic actions with their inverses of the model equal the code translated on every run from solution_tracks.py, tracks.py, _track_annotator.py and actions/*.py (Gen/Core_gen.v; statement in Proofs/CoreTieBundle.v). C07_direct_add_node_refuted: the known finding F-07b as machine-checked refutations (a direct UserAddNode outside its documented preconditions is accepted and breaks the correspondence; three witnesses reproduce it on the implementation and are reported as KNOWN-FINDING). C07_sessions_from_any_construction: the same for a graph that arrives with managed features of its own - the constructor as the code runs it (Model/EditCtor.v construct_any: the id lookups filled by a scan of the supplied ids, every core feature the first node carries activated at face value, every other one computed) yields a well-formed state whenever the detected features are valid on all nodes (supplied_ok), for every combination of supplied and computed features, and every session from it stays well formed (Proofs/EditCtor.v; EditCtorExample.v shows that invalid supplied ids break it); tie: constructor correspondence on every generated raw solution (harness/ctor.py). C07_accessors_are_generated: the array and attribute accessors the other translators take as primitives - Tracks.get_pixels, set_pixels, get_time, get_times, get_node_attr, get_nodes_attr, _set_node_attr, _set_nodes_attr - equal, on stated domains, the code translated on every run from data_model/tracks.py (Gen/Accessors_gen.v, harness/translate_accessors.py, Proofs/AccessorsTie.v; decorators such as lru_cache, overrides in SolutionTracks and a segmentation property are refused); outside the domains Python raises where the model is total (missing node / frame for get_pixels, index outside the frame for set_pixels): whatever get_pixels returns lies inside the domain of set_pixels. C07_no_array_stays_none / C07_no_array_stays_none_switching: tracks without a label array never acquire one - along every session of the whole public interface (edits accepted or refused, undo, redo, queries) and along every session that also switches features on and off with or without recomputation, seg stays None, with no hypothesis on the start state beyond seg = None (Proofs/EditSegNone.v, EditSegNoneToggle.v; non-vacuity example C07_no_array_nonvacuous: a stroke on such tracks is refused). C07_sessions_keep_array_shape / _switching: an array that is there is never dropped and keeps its number of frames and every frame size along every such session, whatever the calls return, rolled-back strokes included (Proofs/EditSegShape.v; C07_ex0_W_seg shows a state with an array). Erase strokes that span several frames (one UserUpdateSegmentation(0, groups) whose groups lie in two or three frames, each removing all or part of its node) are outside the edit machine's single-frame stroke operation and are checked on the implementation alone by multiframe_erase_scenarios: label / node correspondence and get_pixels after the stroke, after undo (array restored bit for bit) and after redo (painted array reproduced).",
    "level_note": 'Trusted: Coq kernel, extraction (ExtrOcamlBasic only), OCaml driver drv_Edit.ml, Python harness and oracles. Modelled, not verified: networkx DiGraph dict semantics, numpy indexing, skimage regionprops (symbolic: value = function of key, mask, spacing), psygnal. The theorems are about the hand-written model coq/Model/Edit.v; the tie to /repo is the step-by-step differential execution of the extracted model against the implementation on every run. Tied to the source in a second way: the history mechanism (action_history.py) and the seven composite user actions (user_actions/*.py) are re-translated on every run by fail-closed translators (harness/translate_history.py, translate_user_actions.py; closed idiom tables; runtime combinators Model/PyRt.v) and proved equal to the hand-written model for all arguments (Proofs/HistoryTie.v, UserActionsTie.v); trusted there: the idiom tables and combinators, and the stated conventions (get_time / successors on a missing node do not raise, StopIteration reported as KeyError, feature keys never None).',
    "design_ref": "DESIGN.md section 9 (C07)",
    "assumptions": ['the caller does not pass a lineage id to UserAddNode (outside its documented domain)', 'track_id and lineage_id features stay enabled during editing sessions', 'labels/ids are positive; times are frame indices within the array'],
    "trusted": ["translator harness/translate_accessors.py (closed idiom table; fail closed) with coq/Model/PyRt10.v (numpy frame masks, nonzero in C order, fancy-index assignment validated before writing)",
                "translator harness/translate_core.py (closed idiom table; fail closed) with coq/Model/PyRt3.v; hand models left under it: regionprops / edge annotator update, bulk compute, networkx and array primitives",
                "translators harness/translate_history.py and harness/translate_user_actions.py (closed idiom tables in their docstrings; fail closed) with the runtime combinators coq/Model/PyRt.v",
                "correspondence harness harness/editmachine.py (scenario generator, canonicalisation, numeric references for regionprops / IoU)",
                "oracles harness/edit_oracles.py"],
}


def multiframe_erase_scenarios(ctx, n):
    """implementation-only oracle for erase strokes that span SEVERAL frames (the edit machine's strokes live in
    one frame; a non-zero label may only be painted in one frame, erasing is not restricted): one
    UserUpdateSegmentation(0, groups) whose groups lie in two or three frames, each group removing all or part
    of its node. After the stroke, after undo and after redo: every node labels at least one pixel and only in
    its own frame, every label is a node, get_pixels(node) is exactly the node's pixels; undo restores the array
    bit for bit and redo reproduces the painted array."""
    import networkx as nx
    import numpy as np
    from funtracks.data_model import SolutionTracks
    from funtracks.user_actions import UserUpdateSegmentation

    rng = ctx.rng
    out, stats = [], {"multiframe_scenarios": 0, "multiframe_groups": 0, "multiframe_partial_groups": 0}

    def corr(tr, label):
        seg = np.asarray(tr.segmentation)
        for n_ in tr.graph.nodes:
            where = [k for k in range(seg.shape[0]) if (seg[k] == n_).any()]
            if where != [int(tr.get_time(n_))]:
                return "%s: node %d (time %d) labels pixels in frames %s" % (label, n_, tr.get_time(n_), where)
            px = tr.get_pixels(n_)
            want = np.nonzero(seg[int(tr.get_time(n_))] == n_)
            if px is None or any(not np.array_equal(a, b) for a, b in zip(px[1:], want)) or not (np.asarray(px[0]) == tr.get_time(n_)).all():
                return "%s: get_pixels(%d) is not the node's pixel set" % (label, n_)
        for l in np.unique(seg):
            if l and int(l) not in tr.graph.nodes:
                return "%s: label %d (%d px) belongs to no node" % (label, int(l), int((seg == l).sum()))
        return None

    for k in range(n):
        T = rng.randint(3, 4)
        seg = np.zeros((T, 8, 10), dtype=rng.choice([np.uint16, np.int64]))
        ids = rng.sample(range(1, 40), T + 1)
        g = nx.DiGraph()
        for tm in range(T):
            seg[tm, 1:4, 1:7] = ids[tm]
            g.add_node(ids[tm], time=tm)
            if tm:
                g.add_edge(ids[tm - 1], ids[tm])
        seg[T - 1, 5:7, 2:6] = ids[T]
        g.add_node(ids[T], time=T - 1)
        g.add_edge(ids[T - 2], ids[T])
        tr = SolutionTracks(g, segmentation=seg, ndim=3)
        frames = sorted(rng.sample(range(T), rng.randint(2, min(3, T))))
        rng.shuffle(frames)
        groups, partial = [], 0
        for tm in frames:
            node = ids[tm]
            full = rng.random() < 0.45
            region = np.zeros(seg.shape[1:], dtype=bool)
            if full:
                region[:] = True
            else:
                region[1:4, 1:rng.randint(2, 6)] = True
                partial += 1
            idx = np.nonzero(region & (np.asarray(tr.segmentation)[tm] == node))
            groups.append(((np.full(len(idx[0]), tm), *idx), int(node)))
        stats["multiframe_scenarios"] += 1
        stats["multiframe_groups"] += len(groups)
        stats["multiframe_partial_groups"] += partial
        desc = {"scenario": k, "nodes": {int(i_): int(g.nodes[i_]["time"]) for i_ in ids}, "edges": [list(e) for e in g.edges],
                "erase": [{"frame": int(px[0][0]), "node": ov, "pixels": int(len(px[0]))} for px, ov in groups]}
        before = np.array(tr.segmentation)
        bad = None
        label = "stroke"
        try:
            for px, _ in groups:
                tr.set_pixels(px, 0)
            painted = np.array(tr.segmentation)
            UserUpdateSegmentation(tr, 0, groups, current_track_id=1)
            bad = corr(tr, "after the erase stroke over frames %s" % [int(px[0][0]) for px, _ in groups])
            if bad is None and not np.array_equal(np.asarray(tr.segmentation), painted):
                bad = "the stroke did not leave the array as painted"
            if bad is None:
                label = "undo"
                tr.undo()
                bad = corr(tr, "after undo")
                if bad is None and not np.array_equal(np.asarray(tr.segmentation), before):
                    bad = "undo did not restore the array bit for bit (%d pixels differ)" % int((np.asarray(tr.segmentation) != before).sum())
            if bad is None:
                label = "redo"
                tr.redo()
                bad = corr(tr, "after redo")
                if bad is None and not np.array_equal(np.asarray(tr.segmentation), painted):
                    bad = "redo did not reproduce the painted array (%d pixels differ)" % int((np.asarray(tr.segmentation) != painted).sum())
        except Exception as e:  # noqa: BLE001
            bad = "%s raised %s: %s" % (label, type(e).__name__, str(e)[:120])
        if bad:
            out.append({"what": "erase stroke over several frames: " + bad, "input": desc, "signature": "C07:multiframe-erase"})
    return out, stats


def run(ctx):
    res = G.run_property(ctx, "C07", n_quick=400, n_thorough=6000, seg_p=1.0)
    viol, stats = multiframe_erase_scenarios(ctx, 30 if ctx.quick() else 400)
    res["violations"] = list(res.get("violations", [])) + viol
    res.setdefault("stats", {}).update(stats)
    res["evaluations"] = res.get("evaluations", 0) + 3 * stats["multiframe_scenarios"]
    return res


def replay(ctx, payload):
    return G.replay(ctx, payload)
