"""C19 - label utilities: correspondence of Model/LabelUtils.v with
funtracks.utils._segmentation_utils, plus the property's direct oracle."""
from __future__ import annotations

import networkx as nx
import numpy as np

import common as C

META = {
    "claimed": True,
    "id": "C19",
    "coq_targets": ["Props/C19.vo", "Extract/Extract_C19.vo"],
    "technique": "Coq proof (induction over the frame list; fold invariant for the by-track painter) + differential correspondence of the extracted model with the implementation",
    "level_text": "Theorems C19_unique_partition / C19_unique_global / C19_unique_multiseg / C19_by_track / C19_by_track_same_label hold for every label array of every size (unbounded Z labels); the hand-written model is tied to /repo by running the extracted model and the implementation on the same generated arrays and comparing the outputs element by element. C19_unique_is_generated / C19_unique_multiseg_is_generated / C19_by_track_is_generated: the three model functions equal, for all arguments, the code translated on every run from the current _segmentation_utils.py (Gen/LabelUtils_gen.v; fail-closed translator over the numpy combinators of Model/NpRt.v). The implementation is called on three memory layouts of every generated array (fresh C-ordered copy, Fortran-ordered copy, transposed view), since reshape returns a view for the first and a copy for the others.",
    "level_note": "Trusted: Coq kernel, extraction (ExtrOcamlBasic), OCaml driver, Python harness. Modelled not verified: numpy elementwise ops and reshape, networkx weakly_connected_components (its answer is an input of the model; the theorem assumes only that (time, seg id) pairs are distinct), uint64 wrap-around is out of scope (labels are unbounded Z in the model). Tied to the source in a second way: _segmentation_utils.py is re-translated on every run (harness/translate_numpy_utils.py, fail closed; numpy combinators Model/NpRt.v, trusted one-liners) and proved equal to the model for all arguments (Proofs/LabelUtilsTie.v).",
    "design_ref": "DESIGN.md section 9 (C19)",
    "assumptions": ["labels are non-negative and small enough that adding the running maximum does not wrap in uint64",
                    "by-track: no two solution nodes claim the same (time, seg_id) detection"],
    "trusted": ["translator harness/translate_numpy_utils.py (closed idiom table; fail closed) with the numpy combinators coq/Model/NpRt.v",
                "networkx.weakly_connected_components: its component list is fed to the model as an oracle answer (order included)"],
}


def pframes(a):
    return ";".join(",".join(str(int(x)) for x in fr.reshape(-1)) for fr in a)


def gen_array(rng, T=None, shape=None, empty_p=0.25, maxlab=6):
    T = T if T is not None else rng.randint(1, 5)
    shape = shape or rng.choice([(2, 2), (3, 2), (2, 2, 2), (1, 4)])
    a = np.zeros((T, *shape), dtype=np.int64)
    for t in range(T):
        if rng.random() < empty_p:
            continue
        nlab = rng.randint(1, 3)
        labs = [rng.randint(1, maxlab) for _ in range(nlab)]
        flat = a[t].reshape(-1)
        for i in range(flat.size):
            if rng.random() < 0.6:
                flat[i] = rng.choice(labs)
    return a


def oracle_unique(inp, out):
    """partition per frame unchanged, no label in two frames (frames = first axis after reshape)"""
    T = inp.shape[0]
    seen = {}
    for t in range(T):
        i, o = inp[t].reshape(-1), out[t].reshape(-1)
        if ((i == 0) != (o == 0)).any():
            return "background changed in frame %d" % t
        m = {}
        rm = {}
        for x, y in zip(i.tolist(), o.tolist()):
            if x == 0:
                continue
            if m.setdefault(x, y) != y or rm.setdefault(y, x) != x:
                return "partition of frame %d changed" % t
        for y in set(o.tolist()) - {0}:
            if y in seen and seen[y] != t:
                return "label %d occurs in frames %d and %d" % (y, seen[y], t)
            seen[y] = t
    return None


def gen_solution(rng, seg):
    """a forest over a subset of the detections of seg; node ids are arbitrary; seg_id attr = label"""
    T = seg.shape[0]
    dets = [(t, int(l)) for t in range(T) for l in np.unique(seg[t]) if l != 0]
    rng.shuffle(dets)
    chosen = [d for d in dets if rng.random() < 0.8]
    g = nx.DiGraph()
    ids = rng.sample(range(1, 60), len(chosen))
    for nid, (t, l) in zip(ids, chosen):
        g.add_node(nid, time=t, seg_id=l)
    order = list(g.nodes)
    rng.shuffle(order)
    maxdeg = 3 if rng.random() < 0.2 else 2
    for v in order:
        # mostly binary forests; one case in five allows a third child (a division is "more than one child")
        cands = [u for u in g.nodes if g.nodes[u]["time"] < g.nodes[v]["time"] and g.out_degree(u) < maxdeg]
        if cands and rng.random() < 0.75:
            g.add_edge(rng.choice(cands), v)
    return g


def segments_reference(g):
    """independent partition: union-find over edges whose source has out-degree 1"""
    parent = {n: n for n in g.nodes}

    def find(x):
        while parent[x] != x:
            parent[x] = parent[parent[x]]
            x = parent[x]
        return x

    for u, v in g.edges:
        if g.out_degree(u) == 1:
            parent[find(u)] = find(v)
    return {n: find(n) for n in g.nodes}


def oracle_by_track(g, seg, out):
    cls = segments_reference(g)
    lab_of = {}
    for n in g.nodes:
        t, s = g.nodes[n]["time"], g.nodes[n]["seg_id"]
        vals = set(out[t][seg[t] == s].reshape(-1).tolist())
        if len(vals) != 1 or 0 in vals:
            return "detection of node %d not uniformly relabelled: %s" % (n, sorted(vals))
        lab_of[n] = vals.pop()
    ns = list(g.nodes)
    for a in ns:
        for b in ns:
            if (lab_of[a] == lab_of[b]) != (cls[a] == cls[b]):
                return "nodes %d,%d: same label %s vs same segment %s" % (a, b, lab_of[a] == lab_of[b], cls[a] == cls[b])
    claimed = {(g.nodes[n]["time"], g.nodes[n]["seg_id"]) for n in g.nodes}
    for t in range(seg.shape[0]):
        for l in np.unique(seg[t]):
            if l != 0 and (t, int(l)) not in claimed and (out[t][seg[t] == l] != 0).any():
                return "detection (%d,%d) is not in the solution but survives" % (t, int(l))
        if (out[t][seg[t] == 0] != 0).any() and (t, 0) not in claimed:
            return "background of frame %d painted" % t
    return None


def _layout(rng, a, stats):
    """the same values in one of the memory layouts callers hand over: a fresh C-ordered copy, a Fortran-ordered
    copy, or a transposed view (np.moveaxis of an array stored with the first two axes exchanged) - reshape
    returns a view for the first and a copy for the others"""
    r = rng.random()
    if r < 0.5 or a.ndim < 2:
        return a.copy()
    if r < 0.75:
        stats["layout_fortran"] = stats.get("layout_fortran", 0) + 1
        return np.asfortranarray(a)
    stats["layout_moveaxis_view"] = stats.get("layout_moveaxis_view", 0) + 1
    return np.moveaxis(np.ascontiguousarray(np.moveaxis(a, 1, 0)), 1, 0)


def run(ctx):
    from funtracks.utils._segmentation_utils import ensure_unique_labels, relabel_segmentation_with_track_id

    rng = ctx.rng
    n_u, n_m, n_t = (400, 150, 400) if ctx.quick() else (8000, 3000, 8000)
    cases, lines = [], []
    for _ in range(n_u):
        a = gen_array(rng)
        cases.append(("U", a, None))
        lines.append("U " + pframes(a))
    for _ in range(n_m):
        H, T = rng.randint(1, 3), rng.randint(1, 3)
        shape = rng.choice([(2, 2), (3, 1), (2, 2, 2), (2, 1, 3)])   # 2D+t and 3D+t hypotheses
        a = np.stack([gen_array(rng, T=T, shape=shape) for _ in range(H)])
        cases.append(("M", a, None))
        lines.append("M " + "|".join(pframes(h) for h in a))
    for _ in range(n_t):
        a = gen_array(rng, empty_p=0.1)
        g = gen_solution(rng, a)
        parents = [n for n, d in g.out_degree() if d > 1]
        cp = g.copy()
        for p in parents:
            cp.remove_edges_from(list(g.out_edges(p)))
        comps = [list(c) for c in nx.weakly_connected_components(cp)]
        cs = ";".join(",".join("%d:%d:%d" % (n, g.nodes[n]["time"], g.nodes[n]["seg_id"]) for n in c) for c in comps)
        cases.append(("T", a, g))
        lines.append("T " + (cs + "#" if cs else "") + pframes(a))
    rc, mout = C.run_driver(ctx.driver, lines)
    divergences, violations, samples = [], [], []
    distinct = set()
    stats = {"U": 0, "M": 0, "T": 0, "frames_empty": 0, "with_division": 0, "unlisted_detections": 0}
    if rc != 0 or len(mout) != len(lines):
        divergences.append({"what": "model driver failed", "rc": rc, "out": mout[-3:]})
        mout = [""] * len(lines)
    for (kind, a, g), line, mo in zip(cases, lines, mout):
        stats[kind] += 1
        if kind == "U":
            out = ensure_unique_labels(_layout(rng, a, stats))
            io = pframes(out)
            bad = oracle_unique(a, np.asarray(out).astype(np.int64))
            stats["frames_empty"] += int(sum(1 for t in range(a.shape[0]) if not a[t].any()))
            nontrivial = len({int(x) for x in a.reshape(-1)}) > 1 and a.shape[0] > 1
        elif kind == "M":
            out = ensure_unique_labels(_layout(rng, a, stats), multiseg=True)
            io = "|".join(pframes(h) for h in out)
            flat_in = a.reshape((-1, *a.shape[2:]))
            bad = oracle_unique(flat_in, np.asarray(out).astype(np.int64).reshape(flat_in.shape))
            nontrivial = a.any()
        else:
            out = relabel_segmentation_with_track_id(g, a)
            io = pframes(out)
            bad = oracle_by_track(g, a, np.asarray(out))
            stats["with_division"] += int(any(d > 1 for _, d in g.out_degree()))
            claimed = {(g.nodes[n]["time"], g.nodes[n]["seg_id"]) for n in g.nodes}
            stats["unlisted_detections"] += int(any((t, int(l)) not in claimed for t in range(a.shape[0]) for l in np.unique(a[t]) if l))
            nontrivial = g.number_of_edges() > 0
        if nontrivial:
            distinct.add(line)
        if io != mo:
            divergences.append({"input": line, "impl": io, "model": mo})
        if bad:
            violations.append({"what": "%s: %s" % ({"U": "ensure_unique_labels", "M": "ensure_unique_labels(multiseg)", "T": "relabel_segmentation_with_track_id"}[kind], bad),
                               "input": line, "impl": io, "model": mo, "signature": "C19:" + kind})
        if len(samples) < 3 and nontrivial and kind == "UMT"[len(samples)]:
            samples.append({"input": line, "impl_output": io, "model_output": mo})
    return {"evaluations": len(cases), "distinct_nontrivial": len(distinct),
            "rule": "random label arrays (1-5 frames, 4-8 pixels, 25% empty frames, labels 1..6 reused across frames); multiseg arrays H x T; by-track: random binary forests over ~80% of the detections with arbitrary node ids. A case is non-trivial when it has >1 frame and >1 label (unique) / at least one edge (by-track); distinct = distinct input lines.",
            "samples": samples, "divergences": divergences, "violations": violations, "stats": stats}


def replay(ctx, payload):
    """re-run one input line on implementation and model"""
    from funtracks.utils._segmentation_utils import ensure_unique_labels

    line = payload.get("input")
    if isinstance(line, dict) and "witness" in line:
        import witnesses

        r = witnesses.run(ids=[line["witness"]])
        return {"violation": not all(x[2] for x in r), "detail": r}
    exe, _ = C.build_driver("C19")
    rc, mo = C.run_driver(exe, [line])
    out = {"input": line, "model": mo}
    if line.startswith("U "):
        a = np.array([[int(x) for x in f.split(",")] for f in line[2:].split(";")])
        o = ensure_unique_labels(a.copy())
        out["impl"] = pframes(o)
        out["violation"] = oracle_unique(a, np.asarray(o).astype(np.int64))
    return out
