"""C15 - subset export is closed under ancestors and contains nothing else:
correspondence of Model/SubsetExport.v with funtracks.import_export (filter_graph_with_ancestors,
export_to_csv(node_ids=...), export_to_geff(node_ids=...)), plus the property's direct oracle."""
from __future__ import annotations

import csv
import itertools
import shutil
import tempfile
from pathlib import Path

import networkx as nx
import numpy as np
import tifffile

import common as C

META = {
    "claimed": True,
    "id": "C15",
    "coq_targets": ["Props/C15.vo", "Extract/Extract_C15.vo"],
    "technique": "Coq proof (soundness, saturation and completeness of a fuelled upward search inside the finite node universe; arithmetic of range(0, dim, chunk) tilings; product of per-axis tilings) + differential correspondence of the extracted model with the implementation",
    "level_text": "Theorems C15_closure / C15_parent_closed / C15_geff_graph / C15_csv_rows / C15_seg / C15_seg_any_chunks / C15_chunks / C15_chunks_nd hold for every finite digraph (no forest shape assumed), every selection of its nodes, every array shape with non-empty axes and every positive chunk size; the hand-written model is tied to /repo by running the extracted model and the implementation (filter_graph_with_ancestors directly, export_to_csv and export_to_geff through files read back from disk) on the same generated graphs, selections and label arrays and comparing node sets, parent column, edge sets and every pixel. C15_filter_is_generated(_partial): filter_graph_with_ancestors of the model equals, for all arguments, the code translated on every run from the current _utils.py (Gen/SubsetUtils_gen.v; fail-closed translator). Source tie: the export side of the model (CSV rows and header, the relabelled label image with its dtype choice and the empty selection, GEFF subgraph and the chunk loop masking the array, split_position_attr, FeatureDict dump / from_json) equals, for all arguments, the code translated on every run from csv/_export.py, geff/_export.py, internal_format.py and _feature_dict.py (Gen/ExportPipeline_gen.v; Proofs/ExportTie.v, 21 closed theorems); every file write is an event carrying exactly the value handed to the writer.",
    "level_note": "Trusted: Coq kernel, extraction (ExtrOcamlBasic), OCaml driver, Python harness. Modelled not verified: networkx (nx.ancestors = breadth-first upward search, DiGraph.subgraph, predecessor order), numpy (isin/where, basic slicing, C-order flattening), zarr slice assignment and fill value 0, geff.write, pandas DataFrame/to_csv. The model of the chunk loop is pointwise: a pixel covered by some visited block holds the masked label, an uncovered pixel holds the fill value 0; the tiling theorems show every pixel is covered. Tied to the source in a second way: filter_graph_with_ancestors is re-translated on every run (harness/translate_pure.py + translate_utils.py, fail closed; sets as duplicate-free lists) and proved equal to the model (Proofs/SubsetTie.v).",
    "design_ref": "DESIGN.md section 9 (C15)",
    "assumptions": ["every edge end point is a node of the graph (always true of a networkx graph) and the selection is a subset of the nodes (nx.ancestors raises NetworkXError otherwise)",
                    "segmentation axes are non-empty; labels equal node ids",
                    "export_to_csv with an EMPTY selection raises KeyError (pandas: no columns in an empty frame) - the empty selection is therefore exercised for filter_graph_with_ancestors and export_to_geff only; counted in stats.csv_empty_selection_raises"],
    "trusted": ["translator harness/translate_export.py (closed idiom table; fail closed) with coq/Model/PyRt7.v, Model/ExportImage.v",
                "translator harness/translate_pure.py + translate_utils.py (closed idiom table; fail closed) with coq/Model/PyRt2.v (sets = duplicate-free lists)",
                "networkx: predecessor iteration order is passed to the model as the order of the edge list",
                "zarr/geff/pandas/csv readers used to read the exported files back"],
}

CHUNK = 64  # export_to_geff: chunk_size = (64, 64, 64) padded with 1


# ----------------------------------------------------------------------------- generators
def gen_times(rng, n, T, per_frame=3):
    """n times in range(T), at most per_frame nodes per frame"""
    while True:
        if T > 10:  # long movie: cluster around the chunk border of the time axis and the ends
            pool = [0, 1, 2, CHUNK - 2, CHUNK - 1, CHUNK, CHUNK + 1, T - 1]
            pool = sorted({t for t in pool if 0 <= t < T})
            ts = [rng.choice(pool) for _ in range(n)]
        else:
            ts = [rng.randrange(T) for _ in range(n)]
        if max(ts.count(t) for t in ts) <= per_frame and len(set(ts)) > 1:
            return ts


def gen_forest(rng, T=None, merge_p=0.06, zero_p=0.0):
    """random forest: 3-8 nodes, non-contiguous ids, binary divisions, frame-skipping edges, several
    lineages; with probability merge_p one node gets a second parent (not a valid solution, the code
    does not check it)."""
    n = rng.randint(3, 8)
    T = T or rng.randint(3, 6)
    ids = rng.sample(range(1, 90), n)
    if rng.random() < zero_p:
        ids[rng.randrange(n)] = 0     # node id 0 (0-based tables; only without a label array)
    ts = gen_times(rng, n, T)
    times = dict(zip(ids, ts))
    order = sorted(ids, key=lambda i: (times[i], rng.random()))
    edges, outdeg = [], {i: 0 for i in ids}
    root_p = rng.choice([0.15, 0.3, 0.5])
    for v in order:
        cands = [u for u in ids if times[u] < times[v] and outdeg[u] < 2]
        if cands and rng.random() > root_p:
            # prefer recent frames, allow skips
            cands.sort(key=lambda u: -times[u])
            u = cands[0] if rng.random() < 0.5 else rng.choice(cands)
            edges.append((u, v))
            outdeg[u] += 1
    merged = False
    if rng.random() < merge_p:
        vs = [v for _, v in edges]
        rng.shuffle(vs)
        for v in vs:
            par = [u for u, w in edges if w == v]
            cands = [u for u in ids if times[u] < times[v] and u not in par]
            if cands:
                edges.append((rng.choice(cands), v))
                merged = True
                break
    return times, edges, merged


def gen_digraph(rng):
    """arbitrary digraph for filter_graph_with_ancestors: merges, cycles, self loops, isolated nodes"""
    n = rng.randint(1, 9)
    ids = rng.sample(range(0, 70), n)
    g = nx.DiGraph()
    g.add_nodes_from(ids)
    m = rng.randint(0, 2 * n)
    for _ in range(m):
        g.add_edge(rng.choice(ids), rng.choice(ids))
    return g


def gen_selection(rng, g, allow_empty):
    nodes = list(g.nodes)
    r = rng.random()
    if r < 0.06 and allow_empty:
        return []
    if r < 0.25:
        leaves = [n for n in nodes if g.out_degree(n) == 0]
        return rng.sample(leaves, rng.randint(1, min(2, len(leaves))))
    if r < 0.35:
        roots = [n for n in nodes if g.in_degree(n) == 0]
        return rng.sample(roots, 1)
    if r < 0.5:
        div_children = [v for u in nodes if g.out_degree(u) == 2 for v in g.successors(u)]
        if div_children:
            return [rng.choice(div_children)]
    k = rng.choice([1, 1, 2, 2, 3, rng.randint(1, len(nodes))])
    return rng.sample(nodes, min(k, len(nodes)))


SHAPES3 = [(4, 5), (3, 3), (65, 3), (2, 70), (66, 65), (64, 4), (5, 128)]
SHAPES4 = [(2, 3, 4), (1, 65, 2), (2, 2, 3), (65, 2, 3), (3, 2, 2)]


def gen_seg(rng, times, ndim=None, long_t=False):
    """label array with one region (1-3 pixels, label = node id) per node in its own frame; pixels are
    drawn preferably next to chunk borders and array ends"""
    ndim = ndim or rng.choice([3, 3, 4])
    T = max(times.values()) + 1
    if long_t:
        sp = rng.choice([(2, 3), (3, 2)]) if ndim == 3 else (1, 2, 2)
    else:
        sp = rng.choice(SHAPES3 if ndim == 3 else SHAPES4)
        T += rng.randint(0, 1)
    seg = np.zeros((T, *sp), dtype=rng.choice([np.int64, np.uint64, np.int32, np.uint16]))
    size = int(np.prod(sp))
    special = {size - 1, 0}
    for ax, d in enumerate(sp):
        for c in (CHUNK - 1, CHUNK, d - 1):
            if 0 <= c < d:
                idx = [rng.randrange(x) for x in sp]
                idx[ax] = c
                special.add(int(np.ravel_multi_index(idx, sp)))
    special = sorted(special)
    for t in set(times.values()):
        here = [n for n in times if times[n] == t]
        free = list(range(size))
        rng.shuffle(free)
        sp_here = [p for p in special if rng.random() < 0.7]
        rng.shuffle(sp_here)
        free = sp_here + [p for p in free if p not in sp_here]
        flat = seg[t].reshape(-1)
        k = 0
        for n in here:
            npx = max(1, min(rng.randint(1, 3), (len(free) - k) - (len(here) - here.index(n) - 1)))
            for p in free[k:k + npx]:
                flat[p] = n
            k += npx
    return seg


# ----------------------------------------------------------------------------- model I/O
def model_line(cmd, g, sel, seg=None):
    nodes = list(g.nodes)
    edges = [(u, v) for v in nodes for u in g.predecessors(v)]  # per target, in predecessor order
    shape = "" if seg is None else ",".join(str(d) for d in seg.shape)
    labs = "" if seg is None else ",".join(str(int(x)) for x in seg.reshape(-1))
    return "%s %s|%s|%s|%s|%s" % (cmd, ",".join(map(str, nodes)), ",".join("%d:%d" % e for e in edges),
                                   ",".join(map(str, sel)), shape, labs)


def _ints(s):
    return [int(x) for x in s.split(",")] if s else []


def _pairs(s, opt=False):
    out = []
    for x in (s.split(",") if s else []):
        a, b = x.split(":")
        out.append((int(a), (int(b) if b != "" else None) if opt else int(b)))
    return out


def parse_model(cmd, out):
    f = out.split("#")
    if cmd == "K" and len(f) == 4:
        return {"keep": sorted(_ints(f[0])), "rows": sorted(_pairs(f[1], True), key=lambda r: r[0]),
                "gnodes": sorted(_ints(f[2])), "gedges": sorted(_pairs(f[3]))}
    if cmd == "Z" and len(f) == 3:
        return {"gnodes": sorted(_ints(f[0])), "gedges": sorted(_pairs(f[1])), "seg": _ints(f[2])}
    return None


# ----------------------------------------------------------------------------- oracle
def oracle_keep(g, sel):
    """independent upward walk"""
    seen, stack = set(sel), list(sel)
    while stack:
        v = stack.pop()
        for u in g.predecessors(v):
            if u not in seen:
                seen.add(u)
                stack.append(u)
    return seen


def oracle_csv(g, sel, rows):
    keep = oracle_keep(g, sel)
    ids = [r[0] for r in rows]
    if len(ids) != len(set(ids)):
        return "a node has two rows: %s" % ids
    if set(ids) != keep:
        return "rows %s, expected selection+ancestors %s" % (sorted(ids), sorted(keep))
    for n, p in rows:
        par = list(g.predecessors(n))
        if p is None and par:
            return "node %d has parent %s in the solution but an empty parent_id" % (n, par)
        if p is not None and p not in par:
            return "parent_id %d of node %d is not its parent %s" % (p, n, par)
        if p is not None and p not in keep:
            return "parent_id %d of node %d has no row" % (p, n)
    return None


def oracle_geff(g, sel, gnodes, gedges, seg_in, seg_out):
    keep = oracle_keep(g, sel)
    if len(gnodes) != len(set(gnodes)) or set(gnodes) != keep:
        return "nodes %s, expected selection+ancestors %s" % (sorted(gnodes), sorted(keep))
    exp_e = sorted((u, v) for u, v in g.edges if u in keep and v in keep)
    if sorted(gedges) != exp_e:
        return "edges %s, expected %s" % (sorted(gedges), exp_e)
    have = set(gedges)
    for v in gnodes:
        for u in g.predecessors(v):
            if u not in set(gnodes) or (u, v) not in have:
                return "exported node %d misses its parent %d" % (v, u)
    if seg_in is not None:
        if seg_out is None or seg_out.shape != seg_in.shape:
            return "segmentation shape %s, expected %s" % (None if seg_out is None else seg_out.shape, seg_in.shape)
        exp = np.where(np.isin(seg_in, sorted(keep)), seg_in, 0)
        if not np.array_equal(exp, seg_out):
            bad = np.argwhere(exp != seg_out)[0]
            return "segmentation pixel %s holds %d, expected %d (input label %d)" % (
                tuple(int(x) for x in bad), int(seg_out[tuple(bad)]), int(exp[tuple(bad)]), int(seg_in[tuple(bad)]))
    return None


# ----------------------------------------------------------------------------- implementation runners
def make_tracks(times, edges, seg=None):
    import witnesses as W

    ndim = 3 if seg is None else seg.ndim
    return W._sol(dict(times), list(edges), seg=seg, ndim=ndim)


def shifted_track_ids(tracks, off):
    """the same solution with every track id raised by off (existing valid ids are kept on construction)"""
    from funtracks.data_model import SolutionTracks

    g = tracks.graph
    g2 = nx.DiGraph()
    for n in g.nodes:
        g2.add_node(n, time=int(tracks.get_time(n)), track_id=int(tracks.get_track_id(n)) + off)
    g2.add_edges_from(g.edges)
    seg = np.array(tracks.segmentation)
    return SolutionTracks(g2, segmentation=seg, ndim=seg.ndim)


def make_tracks_axes(times, edges):
    """the same solution with the position stored per axis (attributes y, x)"""
    from funtracks.data_model import SolutionTracks

    g = nx.DiGraph()
    for n, t in times.items():
        g.add_node(n, time=t, y=float(n), x=0.5 * n)
    g.add_edges_from(edges)
    return SolutionTracks(g, ndim=3, pos_attr=["y", "x"])


def run_csv(tracks, sel, path, seg_path=None):
    from funtracks.import_export import export_to_csv

    if seg_path is not None:
        export_to_csv(tracks, path, node_ids=sel, export_seg=True, seg_path=seg_path)
    else:
        export_to_csv(tracks, path, node_ids=sel)
    with open(path, newline="") as fh:
        rd = list(csv.DictReader(fh))
    rows = []
    for r in rd:
        p = r["parent_id"]
        rows.append((int(float(r["id"])), None if p == "" else int(float(p))))
    return sorted(rows, key=lambda r: r[0])


def run_geff(tracks, sel, d):
    import zarr
    from funtracks.import_export import export_to_geff

    export_to_geff(tracks, d, node_ids=sel)
    z = zarr.open(str(d / "tracks"), mode="r")
    gnodes = [int(x) for x in np.asarray(z["nodes/ids"][:]).reshape(-1)]
    e = np.asarray(z["edges/ids"][:])
    gedges = [(int(a), int(b)) for a, b in e.reshape(-1, 2)] if e.size else []
    seg = None
    if (d / "segmentation").exists():
        seg = np.asarray(zarr.open(str(d / "segmentation"), mode="r")[:])
    return gnodes, gedges, seg


def selection_arg(rng, sel):
    """the API is annotated set[int]; the tests also pass a list"""
    r = rng.random()
    if r < 0.7:
        return set(sel)
    if r < 0.9:
        return list(sel)
    return list(sel) + list(sel[:1])  # a duplicate


# ----------------------------------------------------------------------------- run
def run(ctx):
    from funtracks.import_export._utils import filter_graph_with_ancestors

    rng = ctx.rng
    quick = ctx.quick()
    n_forests_k, sel_per_forest, n_f, n_z = (110, 4, 500, 72) if quick else (1500, 4, 6000, 700)
    root = Path(tempfile.mkdtemp(prefix="funverif."))
    cases = []  # dicts: kind, line, g, sel, and implementation results
    stats = {"csv": 0, "filter_digraph": 0, "geff_seg": 0, "geff_noseg": 0, "csv_with_seg_tracks": 0, "empty_selection": 0,
             "csv_empty_selection_raises": 0, "with_division": 0, "multi_lineage": 0, "merge_graphs": 0,
             "cyclic_digraphs": 0, "selection_adds_ancestors": 0, "selection_excludes_nodes": 0,
             "seg_multi_chunk": 0, "seg_pixels": 0, "seg_pixels_zeroed": 0, "seg_4d": 0, "exhaustive_subset_forests": 0}
    violations, divergences, samples = [], [], []
    try:
        # ---- K: export_to_csv + filter_graph_with_ancestors on solution forests
        for fi in range(n_forests_k):
            times, edges, merged = gen_forest(rng, zero_p=0.3)
            per_axis = (not merged) and rng.random() < 0.3   # (a copy of a merge graph may order the parents differently)
            tracks = make_tracks_axes(times, edges) if per_axis else make_tracks(times, edges)
            g = tracks.graph.copy() if per_axis else tracks.graph   # reference copy: the export must not prune the live graph
            if per_axis:
                # an earlier subset export of the same tracks object (GEFF, another selection) must not influence
                # the later ones
                stats["per_axis_with_earlier_export"] = stats.get("per_axis_with_earlier_export", 0) + 1
                try:
                    run_geff(tracks, set(gen_selection(rng, g, False)), root / ("pre%d" % fi))
                except Exception:  # noqa: BLE001
                    pass
                shutil.rmtree(root / ("pre%d" % fi), ignore_errors=True)
            stats["merge_graphs"] += int(merged)
            sels = [gen_selection(rng, g, True) for _ in range(sel_per_forest)]
            if not quick and len(times) <= 6 and fi % 10 == 0:
                nodes = list(g.nodes)
                sels = [list(c) for k in range(len(nodes) + 1) for c in itertools.combinations(nodes, k)]
                stats["exhaustive_subset_forests"] += 1
            for sel in sels:
                c = {"kind": "K", "g": g, "sel": sel, "line": model_line("K", g, sel), "times": times, "api": "csv"}
                c["keep"] = sorted(filter_graph_with_ancestors(g, selection_arg(rng, sel)))
                try:
                    c["rows"] = run_csv(tracks, selection_arg(rng, sel), root / "out.csv")
                except Exception as e:  # noqa: BLE001
                    c["rows"] = None
                    c["exc"] = "%s: %s" % (type(e).__name__, str(e)[:120])
                stats["csv"] += 1
                cases.append(c)
        # ---- F: filter_graph_with_ancestors on arbitrary digraphs
        for _ in range(n_f):
            g = gen_digraph(rng)
            nodes = list(g.nodes)
            sel = rng.sample(nodes, rng.randint(0, min(3, len(nodes))))
            c = {"kind": "F", "g": g, "sel": sel, "line": model_line("K", g, sel), "api": "filter"}
            c["keep"] = sorted(filter_graph_with_ancestors(g, selection_arg(rng, sel)))
            stats["filter_digraph"] += 1
            stats["cyclic_digraphs"] += int(not nx.is_directed_acyclic_graph(g))
            cases.append(c)
        # ---- ZB: large selections over sparse ids (numpy's isin switches algorithm with the size of the kept
        #          set and the spread of the ids): two or three chains over 36-70 frames, ids = 1000 * t + label
        for bi in range(2 if quick else 14):
            L = rng.randint(36, 70)
            nch = rng.choice([2, 3])
            times, edges = {}, []
            for c in range(1, nch + 1):
                prev = None
                for t in range(L):
                    if rng.random() < 0.06 and prev is not None and t < L - 1:
                        continue  # a gap: frame-skipping edge
                    n = 1000 * t + c
                    times[n] = t
                    if prev is not None:
                        edges.append((prev, n))
                    prev = n
            side = rng.choice([6, 8])
            seg = np.zeros((L, side, side), dtype=rng.choice([np.int32, np.int64, np.uint32]))
            for n, t in times.items():
                c = n % 1000
                seg[t, (c - 1) * 2:(c - 1) * 2 + 2, 0:rng.randint(2, side)] = n
            tracks = make_tracks(times, edges, seg=seg)
            g = tracks.graph
            ends = [max(n for n in times if n % 1000 == c) for c in range(1, nch + 1)]
            sel = [rng.choice(ends)] if rng.random() < 0.6 else rng.sample(sorted(times), rng.randint(1, 3))
            seg_in = np.array(tracks.segmentation)
            c = {"kind": "Z", "g": g, "sel": sel, "line": model_line("Z", g, sel, seg_in), "times": times, "api": "geff",
                 "seg_in": seg_in}
            d = root / ("b%d" % bi)
            try:
                c["gnodes"], c["gedges"], c["seg_out"] = run_geff(tracks, set(sel), d)
            except Exception as e:  # noqa: BLE001
                c["gnodes"] = None
                c["exc"] = "%s: %s" % (type(e).__name__, str(e)[:120])
            shutil.rmtree(d, ignore_errors=True)
            stats["geff_seg"] += 1
            stats["geff_large_sparse"] = stats.get("geff_large_sparse", 0) + 1
            cases.append(c)
        # ---- Z: export_to_geff with / without segmentation
        for zi in range(n_z):
            with_seg = rng.random() < 0.75
            long_t = with_seg and rng.random() < 0.12
            times, edges, merged = gen_forest(rng, T=CHUNK + 3 if long_t else None, merge_p=0.03, zero_p=0.0 if with_seg else 0.4)
            seg = gen_seg(rng, times, long_t=long_t) if with_seg else None
            tracks = make_tracks(times, edges, seg=seg)
            g = tracks.graph
            sel = gen_selection(rng, g, True)
            seg_in = None if seg is None else np.array(tracks.segmentation)
            c = {"kind": "Z", "g": g, "sel": sel, "line": model_line("Z", g, sel, seg_in), "times": times, "api": "geff",
                 "seg_in": seg_in}
            d = root / ("g%d" % zi)
            try:
                c["gnodes"], c["gedges"], c["seg_out"] = run_geff(tracks, selection_arg(rng, sel), d)
            except Exception as e:  # noqa: BLE001
                c["gnodes"] = None
                c["exc"] = "%s: %s" % (type(e).__name__, str(e)[:120])
            shutil.rmtree(d, ignore_errors=True)
            if with_seg and (zi % 3 == 0 or not long_t):  # the CSV export of tracks that carry a segmentation
                c2 = {"kind": "K", "g": g, "sel": sel, "line": model_line("K", g, sel), "times": times, "api": "csv"}
                c2["keep"] = sorted(filter_graph_with_ancestors(g, set(sel)))
                # track ids may be much larger than node ids (every split allocates a fresh one): the
                # exported label image is relabelled by track id and must still hold every kept mask
                off = 0 if merged else rng.choice([0, 0, 250, 65530, 2 ** 32 - 3])  # (rebuilding a merge graph would reorder parents)
                tr2 = tracks if off == 0 else shifted_track_ids(tracks, off)
                try:
                    c2["rows"] = run_csv(tr2, set(sel), root / "out.csv", seg_path=root / "out.tif")
                    c2["tif"] = np.asarray(tifffile.imread(root / "out.tif")) if sel else None
                    c2["tid"] = {int(n): int(tr2.get_track_id(n)) for n in g.nodes}
                    c2["seg_in"] = seg_in
                except Exception as e:  # noqa: BLE001
                    c2["rows"] = None
                    c2["exc"] = "%s: %s" % (type(e).__name__, str(e)[:120])
                stats["csv_with_seg_tracks"] += 1
                stats["csv_seg_large_track_ids"] = stats.get("csv_seg_large_track_ids", 0) + int(off > 0)
                cases.append(c2)
            stats["geff_seg" if with_seg else "geff_noseg"] += 1
            stats["merge_graphs"] += int(merged)
            if with_seg:
                nblocks = int(np.prod([len(range(0, dim, ch)) for dim, ch in
                                       zip(seg_in.shape, ([CHUNK] * 3 + [1] * seg_in.ndim)[:seg_in.ndim])]))
                stats["seg_multi_chunk"] += int(nblocks > 1)
                stats["seg_4d"] += int(seg_in.ndim == 4)
                stats["seg_pixels"] += int(seg_in.size)
            cases.append(c)
    finally:
        shutil.rmtree(root, ignore_errors=True)

    lines = [c["line"] for c in cases]
    rc, mout = C.run_driver(ctx.driver, lines)
    if rc != 0 or len(mout) != len(lines):
        divergences.append({"what": "model driver failed", "rc": rc, "out": [m[:200] for m in mout[-3:]]})
        mout = [""] * len(lines)

    distinct = set()
    for c, mo in zip(cases, mout):
        g, sel, kind = c["g"], c["sel"], c["kind"]
        m = parse_model("Z" if kind == "Z" else "K", mo)
        keep_o = oracle_keep(g, sel)
        short = c["line"] if len(c["line"]) < 400 else c["line"][:400] + "...(%d chars)" % len(c["line"])
        inp = {"line": short, "api": c["api"], "selection": list(sel), "nodes": list(g.nodes), "edges": [list(e) for e in g.edges],
               "times": c.get("times")}
        if kind == "Z" and c.get("seg_in") is not None:
            inp["seg_shape"] = list(c["seg_in"].shape)
            inp["seg_nonzero"] = [[int(x) for x in p] + [int(c["seg_in"][tuple(p)])] for p in np.argwhere(c["seg_in"])]
        if not sel:
            stats["empty_selection"] += 1
        if g.number_of_nodes() and any(d == 2 for _, d in g.out_degree()):
            stats["with_division"] += 1
        if nx.number_weakly_connected_components(g) > 1:
            stats["multi_lineage"] += 1
        adds, excl = len(keep_o) > len(set(sel)), len(keep_o) < g.number_of_nodes()
        stats["selection_adds_ancestors"] += int(adds)
        stats["selection_excludes_nodes"] += int(excl)
        if adds and excl:
            distinct.add(c["line"])
        impl_repr, bad = None, None
        if m is None:
            divergences.append({"input": inp, "impl": None, "model": mo[:300], "what": "unparsable model output"})
            continue
        if kind in ("K", "F"):
            impl_repr = {"keep": c["keep"], "rows": c.get("rows")}
            if c["keep"] != m["keep"]:
                divergences.append({"input": inp, "impl": c["keep"], "model": m["keep"], "what": "filter_graph_with_ancestors"})
            if c["keep"] != sorted(keep_o):
                bad = "filter_graph_with_ancestors returned %s, expected selection+ancestors %s" % (c["keep"], sorted(keep_o))
            if kind == "K":
                if c["rows"] is None:
                    if not sel and c.get("exc", "").startswith("KeyError"):
                        stats["csv_empty_selection_raises"] += 1  # see META.assumptions
                    else:
                        bad = bad or "export_to_csv raised %s" % c.get("exc")
                else:
                    if c.get("tif") is not None and bad is None:
                        si, tid = c["seg_in"], c["tid"]
                        exp = np.zeros(si.shape, dtype=np.uint64)
                        for n in keep_o:
                            exp[si == n] = tid[int(n)]
                        got = c["tif"].astype(np.uint64) if c["tif"].shape == si.shape else None
                        if got is None:
                            bad = "csv segmentation shape %s, expected %s" % (c["tif"].shape, si.shape)
                        elif not np.array_equal(got, exp):
                            b_ = tuple(int(x) for x in np.argwhere(got != exp)[0])
                            bad = "csv segmentation (dtype %s) pixel %s holds %d, expected track id %d of node %d" % (
                                c["tif"].dtype, b_, int(got[b_]), int(exp[b_]), int(si[b_]))
                        inp["track_ids"] = tid
                    if c["rows"] != m["rows"]:
                        divergences.append({"input": inp, "impl": c["rows"], "model": m["rows"], "what": "csv rows"})
                    bad = bad or oracle_csv(g, sel, c["rows"])
        else:
            if c["gnodes"] is None:
                bad = "export_to_geff raised %s" % c.get("exc")
            else:
                so = c["seg_out"]
                impl_repr = {"nodes": sorted(c["gnodes"]), "edges": sorted(c["gedges"])}
                if sorted(c["gnodes"]) != m["gnodes"] or sorted(c["gedges"]) != m["gedges"]:
                    divergences.append({"input": inp, "impl": impl_repr, "model": {"nodes": m["gnodes"], "edges": m["gedges"]},
                                        "what": "geff graph"})
                flat = [] if so is None else [int(x) for x in so.reshape(-1)]
                if flat != m["seg"]:
                    k = next((i for i, (a, b) in enumerate(zip(flat, m["seg"])) if a != b), None)
                    divergences.append({"input": inp, "what": "geff segmentation: first differing flat index %s (lengths %d / %d)" % (k, len(flat), len(m["seg"])),
                                        "impl": None if k is None else flat[k], "model": None if k is None else m["seg"][k]})
                if so is not None:
                    stats["seg_pixels_zeroed"] += int(((c["seg_in"] != 0) & (so == 0)).sum())
                bad = oracle_geff(g, sel, c["gnodes"], c["gedges"], c.get("seg_in"), so)
        if bad:
            violations.append({"what": "%s: %s" % (c["api"], bad), "input": inp, "impl": impl_repr, "model": mo[:300],
                               "signature": "C15:" + c["api"]})
        if len(samples) < 3 and adds and excl and kind == "KFZ"[len(samples)]:
            samples.append({"input": short, "impl_output": impl_repr, "model_output": mo[:300]})
    return {"evaluations": len(cases), "distinct_nontrivial": len(distinct),
            "rule": "random forests (3-8 nodes, ids sampled from 1..89, binary divisions, frame-skipping edges, 1-4 lineages, ~5% with one merge) "
                    "as SolutionTracks; selections: leaves, roots, children of divisions, 1-3 random nodes, large random subsets, ~6% empty "
                    "(thorough: additionally all subsets of every 10th forest with <= 6 nodes); export_to_csv for every case, "
                    "export_to_geff for the Z cases (75% with a segmentation of 3 or 4 dims, label = node id, axes of length 65-128 so that several "
                    "64-chunks and a ragged last chunk are visited, 4-D arrays so that the chunk-1 axis is visited, 12% with 67 frames); "
                    "filter_graph_with_ancestors also on arbitrary digraphs (merges, cycles, self loops). "
                    "A case is non-trivial when the kept set is strictly between the selection and all nodes; distinct = distinct model input lines.",
            "samples": samples, "divergences": divergences, "violations": violations, "stats": stats}


def replay(ctx, payload):
    """re-run one recorded input (graph, times, selection) on the implementation and evaluate the oracle"""
    inp = payload.get("input") or {}
    if isinstance(inp, dict) and "witness" in inp:
        import witnesses

        r = witnesses.run(ids=[inp["witness"]])
        return {"violation": not all(x[2] for x in r), "detail": r}
    from funtracks.import_export._utils import filter_graph_with_ancestors

    sel, api = inp.get("selection", []), inp.get("api")
    out = {"input": inp}
    root = Path(tempfile.mkdtemp(prefix="funverif."))
    try:
        if api == "filter":
            g = nx.DiGraph()
            g.add_nodes_from(inp["nodes"])
            g.add_edges_from(tuple(e) for e in inp["edges"])
            keep = sorted(filter_graph_with_ancestors(g, set(sel)))
            out["impl"] = keep
            out["violation"] = None if keep == sorted(oracle_keep(g, sel)) else "returned %s, expected %s" % (keep, sorted(oracle_keep(g, sel)))
            return out
        times = {int(k): int(v) for k, v in (inp.get("times") or {}).items()}
        seg = None
        if inp.get("seg_shape"):
            seg = np.zeros(tuple(inp["seg_shape"]), dtype=np.int64)
            for *p, lab in inp["seg_nonzero"]:
                seg[tuple(p)] = lab
        tracks = make_tracks({n: times[n] for n in inp["nodes"]}, [tuple(e) for e in inp["edges"]], seg=seg)
        g = tracks.graph
        try:
            if api == "csv":
                rows = run_csv(tracks, set(sel), root / "out.csv")
                out["impl"] = rows
                out["violation"] = oracle_csv(g, sel, rows)
            else:
                gn, ge, so = run_geff(tracks, set(sel), root / "g")
                out["impl"] = {"nodes": sorted(gn), "edges": sorted(ge)}
                out["violation"] = oracle_geff(g, sel, gn, ge, seg, so)
        except Exception as e:  # noqa: BLE001
            out["violation"] = "export raised %s: %s" % (type(e).__name__, e)
        return out
    finally:
        shutil.rmtree(root, ignore_errors=True)
