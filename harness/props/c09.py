"""C09 - Edge IoU equals the true overlap (edit machine; engine: harness/edit_engine.py)."""
import edit_engine as G

META = {
    "id": "C09",
    "claimed": True,
    "driver_id": "Edit",
    "coq_targets": ["Props/C09.vo", "Extract/Extract_Edit.vo"],
    "technique": 'Coq invariant / refinement proofs over the executable edit-machine model + step-by-step differential correspondence of the extracted model with the implementation + direct oracle on the implementation',
    "level_text": 'Proved in Coq about the executable model (Props/C09.v, all closed under the global context): C09_iou_of_spec (the value the edge annotator computes is |A n B| / |A u B| for the duplicate-free masks A, B of the two endpoints, each taken in its own time frame - frames need not be adjacent -, 0 when they do not meet, with |A u B| + |A n B| = |A| + |B|); the edge half iou_fresh of W_fresh (every edge stores iou_of of the current array) is preserved by each basic action under its documented precondition: C09_fresh_add_edge and C09_add_edge_value (the new edge stores the IoU of its endpoint masks whatever the caller passed), C09_fresh_upd_seg (all edges into or out of the repainted node are recomputed, the others keep valid values), C09_fresh_add_node, C09_fresh_other (DeleteEdge, UpdateNodeAttrs, UpdateTrackIDs, DeleteNode). The bulk computation path (compute_iou over all edges) is not modelled: its agreement with the incremental path is checked by the harness oracle on every run, not proved. C09_run_edge_calls (every state reachable from a well-formed state by any sequence, of any length, of edge-level calls - add / delete edge with and without force, swap, track queries, fresh ids - satisfies the complete invariant WF: dictionaries, forest, track ids, lineage ids, lookups, label/node correspondence, fresh features; induction over the call list); C09_run_node_calls (the same reachability statement with UserAddNode and UserDeleteNode included, accepted or refused, each UserAddNode respecting its documented preconditions - integer time / track id, no caller-supplied lineage id, and with a segmentation a non-zero id and background pixels of its own frame; Proofs/EditWFNodeExample.v shows three accepted calls outside these preconditions that break the invariant); C09_sessions (from a well-formed state with an empty history, EVERY state reached along ANY sequence - of any length - of calls of the WHOLE public interface of the edit machine - edge, swap, node, attribute and stroke edits, undo, redo, queries - accepted or refused, satisfies the complete invariant WF; hypotheses: three configuration facts no call changes, and the documented per-call preconditions of UserAddNode / node calls without segmentation at the moment each call is made; strokes, edge calls, attribute updates, undo and redo have none); C09_paint and C09_run_paint_calls (every accepted stroke yields a well-formed state; every refused stroke too, the rolled-back one included); C09_user_actions_are_generated (the seven composite user actions of the model equal, for all arguments, the code translated on every run from the current user_actions/*.py); C09_sessions_from_construction (the start state need not be assumed well formed: for every valid raw solution - forest, labels and nodes one-to-one, fresh feature table, true oracle partitions - the state constructed by enabling the core features with recomputation is well formed, so every session over the whole interface from it stays well formed). C09_core_is_generated: one level further down, the queries, the node-id counter, Tracks.undo / redo and the seven basic actions with their inverses of the model equal the code translated on every run from solution_tracks.py, tracks.py, _track_annotator.py and actions/*.py (Gen/Core_gen.v; statement in Proofs/CoreTieBundle.v). Source tie: the regionprops and edge annotators of the model (incremental update and bulk compute) equal, for all arguments, the code translated on every run from _regionprops_annotator.py, _edge_annotator.py and _compute_ious.py (Gen/Annotators_gen.v; Proofs/AnnotatorsTie.v, 25 closed theorems); this closes the chain from the user actions through the basic actions down to the annotators. C09_sessions_from_any_construction: the same for a graph that arrives with managed features of its own - the constructor as the code runs it (Model/EditCtor.v construct_any: the id lookups filled by a scan of the supplied ids, every core feature the first node carries activated at face value, every other one computed) yields a well-formed state whenever the detected features are valid on all nodes (supplied_ok), for every combination of supplied and computed features, and every session from it stays well formed (Proofs/EditCtor.v; EditCtorExample.v shows that invalid supplied ids break it); tie: constructor correspondence on every generated raw solution (harness/ctor.py). C09_sessions_from_prepared_registry: likewise for tracks constructed with a prepared feature registry (features=<FeatureDict>: load_tracks, application-built registries; Model/EditCtor.v construct_dict - scan, activate what is registered, compute nothing): if everything registered is valid on the graph (EditCtorDict.dict_ok) the constructed state is well formed and every session from it stays well formed; EditCtorDictExample.v has a reloaded solution and a stale-area counter-example; tie: driver line CD of the constructor correspondence. Feature switching inside a session: C09_switch_step (one enable_features-with-recomputation / disable_features call of non-id features keeps the complete invariant WF and the side facts, touches neither history stack nor the array; a refused call returns the state itself), C09_sessions_with_switching_partial (every state along switches ++ an editing session with undo / redo ++ any mix of switches and edits without undo / redo is well formed) and C09_sessions_with_switching_conditional (any interleaving, from the one open hypothesis transport_along: the recorded actions stay consistent transitions between the switched timeline states); undo / redo after a switch is therefore covered by correspondence + oracles only (every run mixes switches into the C08 / C09 / C10 sessions). Proofs/EditSessionsToggle.v.',
    "level_note": 'Trusted: Coq kernel, extraction (ExtrOcamlBasic only), OCaml driver drv_Edit.ml, Python harness and oracles. Modelled, not verified: networkx DiGraph dict semantics, numpy indexing, skimage regionprops (symbolic: value = function of key, mask, spacing), psygnal. The theorems are about the hand-written model coq/Model/Edit.v; the tie to /repo is the step-by-step differential execution of the extracted model against the implementation on every run. Tied to the source in a second way: the history mechanism (action_history.py) and the seven composite user actions (user_actions/*.py) are re-translated on every run by fail-closed translators (harness/translate_history.py, translate_user_actions.py; closed idiom tables; runtime combinators Model/PyRt.v) and proved equal to the hand-written model for all arguments (Proofs/HistoryTie.v, UserActionsTie.v); trusted there: the idiom tables and combinators, and the stated conventions (get_time / successors on a missing node do not raise, StopIteration reported as KeyError, feature keys never None).',
    "design_ref": "DESIGN.md section 9 (C09)",
    "assumptions": ['the caller does not pass a lineage id to UserAddNode (outside its documented domain)', 'track_id and lineage_id features stay enabled during editing sessions', 'labels/ids are positive; times are frame indices within the array'],
    "trusted": ["translator harness/translate_annotators.py (closed idiom table; fail closed) with coq/Model/PyRt8.v; regionprops_extended / skimage is an oracle",
                "translator harness/translate_core.py (closed idiom table; fail closed) with coq/Model/PyRt3.v; hand models left under it: regionprops / edge annotator update, bulk compute, networkx and array primitives",
                "translators harness/translate_history.py and harness/translate_user_actions.py (closed idiom tables in their docstrings; fail closed) with the runtime combinators coq/Model/PyRt.v",
                "correspondence harness harness/editmachine.py (scenario generator, canonicalisation, numeric references for regionprops / IoU)",
                "oracles harness/edit_oracles.py"],
}


def iou_scenarios(ctx, n):
    """implementation-only oracle with the label values and array dtypes the edit machine does not generate:
    node ids up to the maximum of uint8 / uint16 label arrays (also int32 / int64 with ids around 2^16 and
    2^17), several cells per frame overlapping several cells of the next frame, edges between consecutive
    frames and frame-skipping edges, isolated pairs that do not overlap. After construction with iou enabled,
    after every stroke / undo / redo and after disable + enable, every edge's stored iou must equal
    |A n B| / |A u B| of the two current masks (numpy on boolean masks)."""
    import networkx as nx
    import numpy as np
    from funtracks.data_model import SolutionTracks
    from funtracks.user_actions import UserUpdateSegmentation

    rng = ctx.rng
    out, stats = [], {"iou_scenarios": 0, "iou_steps": 0, "iou_edges_checked": 0, "iou_dtypes": {}}
    for k in range(n):
        dt = rng.choice([np.uint8, np.uint8, np.uint16, np.uint16, np.int32, np.int64, np.uint32])
        # scipy.ndimage.find_objects allocates one slot per label value: ids stay below 2^17 (domain limit of the numeric kernel)
        top = {np.uint8: 255, np.uint16: 65535, np.int32: 70000, np.uint32: 70000, np.int64: 131071}[dt]
        pools = [list(range(max(1, top - 40), top + 1)), list(range(1, 40)),
                 [x for x in (15, 16, 17, 31, 32, 33, 63, 64, 65, 127, 128, 129, 254, 255, 256, 257, 4095, 4096, 65535, 65536, 65537) if x <= top]]
        T, H, W = rng.randint(3, 4), 8, 12
        seg = np.zeros((T, H, W), dtype=dt)
        g = nx.DiGraph()
        used = set()
        frames = []
        for tm in range(T):
            cells = []
            cols = sorted(rng.sample(range(0, W - 2), rng.randint(2, 3)))
            for j, c0 in enumerate(cols):
                pool = rng.choice(pools)
                cand = [x for x in pool if x not in used]
                if not cand:
                    continue
                nid = rng.choice(cand)
                used.add(nid)
                r0 = rng.randint(0, 3)
                c1 = min(W, c0 + rng.randint(2, 5))
                region = np.zeros((H, W), dtype=bool)
                region[r0:r0 + rng.randint(2, 5), c0:c1] = True
                region &= seg[tm] == 0
                if not region.any():
                    used.discard(nid)
                    continue
                seg[tm][region] = nid
                g.add_node(nid, time=tm)
                cells.append(nid)
            frames.append(cells)
        for tm in range(T - 1):
            for b in frames[tm + 1]:
                if frames[tm] and rng.random() < 0.85:
                    a = rng.choice(frames[tm])
                    if g.out_degree(a) < 2:
                        g.add_edge(a, b)
        for tm in range(T - 2):   # frame-skipping edges
            for b in frames[tm + 2]:
                if g.in_degree(b) == 0 and frames[tm] and rng.random() < 0.6:
                    a = rng.choice(frames[tm])
                    if g.out_degree(a) < 2:
                        g.add_edge(a, b)
        if g.number_of_edges() == 0:
            continue
        tr = SolutionTracks(g, segmentation=seg, time_attr="time", ndim=3)
        tr.enable_features(["iou"])
        stats["iou_scenarios"] += 1
        stats["iou_dtypes"][np.dtype(dt).name] = stats["iou_dtypes"].get(np.dtype(dt).name, 0) + 1
        desc = {"scenario": k, "dtype": np.dtype(dt).name, "nodes": {int(x): int(g.nodes[x]["time"]) for x in g.nodes},
                "edges": [[int(a), int(b)] for a, b in g.edges], "seg": np.asarray(seg).tolist()}

        def check(label):
            s_ = np.asarray(tr.segmentation)
            for a, b in tr.graph.edges:
                ma, mb = s_[tr.get_time(a)] == a, s_[tr.get_time(b)] == b
                inter, union = int((ma & mb).sum()), int((ma | mb).sum())
                want = inter / union if union else 0.0
                got = tr.graph.edges[a, b].get("iou")
                stats["iou_edges_checked"] += 1
                if got is None or abs(float(got) - want) > 1e-12:
                    return "after %s: edge (%d, %d) stores iou %s, the masks overlap in %d of %d pixels (%s)" % (label, a, b, got, inter, union, want)
            return None

        def stroke(value, tm, sl):
            arr = np.asarray(tr.segmentation)
            region = np.zeros(arr.shape[1:], dtype=bool)
            region[sl] = True
            groups = []
            for ov in np.unique(arr[tm][region]):
                if value == ov:
                    continue
                idx = np.nonzero(region & (arr[tm] == ov))
                groups.append(((np.full(len(idx[0]), tm), *idx), int(ov)))
            if not groups:
                return
            for px, _ in groups:
                tr.set_pixels(px, value)
            UserUpdateSegmentation(tr, value, groups, tr.get_track_id(value) if value in tr.graph else tr.get_next_track_id())

        nodes = sorted(tr.graph.nodes)
        grow = rng.choice(nodes)
        steps = [("grow node %d" % grow, lambda: stroke(grow, tr.get_time(grow), (slice(2, 6), slice(rng.randint(0, 6), 12)))),
                 ("undo", tr.undo), ("redo", tr.redo),
                 ("disable / enable iou", lambda: (tr.disable_features(["iou"]), tr.enable_features(["iou"]))),
                 ("erase two rows of frame 1", lambda: stroke(0, 1, (slice(3, 5), slice(0, 12)))),
                 ("undo", tr.undo), ("redo", tr.redo), ("undo", tr.undo), ("undo", tr.undo)]
        label = "construction"
        try:
            bad = check(label)
            for label, fn in steps:
                if bad:
                    break
                fn()
                stats["iou_steps"] += 1
                bad = check(label)
        except Exception as e:  # noqa: BLE001
            bad = "%s raised %s: %s" % (label, type(e).__name__, str(e)[:120])
        if bad:
            out.append({"what": "IoU with %s labels: %s" % (np.dtype(dt).name, bad), "input": desc, "signature": "C09:iou-direct"})
    return out, stats


def run(ctx):
    res = G.run_property(ctx, "C09", n_quick=400, n_thorough=6000, seg_p=1.0, toggles=0.15)
    viol, stats = iou_scenarios(ctx, 40 if ctx.quick() else 500)
    res["violations"] = list(res.get("violations", [])) + viol
    res.setdefault("stats", {}).update(stats)
    res["evaluations"] = res.get("evaluations", 0) + stats["iou_steps"]
    return res


def replay(ctx, payload):
    return G.replay(ctx, payload)
