"""C01 - Every edit is exactly invertible (edit machine; engine: harness/edit_engine.py)."""
import edit_engine as G

META = {
    "id": "C01",
    "claimed": True,
    "driver_id": "Edit",
    "coq_targets": ["Props/C01.vo", "Extract/Extract_Edit.vo"],
    "technique": 'Coq invariant / refinement proofs over the executable edit-machine model + step-by-step differential correspondence of the extracted model with the implementation + direct oracle on the implementation',
    "level_text": "Machine-checked in Coq over the executable edit-machine model (coq/Props/C01.v, proofs in coq/Proofs/EditInverse.v; 18 theorems, all closed under the global context). obs_eq (pointwise equality of node set, edge set, every registered node/edge feature with None == absent, the whole segmentation array, the feature table) is an equivalence (C01_obs_eq_equivalence). For each of the seven primitive actions, under its documented precondition and the named invariants, applying it and inverting it yields a pre-state-equivalent state, and inverting the inverse yields a post-state-equivalent state: C01_basic_add_edge [edge absent before], C01_basic_del_edge, C01_basic_upd_attrs [no hypothesis], C01_basic_upd_seg [painted pixels hold the value the inverse writes back], C01_basic_add_node [new id, background pixels in the node's own frame], C01_basic_del_node [no incident edges, the node's own pixels], C01_basic_upd_track [new id not found downstream]; undo of AddEdge / AddNode restores graph, array and feature table literally (..._exact), undo of UpdateTrackIDs restores every attribute of every node; every inverse reads and writes only graph, array and feature table (C01_inverse_reads_core_only). Composite user actions on well-formed states (WF = all invariants of Proofs/EditInv.v): C01_user_delete_edge (plain and division case), C01_user_add_edge (join / new division, with and without the forced removal of the merge edge) and C01_user_update_attrs: the recorded group, inverted, restores the observable state. Composition principle for ActionGroup (C01_group: a chain of n-times-invertible members is an n-times-invertible group) and the Tr_inv / Tr_src hypotheses of the C02 timeline theorem for that notion (C01_timeline_hypotheses). C01_preconditions_necessary: four computed counterexamples showing that each dropped precondition breaks restoration in the model. NOT proved in Coq, resting only on the step-by-step differential correspondence of the extracted model with the implementation plus the undo/redo oracle on the implementation: the user-level statement for UserAddNode, UserDeleteNode, UserSwapPredecessors and UserUpdateSegmentation; redo (inverting the inverse) at the user level; and the per-member hypothesis of the composition principle for UpdateTrackIDs when its inverse runs in a state that is only observably - not attribute-for-attribute - equal to the recorded post-state (the relabelling walk depends on adjacency order, which undo of DeleteEdge does not restore), hence multi-step undo/redo timelines over arbitrary edits. The lookups' maxima are not restored by undo (by design; C06 covers the lookups). User level, all composites (Proofs/EditInverseNode.v): C01_user_swap, C01_user_delete_node, C01_user_add_node (on a well-formed state, inverting the recorded group restores the observable state) and C01_consistent_delete_edge / _add_edge / _swap / _delete_node / _add_node: TrI W_dict - the action can be undone, redone, undone ... any number of times, each time from any state with well-formed dictionaries that is observably equal to the expected one; this is the transition relation of the timeline theorem (C02_edit_machine_timeline). C01_consistent_paint and C01_consistent_update_attrs (the same for strokes - no precondition - and attribute updates). C01_sessions: over whole sessions of ANY edits of the public interface with undo / redo interleaved in any order and number, the state after each call is observably the state under the cursor of the list+cursor timeline (every undo shows the state before, every redo the state after). C01_user_actions_are_generated: the composite actions of the model equal the code translated on every run from user_actions/*.py. C01_core_is_generated: one level further down, the queries, the node-id counter, Tracks.undo / redo and the seven basic actions with their inverses of the model equal the code translated on every run from solution_tracks.py, tracks.py, _track_annotator.py and actions/*.py (Gen/Core_gen.v; statement in Proofs/CoreTieBundle.v).",
    "level_note": 'Trusted: Coq kernel, extraction (ExtrOcamlBasic only), OCaml driver drv_Edit.ml, Python harness and oracles. Modelled, not verified: networkx DiGraph dict semantics, numpy indexing, skimage regionprops (symbolic: value = function of key, mask, spacing), psygnal. The theorems are about the hand-written model coq/Model/Edit.v; the tie to /repo is the step-by-step differential execution of the extracted model against the implementation on every run. Tied to the source in a second way: the history mechanism (action_history.py) and the seven composite user actions (user_actions/*.py) are re-translated on every run by fail-closed translators (harness/translate_history.py, translate_user_actions.py; closed idiom tables; runtime combinators Model/PyRt.v) and proved equal to the hand-written model for all arguments (Proofs/HistoryTie.v, UserActionsTie.v); trusted there: the idiom tables and combinators, and the stated conventions (get_time / successors on a missing node do not raise, StopIteration reported as KeyError, feature keys never None).',
    "design_ref": "DESIGN.md section 9 (C01)",
    "assumptions": ['the caller does not pass a lineage id to UserAddNode (outside its documented domain)', 'track_id and lineage_id features stay enabled during editing sessions', 'labels/ids are positive; times are frame indices within the array'],
    "trusted": ["translator harness/translate_core.py (closed idiom table; fail closed) with coq/Model/PyRt3.v; hand models left under it: regionprops / edge annotator update, bulk compute, networkx and array primitives",
                "translators harness/translate_history.py and harness/translate_user_actions.py (closed idiom tables in their docstrings; fail closed) with the runtime combinators coq/Model/PyRt.v",
                "correspondence harness harness/editmachine.py (scenario generator, canonicalisation, numeric references for regionprops / IoU)",
                "oracles harness/edit_oracles.py"],
}


def pre_build(ctx):
    # undo / redo are part of what this property quantifies over: re-translate action_history.py
    import translate_history

    ok, msg = translate_history.regenerate()
    if not ok:
        raise RuntimeError("translator refused action_history.py: %s" % msg)
    # the composite user actions: re-translate user_actions/*.py (Gen/UserActions_gen.v)
    import translate_user_actions

    translate_user_actions.regenerate(repo=str(__import__("common").REPO))
    if not translate_user_actions.LAST.get("ok"):
        raise RuntimeError("translator refused user_actions/*.py: %s" % translate_user_actions.LAST.get("msg"))
    # the code the user actions call: queries, id counter, undo / redo, basic actions (Gen/Core_gen.v)
    import translate_core

    ok, msg = translate_core.regenerate()
    if not ok:
        raise RuntimeError("translator refused the core sources: %s" % msg)


def run(ctx):
    return G.run_property(ctx, "C01", n_quick=400, n_thorough=6000, seg_p=0.5)


def replay(ctx, payload):
    return G.replay(ctx, payload)
