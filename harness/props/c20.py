"""C20 - Exactly one refresh per successful change (edit machine; engine: harness/edit_engine.py)."""
import edit_engine as G

META = {
    "id": "C20",
    "claimed": True,
    "driver_id": "Edit",
    "coq_targets": ["Props/C20.vo", "Extract/Extract_Edit.vo"],
    "technique": 'Coq invariant / refinement proofs over the executable edit-machine model + step-by-step differential correspondence of the extracted model with the implementation + direct oracle on the implementation',
    "level_text": 'Proved in Coq for the model (Props/C20.v, closed under the global context): C20_step - for every state and every API call of EditExec.step, a successful top-level user action (add/delete edge, add/delete node, swap predecessors, update attrs, paint) extends the refresh log by exactly one payload (Some n for add-node n, None or Some new_label for a paint stroke, None otherwise), a refused one (any exception code) leaves the log unchanged, undo/redo append one None iff they return True, queries append nothing; C20_run - over any sequence of calls the log is append-only with at most one entry per call; C20_run_exact - over any sequence of calls the log grows by EXACTLY the number of successful top-level edits plus undo / redo calls that returned True along the session (Proofs/EditRefreshCount.v: successes), nothing for refused edits, exhausted undo / redo and queries; C20_switch_silent - enabling / disabling features, with or without recomputation, emits nothing and leaves both history stacks alone whatever it returns; C20_nested_silent - every user-action core and every user action built with _top_level=False leaves the log unchanged in both outcomes. Supporting theorems in Proofs/EditFrame.v: frame lemmas aux_eq (undo/redo stacks, log, id counter, feature flags untouched) for every non-top-level function of the model, top_wrap_ok, finish_top_spec, one_step_history. Tied to the implementation by step-by-step differential execution and a refresh-counter oracle. C20_user_actions_are_generated: the composite user actions (where the refresh is emitted) equal the code translated on every run from user_actions/*.py. C20_core_is_generated: one level further down, the queries, the node-id counter, Tracks.undo / redo and the seven basic actions with their inverses of the model equal the code translated on every run from solution_tracks.py, tracks.py, _track_annotator.py and actions/*.py (Gen/Core_gen.v; statement in Proofs/CoreTieBundle.v).',
    "level_note": 'Trusted: Coq kernel, extraction (ExtrOcamlBasic only), OCaml driver drv_Edit.ml, Python harness and oracles. Modelled, not verified: networkx DiGraph dict semantics, numpy indexing, skimage regionprops (symbolic: value = function of key, mask, spacing), psygnal. The theorems are about the hand-written model coq/Model/Edit.v; the tie to /repo is the step-by-step differential execution of the extracted model against the implementation on every run. Tied to the source in a second way: the history mechanism (action_history.py) and the seven composite user actions (user_actions/*.py) are re-translated on every run by fail-closed translators (harness/translate_history.py, translate_user_actions.py; closed idiom tables; runtime combinators Model/PyRt.v) and proved equal to the hand-written model for all arguments (Proofs/HistoryTie.v, UserActionsTie.v); trusted there: the idiom tables and combinators, and the stated conventions (get_time / successors on a missing node do not raise, StopIteration reported as KeyError, feature keys never None).',
    "design_ref": "DESIGN.md section 9 (C20)",
    "assumptions": ['the caller does not pass a lineage id to UserAddNode (outside its documented domain)', 'track_id and lineage_id features stay enabled during editing sessions', 'labels/ids are positive; times are frame indices within the array'],
    "trusted": ["translator harness/translate_core.py (closed idiom table; fail closed) with coq/Model/PyRt3.v; hand models left under it: regionprops / edge annotator update, bulk compute, networkx and array primitives",
                "translators harness/translate_history.py and harness/translate_user_actions.py (closed idiom tables in their docstrings; fail closed) with the runtime combinators coq/Model/PyRt.v",
                "correspondence harness harness/editmachine.py (scenario generator, canonicalisation, numeric references for regionprops / IoU)",
                "oracles harness/edit_oracles.py"],
}


def run(ctx):
    return G.run_property(ctx, "C20", n_quick=400, n_thorough=6000, seg_p=0.5)


def replay(ctx, payload):
    return G.replay(ctx, payload)
