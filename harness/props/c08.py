"""C08 - Node measurements equal those of the current mask (edit machine; engine: harness/edit_engine.py)."""
import edit_engine as G

META = {
    "id": "C08",
    "claimed": True,
    "driver_id": "Edit",
    "coq_targets": ["Props/C08.vo", "Extract/Extract_Edit.vo"],
    "technique": 'Coq invariant / refinement proofs over the executable edit-machine model + step-by-step differential correspondence of the extracted model with the implementation + direct oracle on the implementation',
    "level_text": "Proved in Coq about the executable model (Props/C08.v, all closed under the global context), with regionprops values symbolic (VRp mask = the value computed from this mask and the scale): C08_W_fresh_split (W_fresh = node half + edge half); the node half rp_fresh (for every node and every active regionprops key the stored value is that of the node's current mask in its own time frame) is preserved by each basic action under its documented precondition: C08_fresh_add_node (the new node is measured on the mask just written, overriding a caller-supplied value), C08_fresh_upd_seg (the repainted node is re-measured on its new non-empty mask; other masks untouched), C08_fresh_other (AddEdge, DeleteEdge, UpdateNodeAttrs - protected keys cannot be written -, UpdateTrackIDs, DeleteNode with own or given pixels). Not proved: the numeric values skimage returns (symbolic in the model; the harness compares them with numpy / fresh regionprops references on every run). 3D shape features (surface area, sphericity, ellipsoid radii), which the edit machine leaves out because its 3x3x3 frames are below marching_cubes' domain, are checked on the implementation alone by shape3d_scenarios (7x10x10 frames, cells inside one another's bounding boxes, strokes, undo / redo, disable / enable; references: numpy voxel counts, the skimage mesh of the lone mask, the closed sphericity formula). C08_run_edge_calls (every state reachable from a well-formed state by any sequence, of any length, of edge-level calls - add / delete edge with and without force, swap, track queries, fresh ids - satisfies the complete invariant WF: dictionaries, forest, track ids, lineage ids, lookups, label/node correspondence, fresh features; induction over the call list); C08_run_node_calls (the same reachability statement with UserAddNode and UserDeleteNode included, accepted or refused, each UserAddNode respecting its documented preconditions - integer time / track id, no caller-supplied lineage id, and with a segmentation a non-zero id and background pixels of its own frame; Proofs/EditWFNodeExample.v shows three accepted calls outside these preconditions that break the invariant); C08_sessions (from a well-formed state with an empty history, EVERY state reached along ANY sequence - of any length - of calls of the WHOLE public interface of the edit machine - edge, swap, node, attribute and stroke edits, undo, redo, queries - accepted or refused, satisfies the complete invariant WF; hypotheses: three configuration facts no call changes, and the documented per-call preconditions of UserAddNode / node calls without segmentation at the moment each call is made; strokes, edge calls, attribute updates, undo and redo have none); C08_paint and C08_run_paint_calls (every accepted stroke yields a well-formed state; every refused stroke too, the rolled-back one included); C08_user_actions_are_generated (the seven composite user actions of the model equal, for all arguments, the code translated on every run from the current user_actions/*.py); C08_sessions_from_construction (the start state need not be assumed well formed: for every valid raw solution - forest, labels and nodes one-to-one, fresh feature table, true oracle partitions - the state constructed by enabling the core features with recomputation is well formed, so every session over the whole interface from it stays well formed). C08_run_edge_attr_calls adds UserUpdateNodeAttrs (a managed feature cannot be overwritten by hand). C08_core_is_generated: one level further down, the queries, the node-id counter, Tracks.undo / redo and the seven basic actions with their inverses of the model equal the code translated on every run from solution_tracks.py, tracks.py, _track_annotator.py and actions/*.py (Gen/Core_gen.v; statement in Proofs/CoreTieBundle.v). Source tie: the regionprops and edge annotators of the model (incremental update and bulk compute) equal, for all arguments, the code translated on every run from _regionprops_annotator.py, _edge_annotator.py and _compute_ious.py (Gen/Annotators_gen.v; Proofs/AnnotatorsTie.v, 25 closed theorems); this closes the chain from the user actions through the basic actions down to the annotators. C08_sessions_from_any_construction: the same for a graph that arrives with managed features of its own - the constructor as the code runs it (Model/EditCtor.v construct_any: the id lookups filled by a scan of the supplied ids, every core feature the first node carries activated at face value, every other one computed) yields a well-formed state whenever the detected features are valid on all nodes (supplied_ok), for every combination of supplied and computed features, and every session from it stays well formed (Proofs/EditCtor.v; EditCtorExample.v shows that invalid supplied ids break it); tie: constructor correspondence on every generated raw solution (harness/ctor.py). C08_sessions_from_prepared_registry: likewise for tracks constructed with a prepared feature registry (features=<FeatureDict>: load_tracks, application-built registries; Model/EditCtor.v construct_dict - scan, activate what is registered, compute nothing): if everything registered is valid on the graph (EditCtorDict.dict_ok) the constructed state is well formed and every session from it stays well formed; EditCtorDictExample.v has a reloaded solution and a stale-area counter-example; tie: driver line CD of the constructor correspondence. Feature switching inside a session: C08_switch_step (one enable_features-with-recomputation / disable_features call of non-id features keeps the complete invariant WF and the side facts, touches neither history stack nor the array; a refused call returns the state itself), C08_sessions_with_switching_partial (every state along switches ++ an editing session with undo / redo ++ any mix of switches and edits without undo / redo is well formed) and C08_sessions_with_switching_conditional (any interleaving, from the one open hypothesis transport_along: the recorded actions stay consistent transitions between the switched timeline states); undo / redo after a switch is therefore covered by correspondence + oracles only (every run mixes switches into the C08 / C09 / C10 sessions). Proofs/EditSessionsToggle.v.",
    "level_note": 'Trusted: Coq kernel, extraction (ExtrOcamlBasic only), OCaml driver drv_Edit.ml, Python harness and oracles. Modelled, not verified: networkx DiGraph dict semantics, numpy indexing, skimage regionprops (symbolic: value = function of key, mask, spacing), psygnal. The theorems are about the hand-written model coq/Model/Edit.v; the tie to /repo is the step-by-step differential execution of the extracted model against the implementation on every run. Tied to the source in a second way: the history mechanism (action_history.py) and the seven composite user actions (user_actions/*.py) are re-translated on every run by fail-closed translators (harness/translate_history.py, translate_user_actions.py; closed idiom tables; runtime combinators Model/PyRt.v) and proved equal to the hand-written model for all arguments (Proofs/HistoryTie.v, UserActionsTie.v); trusted there: the idiom tables and combinators, and the stated conventions (get_time / successors on a missing node do not raise, StopIteration reported as KeyError, feature keys never None).',
    "design_ref": "DESIGN.md section 9 (C08)",
    "assumptions": ['the caller does not pass a lineage id to UserAddNode (outside its documented domain)', 'track_id and lineage_id features stay enabled during editing sessions', 'labels/ids are positive; times are frame indices within the array'],
    "trusted": ["translator harness/translate_annotators.py (closed idiom table; fail closed) with coq/Model/PyRt8.v; regionprops_extended / skimage is an oracle",
                "translator harness/translate_core.py (closed idiom table; fail closed) with coq/Model/PyRt3.v; hand models left under it: regionprops / edge annotator update, bulk compute, networkx and array primitives",
                "translators harness/translate_history.py and harness/translate_user_actions.py (closed idiom tables in their docstrings; fail closed) with the runtime combinators coq/Model/PyRt.v",
                "correspondence harness harness/editmachine.py (scenario generator, canonicalisation, numeric references for regionprops / IoU)",
                "oracles harness/edit_oracles.py"],
}


def config_scenarios(ctx, n):
    """implementation-only oracle for configurations the edit machine does not generate: tracks built from a
    prepared FeatureDict whose position feature has its own key (a project saved with that key), 2D+t and 3D+t,
    any scale; strokes through UserUpdateSegmentation with undo / redo; after every step area = pixel count x
    voxel size and position = scaled centroid of the current mask, for every node"""
    import networkx as nx
    import numpy as np
    from funtracks.data_model import SolutionTracks
    from funtracks.features import Area, FeatureDict, LineageID, Position, Time, TrackletID
    from funtracks.user_actions import UserUpdateSegmentation

    rng = ctx.rng
    out, stats = [], {"config_scenarios": 0, "config_custom_position_key": 0, "config_steps": 0}

    def measure(seg, scale, node, time):
        coords = np.nonzero(seg[time] == node)
        sp = np.asarray(scale[1:], dtype=float)
        return len(coords[0]) * float(np.prod(sp)), [float(np.mean(c) * s_) for c, s_ in zip(coords, sp)]

    for k in range(n):
        ndim = rng.choice([3, 3, 4])
        frame = (8, 10) if ndim == 3 else (4, 6, 8)
        scale = rng.choice([[1.0] * ndim, [1.0, 2.0, 0.5] if ndim == 3 else [1.0, 3.0, 2.0, 0.5], [1.0] + [0.5] * (ndim - 1)])
        pos_key = rng.choice(["pos", "centroid", "location"])
        axes = ["y", "x"] if ndim == 3 else ["z", "y", "x"]
        seg = np.zeros((3, *frame), dtype=rng.choice([np.uint16, np.int64]))
        if ndim == 3:
            seg[0, 1:4, 1:5] = 1
            seg[1, 2:6, 3:7] = 2
        else:
            seg[0, 0:2, 1:4, 1:5] = 1
            seg[1, 1:3, 2:5, 3:7] = 2
        g = nx.DiGraph()
        for node, tm in ((1, 0), (2, 1)):
            a_, c_ = measure(seg, scale, node, tm)
            g.add_node(node, **{"t": tm, pos_key: c_, "area": a_, "track_id": 1, "lineage_id": 1})
        g.add_edge(1, 2)
        fd = FeatureDict(features={"t": Time(), pos_key: Position(axes=axes), "area": Area(ndim=ndim),
                                   "track_id": TrackletID(), "lineage_id": LineageID()},
                         time_key="t", position_key=pos_key, tracklet_key="track_id", lineage_key="lineage_id")
        tr = SolutionTracks(g, segmentation=seg, scale=scale, features=fd)
        stats["config_scenarios"] += 1
        stats["config_custom_position_key"] += int(pos_key != "pos")
        desc = {"scenario": k, "ndim": ndim, "scale": scale, "position_key": pos_key}

        def check(label):
            s_ = np.asarray(tr.segmentation)
            for n_ in tr.graph.nodes:
                tm = tr.get_time(n_)
                a_, c_ = measure(s_, scale, n_, tm)
                sa, sp_ = tr.graph.nodes[n_].get("area"), tr.graph.nodes[n_].get(pos_key)
                if sa is None or abs(float(sa) - a_) > 1e-9 or sp_ is None or any(abs(float(x) - y) > 1e-9 for x, y in zip(sp_, c_)):
                    return "after %s: node %d stores area %s / %s %s, its mask gives area %s / centroid %s" % (label, n_, sa, pos_key, sp_, a_, c_)
            return None

        def stroke(value, tm, sl, track):
            arr = np.asarray(tr.segmentation)
            region = np.zeros(arr.shape[1:], dtype=bool)
            region[sl] = True
            old = arr[tm][region]
            groups = []
            for ov in np.unique(old):
                m = region & (arr[tm] == ov)
                if value == ov:
                    continue
                idx = np.nonzero(m)
                groups.append(((np.full(len(idx[0]), tm), *idx), int(ov)))
            if not groups:
                return
            for px, _ in groups:
                tr.set_pixels(px, value)
            UserUpdateSegmentation(tr, value, groups, track)

        sl2 = (slice(1, 4), slice(6, 9)) if ndim == 3 else (slice(1, 3), slice(2, 5), slice(6, 8))
        sl_er = (slice(2, 3), slice(3, 7)) if ndim == 3 else (slice(1, 2), slice(2, 5), slice(3, 7))
        sl_new = (slice(5, 7), slice(0, 3)) if ndim == 3 else (slice(3, 4), slice(4, 6), slice(0, 3))
        steps = [("grow node 2", lambda: stroke(2, 1, sl2, 1)), ("undo", tr.undo), ("redo", tr.redo),
                 ("erase part of node 2", lambda: stroke(0, 1, sl_er, 1)), ("new node 7", lambda: stroke(7, 2, sl_new, 1)),
                 ("undo", tr.undo), ("undo", tr.undo), ("redo", tr.redo), ("redo", tr.redo)]
        try:
            bad = check("construction")
            for label, fn in steps:
                if bad:
                    break
                fn()
                stats["config_steps"] += 1
                bad = check(label)
        except Exception as e:  # noqa: BLE001
            bad = "%s raised %s: %s" % (label, type(e).__name__, str(e)[:100])
        if bad:
            out.append({"what": "prepared FeatureDict (position key %r): %s" % (pos_key, bad), "input": desc, "signature": "C08:config"})
    return out, stats


def shape3d_scenarios(ctx, n):
    """implementation-only oracle for the 3D shape features the edit machine leaves out (its 3x3x3 frames are
    below marching_cubes' domain): 3D+t, frames 7x10x10, L-shaped cells with another cell inside their bounding
    box, isotropic and anisotropic scale, area / perimeter (surface area) / circularity (sphericity) /
    ellipse_axis_radii enabled in bulk; strokes with undo / redo and disable / enable in between. After every
    step, for every node: area = voxel count x voxel size (numpy), perimeter = skimage mesh surface of the
    node's mask alone, circularity = the closed sphericity formula from these two, ellipse radii = those of the
    node's mask alone in an empty frame."""
    import math

    import networkx as nx
    import numpy as np
    from funtracks.annotators._regionprops_extended import regionprops_extended
    from funtracks.data_model import SolutionTracks
    from funtracks.user_actions import UserUpdateSegmentation
    from skimage.measure import marching_cubes, mesh_surface_area

    rng = ctx.rng
    out, stats = [], {"shape3d_scenarios": 0, "shape3d_steps": 0, "shape3d_bbox_overlaps": 0}
    KEYS = ["area", "perimeter", "circularity", "ellipse_axis_radii"]

    def reference(mask, sp):
        cnt = int(mask.sum())
        vol = cnt * float(np.prod(sp))
        verts, faces, _, _ = marching_cubes(mask, level=0.5, spacing=tuple(sp))
        surf = float(mesh_surface_area(verts, faces))
        r = (3 / 4 / math.pi * vol) ** (1 / 3)
        alone = regionprops_extended(mask.astype(np.int64), spacing=tuple(sp))[0]
        return {"area": vol, "perimeter": surf, "circularity": 4 * math.pi * r * r / surf,
                "ellipse_axis_radii": [float(x) for x in alone.axes]}

    for k in range(n):
        sp = rng.choice([[1.0, 1.0, 1.0], [2.0, 1.0, 0.5], [0.5, 0.5, 0.5], [1.0, 3.0, 1.0]])
        scale = [1.0] + sp
        T = 3
        seg = np.zeros((T, 7, 10, 10), dtype=rng.choice([np.uint16, np.int32, np.int64]))
        g = nx.DiGraph()
        nid = 1
        prev = None
        for tm in range(T):
            z0 = rng.randint(0, 2)
            zs = slice(z0, z0 + rng.randint(3, 4))
            a, w = rng.randint(0, 1), rng.randint(2, 3)
            ell = nid
            seg[tm, zs, a:a + 8, a:a + w] = ell          # an L: two arms along y and x
            seg[tm, zs, a:a + w, a:a + 8] = ell
            g.add_node(ell, time=tm)
            if prev is not None and rng.random() < 0.8:
                g.add_edge(prev, ell)
            prev = ell
            nid += rng.randint(1, 3)
            if rng.random() < 0.8:                        # a block in the free corner of the L: inside its bounding box
                b0 = a + w + rng.randint(1, 2)
                seg[tm, zs.start:zs.start + 2, b0:b0 + 3, b0:b0 + 3] = nid
                g.add_node(nid, time=tm)
                stats["shape3d_bbox_overlaps"] += 1
                nid += rng.randint(1, 3)
        tr = SolutionTracks(g, segmentation=seg, time_attr="time", scale=scale, ndim=4)
        keys = [x for x in KEYS if rng.random() < 0.8] or ["circularity"]
        tr.enable_features(keys)
        stats["shape3d_scenarios"] += 1
        desc = {"scenario": k, "scale": scale, "features": keys, "nodes": sorted(int(x) for x in g.nodes)}

        def check(label):
            s_ = np.asarray(tr.segmentation)
            for n_ in tr.graph.nodes:
                ref = reference(s_[tr.get_time(n_)] == n_, sp)
                for key in keys:
                    st = tr.graph.nodes[n_].get(key)
                    if st is None or not np.allclose(np.asarray(st, dtype=float), np.asarray(ref[key], dtype=float), rtol=1e-9, atol=1e-9):
                        return "after %s: node %d stores %s = %s, its own mask gives %s" % (label, n_, key, st, ref[key])
            return None

        def stroke(value, tm, sl):
            arr = np.asarray(tr.segmentation)
            region = np.zeros(arr.shape[1:], dtype=bool)
            region[sl] = True
            groups = []
            for ov in np.unique(arr[tm][region]):
                if value == ov:
                    continue
                idx = np.nonzero(region & (arr[tm] == ov))
                groups.append(((np.full(len(idx[0]), tm), *idx), int(ov)))
            if not groups:
                return
            for px, _ in groups:
                tr.set_pixels(px, value)
            UserUpdateSegmentation(tr, value, groups, tr.get_next_track_id())

        tm = rng.randrange(T)
        new = nid + 5
        steps = [("a new cell inside the bounding box of the L", lambda: stroke(new, tm, (slice(4, 6), slice(7, 9), slice(4, 6)))),
                 ("disable / enable", lambda: (tr.disable_features(keys), tr.enable_features(keys))),
                 ("undo", tr.undo), ("redo", tr.redo),
                 ("erase a slab of frame %d" % tm, lambda: stroke(0, tm, (slice(0, 7), slice(0, 10), slice(0, 1)))),
                 ("undo", tr.undo), ("undo", tr.undo), ("redo", tr.redo)]
        label = "construction"
        try:
            bad = check(label)
            for label, fn in steps:
                if bad:
                    break
                fn()
                stats["shape3d_steps"] += 1
                bad = check(label)
        except Exception as e:  # noqa: BLE001
            bad = "%s raised %s: %s" % (label, type(e).__name__, str(e)[:100])
        if bad:
            out.append({"what": "3D shape features %s: %s" % (keys, bad), "input": desc, "signature": "C08:shape3d"})
    return out, stats


def run(ctx):
    res = G.run_property(ctx, "C08", n_quick=400, n_thorough=6000, seg_p=1.0, toggles=0.12)
    viol, stats = config_scenarios(ctx, 24 if ctx.quick() else 240)
    res["violations"] = list(res.get("violations", [])) + viol
    res.setdefault("stats", {}).update(stats)
    res["evaluations"] = res.get("evaluations", 0) + stats["config_steps"]
    viol3, stats3 = shape3d_scenarios(ctx, 30 if ctx.quick() else 400)
    res["violations"] += viol3
    res["stats"].update(stats3)
    res["evaluations"] += stats3["shape3d_steps"]
    return res


def replay(ctx, payload):
    return G.replay(ctx, payload)
