"""C08 - Node measurements equal those of the current mask (edit machine; engine: harness/edit_engine.py)."""
import edit_engine as G

META = {
    "id": "C08",
    "claimed": True,
    "driver_id": "Edit",
    "coq_targets": ["Props/C08.vo", "Extract/Extract_Edit.vo"],
    "technique": 'Coq invariant / refinement proofs over the executable edit-machine model + step-by-step differential correspondence of the extracted model with the implementation + direct oracle on the implementation',
    "level_text": "Proved in Coq about the executable model (Props/C08.v, all closed under the global context), with regionprops values symbolic (VRp mask = the value computed from this mask and the scale): C08_W_fresh_split (W_fresh = node half + edge half); the node half rp_fresh (for every node and every active regionprops key the stored value is that of the node's current mask in its own time frame) is preserved by each basic action under its documented precondition: C08_fresh_add_node (the new node is measured on the mask just written, overriding a caller-supplied value), C08_fresh_upd_seg (the repainted node is re-measured on its new non-empty mask; other masks untouched), C08_fresh_other (AddEdge, DeleteEdge, UpdateNodeAttrs - protected keys cannot be written -, UpdateTrackIDs, DeleteNode with own or given pixels). Not proved: the numeric values skimage returns (symbolic in the model; the harness compares them with numpy / fresh regionprops references on every run). C08_run_edge_calls (every state reachable from a well-formed state by any sequence, of any length, of edge-level calls - add / delete edge with and without force, swap, track queries, fresh ids - satisfies the complete invariant WF: dictionaries, forest, track ids, lineage ids, lookups, label/node correspondence, fresh features; induction over the call list); C08_run_node_calls (the same reachability statement with UserAddNode and UserDeleteNode included, accepted or refused, each UserAddNode respecting its documented preconditions - integer time / track id, no caller-supplied lineage id, and with a segmentation a non-zero id and background pixels of its own frame; Proofs/EditWFNodeExample.v shows three accepted calls outside these preconditions that break the invariant); C08_sessions (from a well-formed state with an empty history, EVERY state reached along ANY sequence - of any length - of calls of the WHOLE public interface of the edit machine - edge, swap, node, attribute and stroke edits, undo, redo, queries - accepted or refused, satisfies the complete invariant WF; hypotheses: three configuration facts no call changes, and the documented per-call preconditions of UserAddNode / node calls without segmentation at the moment each call is made; strokes, edge calls, attribute updates, undo and redo have none); C08_paint and C08_run_paint_calls (every accepted stroke yields a well-formed state; every refused stroke too, the rolled-back one included); C08_user_actions_are_generated (the seven composite user actions of the model equal, for all arguments, the code translated on every run from the current user_actions/*.py); C08_sessions_from_construction (the start state need not be assumed well formed: for every valid raw solution - forest, labels and nodes one-to-one, fresh feature table, true oracle partitions - the state constructed by enabling the core features with recomputation is well formed, so every session over the whole interface from it stays well formed). C08_run_edge_attr_calls adds UserUpdateNodeAttrs (a managed feature cannot be overwritten by hand). C08_core_is_generated: one level further down, the queries, the node-id counter, Tracks.undo / redo and the seven basic actions with their inverses of the model equal the code translated on every run from solution_tracks.py, tracks.py, _track_annotator.py and actions/*.py (Gen/Core_gen.v; statement in Proofs/CoreTieBundle.v). Source tie: the regionprops and edge annotators of the model (incremental update and bulk compute) equal, for all arguments, the code translated on every run from _regionprops_annotator.py, _edge_annotator.py and _compute_ious.py (Gen/Annotators_gen.v; Proofs/AnnotatorsTie.v, 25 closed theorems); this closes the chain from the user actions through the basic actions down to the annotators.",
    "level_note": 'Trusted: Coq kernel, extraction (ExtrOcamlBasic only), OCaml driver drv_Edit.ml, Python harness and oracles. Modelled, not verified: networkx DiGraph dict semantics, numpy indexing, skimage regionprops (symbolic: value = function of key, mask, spacing), psygnal. The theorems are about the hand-written model coq/Model/Edit.v; the tie to /repo is the step-by-step differential execution of the extracted model against the implementation on every run. Tied to the source in a second way: the history mechanism (action_history.py) and the seven composite user actions (user_actions/*.py) are re-translated on every run by fail-closed translators (harness/translate_history.py, translate_user_actions.py; closed idiom tables; runtime combinators Model/PyRt.v) and proved equal to the hand-written model for all arguments (Proofs/HistoryTie.v, UserActionsTie.v); trusted there: the idiom tables and combinators, and the stated conventions (get_time / successors on a missing node do not raise, StopIteration reported as KeyError, feature keys never None).',
    "design_ref": "DESIGN.md section 9 (C08)",
    "assumptions": ['the caller does not pass a lineage id to UserAddNode (outside its documented domain)', 'track_id and lineage_id features stay enabled during editing sessions', 'labels/ids are positive; times are frame indices within the array'],
    "trusted": ["translator harness/translate_annotators.py (closed idiom table; fail closed) with coq/Model/PyRt8.v; regionprops_extended / skimage is an oracle",
                "translator harness/translate_core.py (closed idiom table; fail closed) with coq/Model/PyRt3.v; hand models left under it: regionprops / edge annotator update, bulk compute, networkx and array primitives",
                "translators harness/translate_history.py and harness/translate_user_actions.py (closed idiom tables in their docstrings; fail closed) with the runtime combinators coq/Model/PyRt.v",
                "correspondence harness harness/editmachine.py (scenario generator, canonicalisation, numeric references for regionprops / IoU)",
                "oracles harness/edit_oracles.py"],
}


def pre_build(ctx):
    # undo / redo are part of what this property quantifies over: re-translate action_history.py
    import translate_history

    ok, msg = translate_history.regenerate()
    if not ok:
        raise RuntimeError("translator refused action_history.py: %s" % msg)
    # the composite user actions: re-translate user_actions/*.py (Gen/UserActions_gen.v)
    import translate_user_actions

    translate_user_actions.regenerate(repo=str(__import__("common").REPO))
    if not translate_user_actions.LAST.get("ok"):
        raise RuntimeError("translator refused user_actions/*.py: %s" % translate_user_actions.LAST.get("msg"))
    # the code the user actions call: queries, id counter, undo / redo, basic actions (Gen/Core_gen.v)
    import translate_core

    ok, msg = translate_core.regenerate()
    if not ok:
        raise RuntimeError("translator refused the core sources: %s" % msg)
    # re-translate the regionprops / edge annotators (Gen/Annotators_gen.v, tied by Proofs/AnnotatorsTie.v)
    import translate_toggle   # the annotators' feature tables come from Gen/Toggle_gen.v

    ok, msg = translate_toggle.regenerate()
    if not ok:
        raise RuntimeError("translator refused the feature-switching sources: %s" % msg)
    import translate_annotators

    ok, msg = translate_annotators.regenerate()
    if not ok:
        raise RuntimeError("translator refused the annotator sources: %s" % msg)


def run(ctx):
    return G.run_property(ctx, "C08", n_quick=400, n_thorough=6000, seg_p=1.0, toggles=0.12)


def replay(ctx, payload):
    return G.replay(ctx, payload)
