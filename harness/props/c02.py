"""C02 - Undo/redo follow a never-forgetting linear timeline (edit machine; engine: harness/edit_engine.py)."""
import edit_engine as G

META = {
    "id": "C02",
    "claimed": True,
    "driver_id": "Edit",
    "coq_targets": ["Props/C02.vo", "Extract/Extract_Edit.vo"],
    "technique": 'Coq invariant / refinement proofs over the executable edit-machine model + step-by-step differential correspondence of the extracted model with the implementation + direct oracle on the implementation',
    "level_text": 'Theorems (all closed under the global context): C02_generated_is_mechanism (the add_new_action / undo / redo translated on every run from the current action_history.py ARE the abstract two-stack mechanism), C02_timeline (every finite sequence over {edit, undo, redo} on the generated mechanism refines the list+cursor timeline: equal boolean results, current state = state under the cursor, the timeline only grows at its end; parametric in the C01 hypothesis Tr_inv, which Props/C01.v provides as C01_timeline_hypotheses), C02_false_means_nothing, C02_one_step (every top-level user action of the edit-machine model is exactly one history step however many primitive edits it contains; refused, nested and query calls are none), C02_edit_machine_uses_generated. Tie: translator (regenerated every run, fail closed) for the history mechanism + step-by-step differential correspondence of the edit-machine model + a list+cursor reference timeline evaluated on the implementation after every call (undo bursts included). C02_edit_machine_timeline: the timeline theorem instantiated for the edit machine (states, recorded groups, inv_action, Tr = TrI W_dict, equivalence = observational equality), so that together with C01_consistent_* every sequence of accepted edge / swap / node actions, undos and redos refines the list+cursor timeline. C02_sessions_timeline and C02_sessions_undo_redo (Proofs/EditSessions.v): the law for the executable edit machine itself - for every sequence of calls of the whole public interface (edge, swap, node, attribute and stroke edits, undos, redos, queries) from a well-formed state with an empty history, the cursor stays inside the timeline, the current state is observably the state under it, every timeline state is well formed, the timeline is st0 :: ext, and each OUndo / ORedo returns True exactly when the timeline can move and False exactly at its ends. C02_sessions_from_construction: the same from the constructed start state of any valid raw solution. C02_core_is_generated: one level further down, the queries, the node-id counter, Tracks.undo / redo and the seven basic actions with their inverses of the model equal the code translated on every run from solution_tracks.py, tracks.py, _track_annotator.py and actions/*.py (Gen/Core_gen.v; statement in Proofs/CoreTieBundle.v).',
    "level_note": 'Trusted: Coq kernel, extraction (ExtrOcamlBasic only), OCaml driver drv_Edit.ml, Python harness and oracles. Modelled, not verified: networkx DiGraph dict semantics, numpy indexing, skimage regionprops (symbolic: value = function of key, mask, spacing), psygnal. The theorems are about the hand-written model coq/Model/Edit.v; the tie to /repo is the step-by-step differential execution of the extracted model against the implementation on every run. Tied to the source in a second way: the history mechanism (action_history.py) and the seven composite user actions (user_actions/*.py) are re-translated on every run by fail-closed translators (harness/translate_history.py, translate_user_actions.py; closed idiom tables; runtime combinators Model/PyRt.v) and proved equal to the hand-written model for all arguments (Proofs/HistoryTie.v, UserActionsTie.v); trusted there: the idiom tables and combinators, and the stated conventions (get_time / successors on a missing node do not raise, StopIteration reported as KeyError, feature keys never None).',
    "design_ref": "DESIGN.md section 9 (C02)",
    "assumptions": ['the caller does not pass a lineage id to UserAddNode (outside its documented domain)', 'track_id and lineage_id features stay enabled during editing sessions', 'labels/ids are positive; times are frame indices within the array'],
    "trusted": ["translator harness/translate_core.py (closed idiom table; fail closed) with coq/Model/PyRt3.v; hand models left under it: regionprops / edge annotator update, bulk compute, networkx and array primitives",
                "translators harness/translate_history.py and harness/translate_user_actions.py (closed idiom tables in their docstrings; fail closed) with the runtime combinators coq/Model/PyRt.v",
                "correspondence harness harness/editmachine.py (scenario generator, canonicalisation, numeric references for regionprops / IoU)",
                "oracles harness/edit_oracles.py"],
}


def run(ctx):
    return G.run_property(ctx, "C02", n_quick=400, n_thorough=6000, seg_p=0.4)


def replay(ctx, payload):
    return G.replay(ctx, payload)
