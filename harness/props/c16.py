"""C16 - Exports, saves and queries never modify the tracks.

Two parts:
  (a) a DEEP snapshot oracle on the implementation: for many tracks objects (fresh and after random
      editing sessions of harness/editmachine.py; scale None / list / tuple / ndarray, single-key or
      per-axis positions, with / without segmentation, 2D+t / 3D+t, with undo history and pending
      redo entries, SolutionTracks and plain Tracks) every read-only operation (CSV / GEFF export,
      full and subset; save; every query with valid and invalid arguments) is called between two
      snapshots; any difference except the documented in-place sort of the queried track's lookup
      list by get_track_neighbors is a violation; so is an emission of `tracks.refresh`.
  (b) model correspondence: the query calls of (a) that have a model counterpart (ONeighbors,
      OHasTrackAt, ONextIds; ONewIds as the documented exception) are appended to the scenario's
      operation lines and replayed on the extracted Coq model (Model/Edit.v), compared step by step;
      plus the shared engine run (edit_engine.run_property) whose oracles attribute "query changed
      the tracks" findings to C16.

Excluded on purpose (and said so in META): Tracks._get_new_node_ids advances node_id_counter; it is a
private fresh-id source, not a read-only query.  It is exercised once per object, last, and checked
to change the counter only.
"""
from __future__ import annotations

import functools
import hashlib
import multiprocessing as mp
import os
import random
import shutil
import struct
import tempfile
import warnings
from collections import Counter
from pathlib import Path

import networkx as nx
import numpy as np

import common as C
import edit_engine as G
import editmachine as E

warnings.simplefilter("ignore")

META = {
    "id": "C16",
    "claimed": True,
    "driver_id": "Edit",
    "coq_targets": ["Props/C16.vo", "Extract/Extract_Edit.vo"],
    "technique": "Coq proof of an observation equivalence over the executable edit-machine model (the model mirrors the in-place sort of get_track_neighbors) + deep before/after snapshot oracle on the implementation for every read-only operation + step-by-step differential correspondence of the extracted model with the implementation on the query operations",
    "level_text": "Proved in Coq for the model (Props/C16.v, all closed under the global context), with ro_eq s s' := graph, segmentation, feature registry and flags, undo stack, redo stack, refresh log, id counter, max track / lineage ids and lineage lookup equal, and the track lookup equal as a lookup (same keys in the same order, every list a Permutation of its counterpart): C16_ro_equivalence - ro_eq is reflexive, symmetric, transitive; C16_book_eq_meaning - what 'equal as lookups' means (keys equal, per-key Permutation); C16_neighbors - for every state, track id and time ro_eq st (fst (track_neighbors st T t)) (insertion sort by time is a permutation; set of a present key keeps keys and order); C16_neighbors_exact - every other list is untouched and the queried one is stored back time-sorted; C16_step_query - ro_eq st (fst (step st o)) for the ops ONeighbors / OHasTrackAt / ONextIds; C16_has_track_at_next_ids - OHasTrackAt / ONextIds return the very same state; C16_run - a run consisting only of query ops preserves ro_eq; C16_new_ids_exception - the documented exception _get_new_node_ids (ONewIds) leaves everything but the counter unchanged and advances the counter by at least n (so it is NOT read-only and is excluded); C16_queries_respect_ro - no query of the model (has_track_at, next ids, get_pixels, successors, predecessors, attribute reads) distinguishes ro_eq states. Example C16_nonvacuous: a state whose lookup list [3;1;2] is out of time order, track_neighbors really rewrites it to [1;2;3] (state changed) and ro_eq holds. C16_scale_note (comment): the model has no scale field since no modelled operation reads or writes scale after commit 2aa8c45. Exports, saves, the scale clause and the queries without model counterpart are NOT theorems: they are decided by the deep snapshot oracle of harness/props/c16.py (graph _node/_adj/_pred with value types and dict order, segmentation bytes/dtype/shape/identity, scale value and type, ndim, feature registry and keys, annotator flags, lookups exact and as multisets, max ids, id counter, identity of every history entry, object __dict__ keys, refresh emissions). C16_queries_are_generated: the queries of the model (get_track_neighbors with its in-place sort, has_track_id_at_time, next track / lineage id, _get_new_node_ids) equal the code translated on every run from solution_tracks.py and tracks.py (Gen/CoreQueries_gen.v, Gen/CoreTracks_gen.v). C16_export_*_is_generated / C16_save_is_generated: the exporters of the model are the code translated on every run from csv/_export.py, geff/_export.py, internal_format.py and _feature_dict.py; the translator treats the tracks object as read-only (any in-place modification of it or of a value reachable from it is refused), so a generated exporter is a function from the tracks to the values handed to the file writers.",
    "level_note": "Trusted: Coq kernel, extraction (ExtrOcamlBasic only), OCaml driver drv_Edit.ml, Python harness and snapshot oracle. The theorems speak about the hand-written model coq/Model/Edit.v; a side effect added to the Python is invisible to them - it is the snapshot oracle (run on every check) that ties the read-only claim to /repo. Excluded: Tracks._get_new_node_ids (advances node_id_counter; private fresh-id source, not a read-only query). networkx's own cached views (graph.__dict__ entries of functools.cached_property: nodes, edges, adj, ...) are not counted as a modification. Returned references (track_id_to_node returns the live dict, get_node_attr the live list) can be mutated by the caller: outside the property.",
    "design_ref": "DESIGN.md section 9 (C16)",
    "assumptions": ["the in-place sort of tracklet_id_to_nodes[track_id] by get_track_neighbors is the one documented write of a query; the lookup is compared as a multiset for that key only",
                    "_get_new_node_ids is not a read-only operation (excluded)",
                    "export targets are fresh directories / files under a private temporary directory"],
    "trusted": ["translator harness/translate_export.py (closed idiom table; tracks read-only; fail closed) with coq/Model/PyRt7.v",
                "translator harness/translate_core.py (closed idiom table; fail closed) with coq/Model/PyRt3.v; hand models left under it: regionprops / edge annotator update, bulk compute, networkx and array primitives",
                "snapshot oracle harness/props/c16.py (freeze / snapshot / diff)",
                "scenario generator harness/editmachine.py, shared engine harness/edit_engine.py, oracles harness/edit_oracles.py"],
}

# --------------------------------------------------------------------------- deep snapshot
_NX_CACHED = {n for cls in nx.DiGraph.__mro__ for n, v in vars(cls).items() if isinstance(v, functools.cached_property)}


def freeze(v, keep=None):
    """value -> immutable structure that records types, order and exact bits"""
    if v is None:
        return ("None",)
    tp = type(v)
    if tp is bool:
        return ("bool", v)
    if tp is int:
        return ("int", v)
    if tp is float:
        return ("float", struct.pack("<d", v).hex())
    if tp is str:
        return ("str", v)
    if isinstance(v, np.ndarray):
        if v.dtype == object:
            return ("ndarray", "O", v.shape, tuple(freeze(x, keep) for x in v.reshape(-1).tolist()))
        return ("ndarray", v.dtype.str, v.shape, v.tobytes())
    if isinstance(v, np.generic):
        return ("np." + tp.__name__, v.tobytes().hex())
    if isinstance(v, dict):
        return (tp.__name__, tuple((freeze(k, keep), freeze(x, keep)) for k, x in v.items()))
    if isinstance(v, (list, tuple)):
        return (tp.__name__, tuple(freeze(x, keep) for x in v))
    if isinstance(v, (set, frozenset)):
        return (tp.__name__, tuple(sorted((freeze(x, keep) for x in v), key=repr)))
    if keep is not None:
        keep.append(v)
    return ("obj", tp.__module__ + "." + tp.__qualname__, id(v))


def _action(a, keep):
    keep.append(a)
    d = getattr(a, "__dict__", {})
    kids = tuple(_action(x, keep) for x in d.get("actions", [])) if isinstance(d.get("actions"), list) else ()
    fields = tuple((k, freeze(v, keep)) for k, v in d.items() if k not in ("tracks", "actions"))
    return (type(a).__name__, id(a), fields, kids)


def _objdict(o, keep, skip=()):
    d = getattr(o, "__dict__", {})
    return tuple((k, ("id", id(v)) if k in skip else freeze(v, keep)) for k, v in d.items())


def snapshot(t):
    """everything C16 speaks about, frozen; `_keep` pins the objects whose id() was recorded"""
    keep = []
    g = t.graph
    S = {}
    S["tracks.class"] = type(t).__name__
    S["tracks.__dict__.keys"] = tuple(t.__dict__.keys())
    S["graph.class"] = type(g).__module__ + "." + type(g).__name__
    S["graph.__dict__.keys"] = tuple(k for k in g.__dict__ if k not in _NX_CACHED)
    S["graph.attrs"] = freeze(g.graph, keep)
    S["graph.nodes"] = freeze(g._node, keep)          # node order, attribute order, value types
    S["graph.adj"] = freeze(g._adj, keep)
    S["graph.pred"] = freeze(g._pred, keep)
    seg = t.segmentation
    if seg is None:
        S["seg"] = ("None",)
    elif isinstance(seg, np.ndarray):
        S["seg"] = ("ndarray", seg.dtype.str, seg.shape, seg.strides, bool(seg.flags.writeable), seg.tobytes())
    else:
        a = np.asarray(seg)
        S["seg"] = (type(seg).__name__, a.dtype.str, a.shape, a.tobytes())
    S["scale"] = freeze(t.scale, keep)                # None vs list vs tuple vs ndarray, float vs int
    S["ndim"] = freeze(t.ndim, keep)
    S["axis_names"] = freeze(getattr(t, "axis_names", None), keep)
    f = t.features
    S["features.class"] = type(f).__name__
    S["features.items"] = freeze(dict(f), keep)       # keys in order, each feature dict
    S["features.keys"] = freeze((f.time_key, f.position_key, f.tracklet_key, f.lineage_key), keep)
    S["features.__dict__"] = _objdict(f, keep)
    anns = []
    for a in t.annotators:
        keep.append(a)
        flags = tuple((k, bool(on)) for k, (_, on) in a.all_features.items())
        anns.append((type(a).__name__, id(a), flags,
                     tuple((k, ("id", id(v)) if k == "tracks" else freeze(v, keep)) for k, v in a.__dict__.items()
                           if k not in ("tracklet_id_to_nodes", "lineage_id_to_nodes"))))
    S["annotators"] = tuple(anns)
    S["annotators.all_features"] = tuple((k, freeze(ft, keep), bool(on)) for k, (ft, on) in t.annotators.all_features.items())
    ta = getattr(t, "track_annotator", None)
    raw = {}
    if ta is not None:
        S["tb.exact"] = freeze(ta.tracklet_id_to_nodes, keep)
        S["lb.exact"] = freeze(ta.lineage_id_to_nodes, keep)
        S["tb.sorted"] = tuple((freeze(k), tuple(sorted(map(repr, v)))) for k, v in ta.tracklet_id_to_nodes.items())
        S["lb.sorted"] = tuple((freeze(k), tuple(sorted(map(repr, v)))) for k, v in ta.lineage_id_to_nodes.items())
        S["max_ids"] = freeze((ta.max_tracklet_id, ta.max_lineage_id), keep)
        raw["tb"] = {k: list(v) for k, v in ta.tracklet_id_to_nodes.items()}
        keep += [ta.tracklet_id_to_nodes, ta.lineage_id_to_nodes] + list(ta.tracklet_id_to_nodes.values()) + list(ta.lineage_id_to_nodes.values())
    S["node_id_counter"] = freeze(t.node_id_counter, keep)
    h = t.action_history
    S["history.__dict__.keys"] = tuple(h.__dict__.keys())
    S["history.undo"] = (len(h.undo_stack), tuple(_action(a, keep) for a in h.undo_stack))
    S["history.redo"] = (len(h.redo_stack), tuple(_action(a, keep) for a in h.redo_stack))
    S["refresh.slots"] = len(t.refresh)
    ids = {"graph": g, "graph._node": g._node, "graph._adj": g._adj, "graph._pred": g._pred, "graph.graph": g.graph,
           "segmentation": seg, "scale": t.scale, "features": f, "annotators": t.annotators, "action_history": h,
           "undo_stack": h.undo_stack, "redo_stack": h.redo_stack, "track_annotator": ta}
    if ta is not None:
        ids["tracklet_id_to_nodes"] = ta.tracklet_id_to_nodes
        ids["lineage_id_to_nodes"] = ta.lineage_id_to_nodes
    keep += list(ids.values())
    S["identity"] = tuple((k, id(v)) for k, v in ids.items())
    S["identity.node_dicts"] = tuple((freeze(n), id(d)) for n, d in g._node.items())
    S["identity.lookup_lists"] = () if ta is None else tuple((freeze(k), id(v)) for k, v in ta.tracklet_id_to_nodes.items())
    keep += list(g._node.values())
    return {"S": S, "raw": raw, "_keep": keep}


def _where(a, b, path=""):
    """first place two frozen structures differ"""
    if type(a) is tuple and type(b) is tuple and len(a) == len(b):
        for i, (x, y) in enumerate(zip(a, b)):
            if x != y:
                return _where(x, y, path + "/%d" % i)
    sa, sb = repr(_show(a)), repr(_show(b))
    return "%s: %s -> %s" % (path or "/", sa[:160], sb[:160])


def _show(x):
    """frozen structure -> readable value (for messages only)"""
    if type(x) is not tuple:
        return x
    if x and isinstance(x[0], str) and len(x) <= 4:
        tag = x[0]
        if tag == "None" and len(x) == 1:
            return None
        if tag in ("bool", "int", "str") and len(x) == 2:
            return x[1]
        if tag == "float" and len(x) == 2 and isinstance(x[1], str):
            return struct.unpack("<d", bytes.fromhex(x[1]))[0]
        if tag == "ndarray" and len(x) == 4:
            return "ndarray(dtype=%s, shape=%s, sha1=%s)" % (x[1], x[2], hashlib.sha1(repr(x[3]).encode()).hexdigest()[:8])
        if tag.startswith("np.") and len(x) == 2:
            return "%s(0x%s)" % (tag, x[1])
        if tag == "obj" and len(x) == 3:
            return "<%s at 0x%x>" % (x[1], x[2])
        if tag in ("list", "set", "frozenset") and len(x) == 2 and type(x[1]) is tuple:
            return [_show(y) for y in x[1]]
        if tag == "tuple" and len(x) == 2 and type(x[1]) is tuple:
            return tuple(_show(y) for y in x[1])
        if len(x) == 2 and type(x[1]) is tuple and all(type(p) is tuple and len(p) == 2 for p in x[1]):
            d = {repr(_show(k)) if type(_show(k)) in (list, dict) else _show(k): _show(v) for k, v in x[1]}
            return d if tag == "dict" else "%s(%r)" % (tag, d)
    return tuple(_show(y) for y in x)


def diff(s0, s1, allow=None, t=None):
    """fields on which two snapshots differ; allow = ('tb_sort', track_id): that lookup list may have
    been sorted in place (multiset equal, new order = stable sort of the old order by time)"""
    out = []
    A, B = s0["S"], s1["S"]
    for k in A.keys() | B.keys():
        if k not in A or k not in B:
            out.append((k, "field appeared / disappeared"))
            continue
        if A[k] == B[k]:
            continue
        if k == "tb.exact" and allow is not None and allow[0] == "tb_sort":
            tid = allow[1]
            o, n = s0["raw"]["tb"], s1["raw"]["tb"]
            if list(o.keys()) != list(n.keys()):
                out.append((k, "keys changed: %s -> %s" % (list(o), list(n))))
                continue
            bad = [x for x in o if x != tid and (o[x] != n[x] or [type(e) for e in o[x]] != [type(e) for e in n[x]])]
            if bad:
                out.append((k, "lists of other tracks changed: %s" % [(x, o[x], n[x]) for x in bad[:3]]))
                continue
            if tid not in o:
                out.append((k, "lookup changed although track %r is unknown: %s" % (tid, _where(A[k], B[k]))))
                continue
            if sorted(map(repr, o[tid])) != sorted(map(repr, n[tid])):
                out.append((k, "queried list changed as a multiset: %s -> %s" % (o[tid], n[tid])))
                continue
            want = sorted(o[tid], key=lambda x: t.get_time(x))
            if n[tid] != want:
                out.append((k, "queried list is not the stable time-sort of the old one: %s -> %s (expected %s)" % (o[tid], n[tid], want)))
            continue
        if k.startswith("identity"):
            da, db = dict(A[k]), dict(B[k])
            ch = [_show(n) for n in da if n in db and db[n] != da[n]]
            out.append((k, "object(s) replaced by other objects: %s; entries removed: %s; added: %s"
                        % (ch[:6], [_show(n) for n in da if n not in db][:6], [_show(n) for n in db if n not in da][:6])))
            continue
        out.append((k, _where(A[k], B[k])))
    return sorted(out)


# --------------------------------------------------------------------------- tracks objects
def make_object(seed, idx, variant):
    """variant: 'session' (after an editing session), 'session+undo' (then 1-3 undos: pending redo
    entries), 'fresh' (just constructed), 'fresh-tuple' / 'fresh-ndarray' (scale of another type),
    'plain' (Tracks, not SolutionTracks)"""
    scn = None
    if variant in ("session", "session+undo", "fresh"):
        scn = E.run_scenario(seed, idx, nsteps=0 if variant == "fresh" else None, seg_p=0.5)
        return scn["tracks"], scn["cfg"], scn
    rng = random.Random(repr((seed, idx, variant)))
    cfg = E.gen_config(rng, 0.5)
    g, seg = E.gen_forest(rng, cfg)
    if variant == "plain":
        from funtracks.data_model import Tracks

        kw = {}
        if cfg["per_axis"]:
            kw["pos_attr"] = (["z"] if cfg["ndim"] == 4 else []) + ["y", "x"]
        t = Tracks(g, segmentation=seg, ndim=cfg["ndim"], scale=cfg["scale"], **kw)
        if cfg["enable"]:
            t.enable_features(list(cfg["enable"]))
        return t, cfg, None
    sc = cfg["scale"] if cfg["scale"] is not None else [1.0] * cfg["ndim"]
    cfg["scale"] = tuple(sc) if variant == "fresh-tuple" else np.array(sc, dtype=float)
    cfg["enable"] = [k for k in cfg["enable"] if k == "iou"]
    t = E.build_tracks(cfg, g, seg)
    return t, cfg, None


class Runner:
    """calls read-only operations on one tracks object between snapshots"""

    def __init__(self, t, cfg, scn, rng, tmp, ident):
        self.t, self.cfg, self.scn, self.rng, self.tmp, self.ident = t, cfg, scn, rng, tmp, ident
        self.counts, self.excs, self.viol = Counter(), Counter(), []
        self.emits = 0
        self.permuted = 0
        self.nfile = 0
        self.labels = set()
        self.model_off = None
        t.refresh.connect(self._on_refresh)
        self.rf = list(scn["obs"][-1]["rf"]) if scn else [0, "-"]
        self.base = snapshot(t)

    def _on_refresh(self, *a):
        self.emits += 1
        self.rf[0] += 1
        self.rf[1] = "n" if (not a or a[0] is None) else str(int(a[0]))

    def path(self, ext=""):
        self.nfile += 1
        return Path(self.tmp) / ("o%d%s" % (self.nfile, ext))

    def log(self, line, kind, code, aux):
        if self.scn is None or self.model_off:
            return
        try:
            o = dict(E.observe(self.t, self.cfg, self.rf[0], self.rf[1]), ret=code, aux=aux)
        except Exception as e:  # noqa: BLE001  (a modified object may not be observable any more: the violation is reported by call())
            self.model_off = "state not observable after `%s`: %s: %s" % (line, type(e).__name__, e)
            return
        self.scn["lines"].append(line)
        self.scn["kinds"].append(kind)
        self.scn["obs"].append(o)

    def call(self, kind, label, thunk, allow=None, model=None):
        """model = (line, kind name, result -> (code, aux)) for operations the Coq model has"""
        e0 = self.emits
        exc = None
        res = None
        try:
            res = thunk()
        except Exception as e:  # noqa: BLE001  (invalid arguments may raise; they must still not modify)
            exc = e
        self.counts[kind] += 1
        if exc is not None:
            self.excs["%s:%s" % (kind, type(exc).__name__)] += 1
        else:
            self.labels.add(label)
        after = snapshot(self.t)
        d = diff(self.base, after, allow, self.t)
        if allow is not None and self.base["S"].get("tb.exact") != after["S"].get("tb.exact") and not d:
            self.permuted += 1
        if self.emits != e0:
            d.append(("refresh", "%d refresh emission(s)" % (self.emits - e0)))
        for field, detail in d:
            self.viol.append({"what": "read-only operation `%s` modified the tracks: %s %s" % (label, field, detail),
                              "input": {"object": self.ident, "cfg": _jsonable(self.cfg), "op": label, "field": field,
                                        "raised": None if exc is None else "%s: %s" % (type(exc).__name__, str(exc)[:120])},
                              "impl": detail, "model": "unchanged (ro_eq)",
                              "signature": "C16:%s:%s" % (kind, field.split("/")[0])})
        self.base = after
        if model is not None:
            line, mkind, conv = model
            if exc is not None:
                code, aux = E.classify(exc), []
            else:
                code, aux = conv(res)
            self.log(line, mkind, code, aux)
        return res, exc


def _jsonable(cfg):
    return {k: (v.tolist() if isinstance(v, np.ndarray) else list(v) if isinstance(v, tuple) else v) for k, v in cfg.items()}


def exercise(R, geff_budget=3):
    """every read-only operation on R.t"""
    from funtracks.import_export import export_to_csv, export_to_geff
    from funtracks.import_export.internal_format import save_tracks

    t, cfg, rng = R.t, R.cfg, R.rng
    g = t.graph
    ns = list(g.nodes)
    es = list(g.edges)
    T = cfg["T"]
    sol = hasattr(t, "track_annotator")
    UNK = 9999
    sub = set(rng.sample(ns, rng.randint(1, len(ns)))) if ns else set()
    sub2 = {rng.choice(ns)} if ns else set()
    pick = lambda l, k: l if len(l) <= k else rng.sample(l, k)

    # ---- queries of Tracks
    R.call("nodes", "nodes()", lambda: t.nodes())
    R.call("edges", "edges()", lambda: t.edges())
    R.call("in_degree", "in_degree()", lambda: t.in_degree())
    R.call("out_degree", "out_degree()", lambda: t.out_degree())
    R.call("in_degree", "in_degree(nodes)", lambda: t.in_degree(np.array(ns, dtype=np.int64)))
    R.call("out_degree", "out_degree(nodes)", lambda: t.out_degree(np.array(ns, dtype=np.int64)))
    R.call("in_degree", "in_degree([unknown])", lambda: t.in_degree(np.array([UNK])))
    R.call("out_degree", "out_degree([unknown])", lambda: t.out_degree(np.array([UNK])))
    for n in pick(ns, 4) + [UNK]:
        R.call("predecessors", "predecessors(%d)" % n, lambda n=n: t.predecessors(n))
        R.call("successors", "successors(%d)" % n, lambda n=n: t.successors(n))
        R.call("get_position", "get_position(%d)" % n, lambda n=n: t.get_position(n))
        R.call("get_position", "get_position(%d, incl_time=True)" % n, lambda n=n: t.get_position(n, incl_time=True))
        R.call("get_time", "get_time(%d)" % n, lambda n=n: t.get_time(n))
        R.call("get_pixels", "get_pixels(%d)" % n, lambda n=n: t.get_pixels(n))
    R.call("get_positions", "get_positions(all)", lambda: t.get_positions(ns))
    R.call("get_positions", "get_positions(all, incl_time=True)", lambda: t.get_positions(ns, incl_time=True))
    R.call("get_positions", "get_positions([unknown])", lambda: t.get_positions([UNK]))
    R.call("get_positions", "get_positions([])", lambda: t.get_positions([]))
    R.call("get_times", "get_times(all)", lambda: t.get_times(ns))
    R.call("get_times", "get_times([unknown])", lambda: t.get_times([UNK]))
    keys = list(t.features.keys()) + ["nokey"]
    for k in keys:
        n = rng.choice(ns) if ns else UNK
        R.call("get_node_attr", "get_node_attr(%d, %r)" % (n, k), lambda n=n, k=k: t.get_node_attr(n, k))
        R.call("get_node_attr", "get_node_attr(%d, %r, required=True)" % (n, k), lambda n=n, k=k: t.get_node_attr(n, k, required=True))
        R.call("get_nodes_attr", "get_nodes_attr(all, %r)" % k, lambda k=k: t.get_nodes_attr(ns, k))
    R.call("get_node_attr", "get_node_attr(unknown, 'time')", lambda: t.get_node_attr(UNK, "time"))
    R.call("get_nodes_attr", "get_nodes_attr([unknown], 'time', required=True)", lambda: t.get_nodes_attr([UNK], "time", required=True))
    for e in pick(es, 3) + [(UNK, UNK + 1)]:
        for k in ("iou", "nokey"):
            R.call("get_edge_attr", "get_edge_attr(%s, %r)" % (e, k), lambda e=e, k=k: t.get_edge_attr(e, k))
            R.call("get_edge_attr", "get_edge_attr(%s, %r, required=True)" % (e, k), lambda e=e, k=k: t.get_edge_attr(e, k, required=True))
    R.call("get_edges_attr", "get_edges_attr(all, 'iou')", lambda: t.get_edges_attr(es, "iou"))
    R.call("get_edges_attr", "get_edges_attr(all, 'iou', required=True)", lambda: t.get_edges_attr(es, "iou", required=True))
    R.call("get_available_features", "get_available_features()", lambda: t.get_available_features())
    R.call("features_read", "features.node_features/edge_features/dump_json", lambda: (t.features.node_features, t.features.edge_features, t.features.dump_json()))
    R.call("deprecated_props", "time_attr/pos_attr", lambda: (t.time_attr, t.pos_attr))
    R.call("deprecated_getters", "get_areas(all)", lambda: t.get_areas(ns))
    if ns:
        R.call("deprecated_getters", "get_area(n)", lambda: t.get_area(ns[0]))
    R.call("deprecated_getters", "get_ious(all)", lambda: t.get_ious(es))
    if es:
        R.call("deprecated_getters", "get_iou(e)", lambda: t.get_iou(es[0]))

    # ---- queries of SolutionTracks
    if sol:
        ta = t.track_annotator
        for n in pick(ns, 4) + [UNK]:
            R.call("get_track_id", "get_track_id(%d)" % n, lambda n=n: t.get_track_id(n))
            R.call("get_lineage_id", "get_lineage_id(%d)" % n, lambda n=n: t.get_lineage_id(n))
        R.call("max_track_id", "max_track_id", lambda: t.max_track_id)
        R.call("track_id_to_node", "track_id_to_node", lambda: t.track_id_to_node)
        R.call("node_id_to_track_id", "node_id_to_track_id", lambda: t.node_id_to_track_id)
        nxt = lambda r: (0, [int(x) for x in r])
        R.call("get_next_ids", "get_next_track_id()/get_next_lineage_id()", lambda: (t.get_next_track_id(), t.get_next_lineage_id()),
               model=("X", "q_next_ids", nxt))
        tids = pick(list(ta.tracklet_id_to_nodes.keys()), 5) + [777]
        for tid in tids:
            for tm in pick(list(range(-1, T + 1)), 4):
                R.call("has_track_id_at_time", "has_track_id_at_time(%d, %d)" % (tid, tm), lambda tid=tid, tm=tm: t.has_track_id_at_time(tid, tm),
                       model=("H %d %d" % (tid, tm), "q_has_track", lambda r: (1 if r else 2, [])))
            for tm in pick(list(range(-1, T + 1)), 4):
                R.call("get_track_neighbors", "get_track_neighbors(%d, %d)" % (tid, tm), lambda tid=tid, tm=tm: t.get_track_neighbors(tid, tm),
                       allow=("tb_sort", tid),
                       model=("Q %d %d" % (tid, tm), "q_neighbors", lambda r: (0, [-1 if x is None else int(x) for x in r])))

    # ---- CSV export
    if sol:
        R.call("csv_full", "export_to_csv(full)", lambda: export_to_csv(t, R.path(".csv")))
        R.call("csv_full_display", "export_to_csv(full, use_display_names=True)", lambda: export_to_csv(t, R.path(".csv"), use_display_names=True))
        R.call("csv_subset", "export_to_csv(node_ids=%s)" % sorted(sub), lambda: export_to_csv(t, R.path(".csv"), node_ids=set(sub)))
        R.call("csv_subset_display", "export_to_csv(node_ids=%s, use_display_names=True)" % sorted(sub2),
               lambda: export_to_csv(t, R.path(".csv"), node_ids=set(sub2), use_display_names=True))
        R.call("csv_subset_invalid", "export_to_csv(node_ids={unknown})", lambda: export_to_csv(t, R.path(".csv"), node_ids={UNK}))
        R.call("csv_subset_empty", "export_to_csv(node_ids=set())", lambda: export_to_csv(t, R.path(".csv"), node_ids=set()))
        colors = {n: np.array([0.1, 0.5, (n % 10) / 10.0, 1.0]) for n in ns}
        R.call("csv_colors", "export_to_csv(color_dict)", lambda: export_to_csv(t, R.path(".csv"), color_dict=colors))
        if t.segmentation is not None:
            R.call("csv_with_seg", "export_to_csv(export_seg=True)", lambda: export_to_csv(t, R.path(".csv"), export_seg=True, seg_path=R.path(".tif")))
            R.call("csv_with_seg_subset", "export_to_csv(node_ids, export_seg=True)",
                   lambda: export_to_csv(t, R.path(".csv"), node_ids=set(sub), export_seg=True, seg_path=R.path(".tif")))
        R.call("csv_deprecated_method", "export_tracks(file)", lambda: t.export_tracks(R.path(".csv")))
        R.call("csv_deprecated_method", "export_tracks(file, node_ids)", lambda: t.export_tracks(R.path(".csv"), node_ids=set(sub)))

    # ---- save
    R.call("save_tracks", "save_tracks(dir)", lambda: save_tracks(t, R.path()))
    R.call("save_deprecated_method", "tracks.save(dir)", lambda: t.save(R.path()))

    # ---- GEFF export
    withseg = "+seg" if t.segmentation is not None else ""
    plan = [("geff_full" + withseg, "export_to_geff(full, overwrite=True)", {}),
            ("geff_subset" + withseg, "export_to_geff(node_ids=%s, overwrite=True)" % sorted(sub), {"node_ids": set(sub)}),
            ("geff_subset" + withseg, "export_to_geff(node_ids=%s, overwrite=True)" % sorted(sub2), {"node_ids": set(sub2)}),
            ("geff_subset_invalid", "export_to_geff(node_ids={unknown})", {"node_ids": {UNK}}),
            ("geff_zarr3" + withseg, "export_to_geff(full, zarr_format=3)", {"zarr_format": 3})]
    plan = plan[:2] + rng.sample(plan[2:], max(0, min(len(plan) - 2, geff_budget - 2))) if geff_budget < len(plan) else plan
    last = None
    for kind, label, kw in plan[:max(geff_budget, 0)]:
        last = R.path()
        R.call(kind, label, lambda kw=kw, last=last: export_to_geff(t, last, overwrite=True, **kw))
    if last is not None and geff_budget >= 2:
        # second export into the same (now non-empty) directory
        R.call("geff_overwrite_existing" + withseg, "export_to_geff(existing dir, overwrite=True)", lambda: export_to_geff(t, last, overwrite=True))
        R.call("geff_refused_existing", "export_to_geff(existing dir, overwrite=False)", lambda: export_to_geff(t, last, overwrite=False))

    # ---- the documented exception, last: _get_new_node_ids may only move node_id_counter
    if sol:
        k = rng.randint(1, 3)
        before = R.base
        c0 = t.node_id_counter
        try:
            ids = t._get_new_node_ids(k)
        except Exception:  # noqa: BLE001
            ids = None
        after = snapshot(t)
        R.counts["_get_new_node_ids(excluded)"] += 1
        d = [x for x in diff(before, after) if x[0] != "node_id_counter"]
        if ids is None or d or not (t.node_id_counter >= c0 + k):
            R.viol.append({"what": "_get_new_node_ids(%d) touched more than the id counter: %s" % (k, d[:2]),
                           "input": {"object": R.ident, "cfg": _jsonable(cfg), "op": "_get_new_node_ids(%d)" % k}, "impl": str(d[:2]),
                           "model": "only nctr advances (C16_new_ids_exception)", "signature": "C16:new_ids:other"})
        R.base = after
        if ids is not None:
            R.log("I %d" % k, "q_new_ids", 0, [int(x) for x in ids])


def _object(args):
    seed, idx, variant, geff_budget = args
    tmp = tempfile.mkdtemp(prefix="funverif.")
    ident = {"seed": seed, "index": idx, "variant": variant, "geff_budget": geff_budget}
    try:
        t, cfg, scn = make_object(seed, idx, variant)
        rng = random.Random(repr((seed, idx, variant, "ops")))
        base_steps = len(scn["obs"]) if scn else 0
        if variant == "session+undo" and scn is not None:
            # pending redo entries; logged as ordinary undo steps for the model replay
            cnt = list(scn["obs"][-1]["rf"])

            def on_r(*a):
                cnt[0] += 1
                cnt[1] = "n"

            t.refresh.connect(on_r)
            for _ in range(rng.randint(1, 3)):
                try:
                    r = t.undo()
                    code = 1 if r else 2
                except Exception as e:  # noqa: BLE001
                    code = E.classify(e)
                scn["lines"].append("U")
                scn["kinds"].append("undo")
                scn["obs"].append(dict(E.observe(t, cfg, cnt[0], cnt[1]), ret=code, aux=[]))
            t.refresh.disconnect(on_r)
            base_steps = len(scn["obs"])
        R = Runner(t, cfg, scn, rng, tmp, ident)
        exercise(R, geff_budget)
        ah = t.action_history
        sc = t.scale
        out = {"ident": ident, "cfg": _jsonable(cfg), "counts": dict(R.counts), "excs": dict(R.excs), "violations": R.viol,
               "permuted": R.permuted, "labels": len(R.labels), "nodes": t.graph.number_of_nodes(),
               "undo": len(ah.undo_stack), "redo": len(ah.redo_stack),
               "scale_type": "None" if sc is None else type(sc).__name__, "solution": hasattr(t, "track_annotator"),
               "pos_key_list": isinstance(t.features.position_key, list), "seg": t.segmentation is not None, "ndim": t.ndim,
               "base_steps": base_steps, "model_off": R.model_off}
        if scn is not None:
            out["scn"] = {k: scn[k] for k in ("lines", "obs", "kinds", "cfg", "seed", "index")}
        return out
    except Exception as e:  # noqa: BLE001
        import traceback

        return {"ident": ident, "error": "%s: %s\n%s" % (type(e).__name__, e, traceback.format_exc()[-900:])}
    finally:
        shutil.rmtree(tmp, ignore_errors=True)


def plan_objects(seed, quick):
    n_sess, n_undo, n_fresh, n_alt, n_plain = (70, 50, 24, 12, 16) if quick else (420, 320, 120, 60, 80)
    out = []
    i = 0
    for variant, n in (("session", n_sess), ("session+undo", n_undo), ("fresh", n_fresh), ("fresh-tuple", n_alt // 2),
                       ("fresh-ndarray", n_alt - n_alt // 2), ("plain", n_plain)):
        for _ in range(n):
            out.append((seed, i, variant, 3 if quick else 4))
            i += 1
    return out


def run(ctx):
    plan = plan_objects(ctx.seed, ctx.quick())
    procs = min(16, os.cpu_count() or 4)
    with mp.get_context("fork").Pool(procs) as pool:
        res = pool.map(_object, plan, chunksize=max(1, len(plan) // (procs * 6)))
    errors = [r for r in res if "error" in r]
    objs = [r for r in res if "error" not in r]
    violations, divergences, samples = [], [], []
    counts, excs, cat = Counter(), Counter(), Counter()
    distinct = 0
    for r in objs:
        counts.update(r["counts"])
        excs.update(r["excs"])
        violations += r["violations"]
        distinct += r["labels"] if r["nodes"] > 0 else 0
        v = r["ident"]["variant"]
        cat["variant:" + v] += 1
        cat["scale:" + r["scale_type"]] += 1
        cat["position:" + ("per-axis" if r["pos_key_list"] else "single-key")] += 1
        cat["segmentation:" + ("yes" if r["seg"] else "no")] += 1
        cat["ndim:%d" % r["ndim"]] += 1
        cat["class:" + ("SolutionTracks" if r["solution"] else "Tracks")] += 1
        cat["undo_history:" + ("yes" if r["undo"] else "no")] += 1
        cat["pending_redo:" + ("yes" if r["redo"] else "no")] += 1
        cat["empty_graph"] += int(r["nodes"] == 0)
    for e in errors[:3]:
        divergences.append({"what": "object runner raised", "detail": e["error"], "object": e["ident"]})
    for r in [r for r in objs if r.get("model_off")][:3]:
        divergences.append({"what": "model replay cut short", "detail": r["model_off"], "object": r["ident"]})

    # ---- model replay of the logged query calls
    scns = [r for r in objs if "scn" in r]
    lines = []
    for r in scns:
        lines += r["scn"]["lines"]
    rc, out = C.run_driver(ctx.driver, lines, timeout=1200)
    mos = E.split_model_output(out)
    unparsed = [l for l in out if l.startswith("?")]
    if rc != 0 or len(mos) != len(scns) or unparsed:
        divergences.append({"what": "model driver failed", "rc": rc, "unparsed": unparsed[:3], "scenarios": len(scns), "model_scenarios": len(mos)})
    qsteps, foreign = 0, 0
    qkinds = Counter()
    for r, mo in zip(scns, mos):
        s = r["scn"]
        nst, d = E.compare(s, mo)
        base = r["base_steps"]
        qsteps += max(0, nst - base)
        for k in s["kinds"][base:nst]:
            qkinds[k] += 1
        if d is not None:
            if d["step"] >= base:
                ops = G.ops_of(s)
                divergences.append({"object": r["ident"], "cfg": s["cfg"], "op": d.get("op"), "fields": d["fields"],
                                    "ops_until_divergence": ops[max(0, d["step"] - 6):d["step"]], "impl": d.get("impl"), "model": d.get("model")})
            else:
                foreign += 1
        if len(samples) < 3 and r["permuted"] and r["ident"]["variant"].startswith("session"):
            samples.append({"object": r["ident"], "cfg": s["cfg"], "session_ops": G.ops_of(s)[:max(0, base - 1)][:10],
                            "read_only_calls": sum(r["counts"].values()), "neighbor_calls_that_reordered_a_lookup_list": r["permuted"]})

    # ---- the shared engine: random editing sessions with the C16 oracle ("query changed the tracks")
    eng = G.run_property(ctx, "C16", n_quick=400, n_thorough=6000, seg_p=0.5)
    violations += eng["violations"]
    divergences += eng["divergences"]
    evaluations = sum(counts.values())
    stats = {"objects": len(objs), "object_categories": dict(sorted(cat.items())),
             "operations": dict(sorted(counts.items())), "operations_total": evaluations,
             "raised_by_kind": dict(sorted(excs.items())),
             "geff_exports": sum(v for k, v in counts.items() if k.startswith("geff")),
             "csv_exports": sum(v for k, v in counts.items() if k.startswith("csv")),
             "saves": sum(v for k, v in counts.items() if k.startswith("save")),
             "neighbor_calls_that_reordered_a_lookup_list": sum(r["permuted"] for r in objs),
             "model_replay": {"scenarios": len(scns), "query_steps_compared": qsteps, "kinds": dict(qkinds), "divergences_in_edit_prefix_(other_properties)": foreign},
             "engine": eng["stats"], "engine_steps_compared": eng["evaluations"],
             "engine_query_steps": {k: v for k, v in eng["stats"].get("op_kinds", {}).items() if k.startswith("q_")},
             "excluded_operations": ["Tracks._get_new_node_ids (advances node_id_counter; private fresh-id source, not a read-only query)"],
             "runner_errors": len(errors)}
    violations.sort(key=lambda v: (str((v.get("input") or {}).get("field", "")).startswith("identity"), len(str(v.get("input", ""))), v.get("what", "")))
    return {"evaluations": evaluations + qsteps + eng["evaluations"], "distinct_nontrivial": distinct + eng["distinct_nontrivial"],
            "rule": "objects: random configuration (2D+t / 3D+t, with / without segmentation, scale None / list / tuple / ndarray, single-key or per-axis positions, extra features, custom feature) x random forest (0-8 nodes) x {freshly constructed, after a random editing session of 4-22 operations, the same followed by 1-3 undos (pending redo entries), plain Tracks}; on each object every read-only operation (CSV export full / subset / display names / colors / with segmentation; GEFF export full / subset / zarr 3 / into an existing directory; save; all queries with valid and invalid arguments) is called between two deep snapshots. evaluations = read-only calls snapshot-compared + query steps compared with the model + engine steps; non-trivial = a call that returned normally on a non-empty object; distinct = distinct (object, call) pairs. "
                    + eng["rule"],
            "samples": samples + eng["samples"][:2], "divergences": divergences, "violations": violations, "stats": stats}


def replay(ctx, payload):
    inp = payload.get("input") or {}
    if isinstance(inp, dict) and "object" in inp:
        o = inp["object"]
        r = _object((o["seed"], o["index"], o["variant"], o.get("geff_budget", 3)))
        vs = r.get("violations", [])
        return {"violation": bool(vs), "violations": [{"what": v["what"], "op": v["input"]["op"]} for v in vs[:8]], "error": r.get("error")}
    return G.replay(ctx, payload)
