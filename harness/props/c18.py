"""C18 - candidate graph: correspondence of Model/CandGraph.v with
funtracks.candidate_graph.{utils,compute_graph,iou}, plus the property's direct
(brute-force) oracle on the implementation's output.

Case kinds (one driver line each):
  P   compute_graph_from_points_list                      nodes + edges
  NP  nodes_from_points_list                              nodes + node_frame_dict
  G   add_cand_edges(graph, r) with node_frame_dict=None  edges (arbitrary ids, negative times)
  S   compute_graph_from_seg (iou on/off)                 nodes + edges + iou values / ValueError
  NS  nodes_from_segmentation                             nodes + node_frame_dict / ValueError
  I   _compute_ious on two flat frames                    (l1, l2, inter, union) list

Exactness: point coordinates are integers, scales are multiples of 1/4, so every stored
position times 4 is an integer and the model (integers, d2max = floor(r^2 * 16)) decides
`distance <= r` exactly, including 3-4-5 boundaries.  For segmentations the model gets the
list of near label pairs computed here from exact rational centroids; a radius is redrawn
when some pair is closer than 1e-9 to the boundary without being exactly (dyadically) on it.
"""
from __future__ import annotations

import math
import os
from fractions import Fraction as Fr

os.environ.setdefault("TQDM_DISABLE", "1")

import networkx as nx  # noqa: E402
import numpy as np  # noqa: E402

import common as C  # noqa: E402

META = {
    "claimed": True,
    "id": "C18",
    "coq_targets": ["Props/C18.vo", "Extract/Extract_C18.vo"],
    "technique": "Coq proof (membership characterisation of the frame loop via a dict-membership invariant; fold invariants for the node builders; counting lemma for the IoU table) + differential correspondence of the extracted model with the implementation + brute-force oracle over all node pairs",
    "level_text": "Theorems C18_edges / C18_edges_gap / C18_edges_points / C18_edges_seg / C18_nodes_points(_error) / C18_nodes_seg(_ok) / C18_iou_frames / C18_iou_entries / C18_iou hold for every node list, point list and label array of every size, every near relation / squared radius and integer scale; the hand-written model is tied to /repo by running the extracted model and the implementation on the same generated inputs and comparing nodes (id, time, position, area), node_frame_dict, edge sets and IoU values; independently every implementation output is checked against the property by brute force over all pairs of detections. C18_points_graph_is_generated / C18_add_iou_is_generated (and, in Proofs/CandGraphTie.v, the ties of all ten functions): the candidate-graph functions of the model equal, for all arguments, the code translated on every run from the current candidate_graph/*.py (Gen/CandGraph_gen.v; fail-closed translator); scipy's KDTree is uninterpreted and only the specification of query_ball_tree is assumed; the Python raises nothing on these inputs.",
    "level_note": "Trusted: Coq kernel, extraction (ExtrOcamlBasic), OCaml driver, Python harness. Modelled not verified: scipy KDTree.query_ball_tree (universally quantified boolean `near` in the theorems; exact integer test d^2 <= floor(r^2) in the executable model, checked against scipy on every case), skimage regionprops (labels present = positive values in ascending order; area = pixel count x prod(scale); centroid symbolic in the model, compared with an exact rational recomputation in the harness), numpy unique/logical_and in _compute_ious (modelled by counting), networkx DiGraph as a node list + edge set. Tied to the source in a second way: candidate_graph/*.py is re-translated on every run (harness/translate_candgraph.py, fail closed; combinators Model/PyRt5.v) and proved equal to the model (Proofs/CandGraphTie.v); _compute_ious up to the order of its result list.",
    "design_ref": "DESIGN.md section 9 (C18)",
    "assumptions": ["label arrays: every positive label value occurs in at most one frame (otherwise nodes_from_segmentation raises ValueError('Duplicate values found among nodes'); theorem C18_nodes_seg_ok characterises exactly this)",
                    "coordinates, times and scales are exact (integers / dyadic rationals) in the generated inputs; float rounding of arbitrary real coordinates inside scipy/skimage is out of scope",
                    "non-positive labels are background for regionprops (negative labels are not generated)"],
    "trusted": ["translator harness/translate_candgraph.py (closed idiom table; fail closed) with coq/Model/PyRt5.v",
                "scipy.spatial.KDTree.query_ball_tree: modelled as the exact test dist^2 <= r^2 (points) / as an oracle list of near label pairs computed from exact rational centroids (segmentations)",
                "skimage.measure.regionprops: label order, area, centroid"],
}

RADII = [5.0, 4.99, 5.01, 0.0, 1.0, math.sqrt(2), 1.5, 2.0, 3.0, math.sqrt(5), 7.0, 100.0, 2.5, 4.0]
SCALES = [1, 1, 1, 2, 3, 0.5, 0.25, 1.5]
OFFSETS = [(0, 0), (3, 4), (4, 3), (5, 0), (0, 5), (1, 1), (3, 3), (0, 1), (2, 2), (6, 8), (1, 2)]
DEN = 4  # common denominator of all scales


# --------------------------------------------------------------------------- helpers
def fr(x):
    return Fr(float(x)) if not isinstance(x, (int, np.integer)) else Fr(int(x))


def radius_ok(r, den=DEN):
    """exact r^2 and the float r*r select the same multiples of 1/den^2"""
    return math.floor(Fr(r) ** 2 * den * den) == math.floor(Fr(r * r) * den * den)


def d2max_of(r, den=DEN):
    return math.floor(Fr(r) ** 2 * den * den)


def zs(l):
    return ",".join(str(int(x)) for x in l) if len(l) else ""


def rows(ll):
    return ";".join(zs(r) for r in ll) if len(ll) else "-"


def parse_nodes(s):
    out = []
    for part in s.split(";"):
        if not part:
            continue
        i, t, p, a = part.split(":")
        out.append((int(i), int(t), tuple(int(x) for x in p.split(",")) if p else (), int(a)))
    return out


def parse_pairs(s):
    return [tuple(int(x) for x in p.split(">")) for p in s.split(";") if p]


def parse_nfd(s):
    out = []
    for part in s.split(";"):
        if part:
            t, ids = part.split(":")
            out.append((int(t), [int(x) for x in ids.split(",")] if ids else []))
    return out


def parse_ious(s):
    out = {}
    for part in s.split(";"):
        if part:
            e, v = part.split("=")
            u, w = e.split(">")
            i, n = v.split("/")
            out[(int(u), int(w))] = (int(i), int(n))
    return out


def sections(mo, n):
    parts = [p.strip() for p in mo.split("|")]
    return parts if len(parts) == n else None


def as_int(x, mult=1):
    """exact integer value of mult*x, or None"""
    v = fr(x) * mult
    return int(v) if v.denominator == 1 else None


# --------------------------------------------------------------------------- generators
def gen_points(rng):
    ndim = rng.choice([3, 4])
    T = rng.randint(1, 6)
    k = ndim - 1
    pool = [tuple(rng.randint(0, 4) for _ in range(k)) for _ in range(3)]
    pts = []
    prev = []
    for t in range(T):
        n = 0 if rng.random() < 0.28 else rng.randint(1, 5)
        cur = []
        for _ in range(n):
            c = rng.random()
            if prev and c < 0.55:
                b = rng.choice(prev)
                off = rng.choice(OFFSETS)
                off = off + (0,) * (k - 2) if rng.random() < 0.7 else (0,) * (k - 2) + off
                sg = [rng.choice([1, -1]) for _ in range(k)]
                p = tuple(b[i] + sg[i] * off[i] for i in range(k))
            elif c < 0.8:
                p = rng.choice(pool)
            else:
                p = tuple(rng.randint(0, 6) for _ in range(k))
            cur.append(p)
            pts.append([t, *p])
        if cur:
            prev = cur
    if rng.random() < 0.4:
        rng.shuffle(pts)
    # frame offset / gaps beyond empty frames
    if rng.random() < 0.2:
        sh = rng.randint(1, 3)
        cut = rng.randint(0, T)
        pts = [[p[0] + (sh if p[0] >= cut else 0), *p[1:]] for p in pts]
    scale = None
    if rng.random() < 0.5:
        scale = [rng.choice([1, 1, 1, 2])] + [rng.choice(SCALES) for _ in range(k)]
    while True:
        r = rng.choice(RADII)
        if radius_ok(r) and radius_ok(r, 1):
            break
    return {"kind": rng.choice(["P", "P", "P", "NP"]), "pts": pts, "ndim": ndim, "r": r, "scale": scale,
            "dtype": rng.choice(["int", "float"])}


def gen_graph(rng):
    n = rng.randint(0, 9)
    ids = rng.sample(range(0, 40), n)
    nodes = []
    base = [(rng.randint(0, 4), rng.randint(0, 4)) for _ in range(3)]
    for i in ids:
        b = rng.choice(base)
        off = rng.choice(OFFSETS) if rng.random() < 0.6 else (0, 0)
        nodes.append((i, rng.choice([-2, -1, 0, 1, 2, 3, 5, 6]), (b[0] + off[0], b[1] + off[1])))
    while True:
        r = rng.choice(RADII)
        if radius_ok(r, 1):
            break
    return {"kind": "G", "nodes": nodes, "r": r}


DTYPES = ["uint8", "uint16", "int32", "int64", "uint64"]
BITS = {"uint8": 8, "uint16": 16, "int32": 32, "int64": 64, "uint64": 64}
DRIVER_MAX = 2 ** 62 - 1  # the OCaml driver parses native 63-bit ints
REGIONPROPS_MAX = 2 ** 17  # regionprops allocates one slot per label value up to the maximum


def dtype_max(dt):
    return min(int(np.iinfo(dt).max), DRIVER_MAX)


def label_pool(rng, dt, cap, heavy):
    """distinct label values <= cap: ordinary small labels, powers of two and their small multiples
    (products of two of them are often multiples of 2^bits of the dtype and wrap to 0 there), and
    values at the top of the range."""
    bits = BITS[dt]
    pw = [2 ** k for k in range(1, 63) if 2 ** k <= cap]
    special = set(pw)
    for b in pw:
        for m in (3, 5, 6, 7, 12):
            if b * m <= cap:
                special.add(b * m)
    # the ones whose pairwise products can reach 2^bits come first in the draw
    half = [x for x in special if x * x >= 2 ** (bits - 2) or x >= 2 ** (bits // 2 - 2)]
    top = {cap, cap - 1, cap - 2, cap // 2 + 1} - {0}
    ordinary = set(range(1, 30)) | {31, 33, 57, 99, 101, 127}
    ordinary = {x for x in ordinary if x <= cap}
    out = []
    for _ in range(24):
        c = rng.random()
        src = (half or sorted(special)) if c < (0.6 if heavy else 0.15) else sorted(special) if c < (0.8 if heavy else 0.3) \
            else sorted(top) if c < (0.88 if heavy else 0.4) else sorted(ordinary)
        x = rng.choice(sorted(src))
        if x not in out:
            out.append(x)
    for x in sorted(ordinary):
        if len(out) >= 20:
            break
        if x not in out:
            out.append(x)
    return out


def gen_seg(rng, kind=None):
    shape = rng.choice([(3, 3), (4, 4), (2, 2, 2), (3, 3)])
    T = rng.randint(2, 5)
    dt = rng.choice(DTYPES)
    heavy = rng.random() < 0.6
    labels = label_pool(rng, dt, min(dtype_max(dt), REGIONPROPS_MAX), heavy)
    rng.shuffle(labels)
    seg = np.zeros((T, *shape), dtype=np.dtype(dt))
    used = []
    for t in range(T):
        if rng.random() < 0.25:
            continue
        nlab = rng.randint(1, 3)
        labs = [labels.pop() for _ in range(nlab)]
        flat = seg[t].reshape(-1)
        # blobs: each label takes a random subset; later labels overwrite earlier ones
        for l in labs:
            for i in range(flat.size):
                if rng.random() < 0.3:
                    flat[i] = l
        used += [l for l in labs if (flat == l).any()]
    dup = False
    if used and rng.random() < 0.1:
        # the same label value in a second frame
        l = rng.choice(used)
        t = rng.randrange(T)
        flat = seg[t].reshape(-1)
        if not (flat == l).any():
            flat[rng.randrange(flat.size)] = l
            dup = True
    scale = None
    if rng.random() < 0.4:
        scale = [1] + [rng.choice([1, 2, 0.5, 3, 1.5]) for _ in shape]
    return {"kind": kind or rng.choice(["S", "S", "S", "NS"]), "seg": seg.tolist(), "seg_dtype": dt, "scale": scale,
            "iou": rng.random() < 0.6, "r": None, "dup": dup}


def gen_ious(rng):
    n = rng.choice([4, 6, 9])
    dt = rng.choice(DTYPES)
    pool = label_pool(rng, dt, dtype_max(dt), rng.random() < 0.7)
    la, lb = [rng.choice(pool) for _ in range(2)], [rng.choice(pool) for _ in range(3)]
    if rng.random() < 0.3:
        lb[0] = la[0]
    f1 = [rng.choice(la) if rng.random() < 0.6 else 0 for _ in range(n)]
    f2 = [rng.choice(lb) if rng.random() < 0.6 else 0 for _ in range(n)]
    return {"kind": "I", "f1": f1, "f2": f2, "seg_dtype": dt}


def seg_array(c, key="seg"):
    return np.array(c[key], dtype=np.dtype(c.get("seg_dtype", "int64")))


def wraps(a, b, dt):
    """the product of two non-zero labels is 0 in the array's dtype"""
    return a != 0 and b != 0 and (a * b) % (2 ** BITS[dt]) == 0


# --------------------------------------------------------------------------- exact geometry of a label array
def detections(seg, scale):
    """{(t, label): (pixel count, exact scaled centroid as Fractions)}"""
    sc = [Fr(1)] * seg.ndim if scale is None else [Fr(s) for s in scale]
    out = {}
    for t in range(seg.shape[0]):
        for l in np.unique(seg[t]):
            if l <= 0:
                continue
            idx = np.argwhere(seg[t] == l)
            n = len(idx)
            out[(t, int(l))] = (n, tuple(Fr(int(idx[:, j].sum()), n) * sc[1 + j] for j in range(idx.shape[1])))
    return out


def dyadic(q):
    d = q.denominator
    return d & (d - 1) == 0


def pick_radius(rng, dets):
    """a radius whose comparison with every pairwise centroid distance is robust to float rounding"""
    cands = [1.0, 1.5, 0.5, 2.0, math.sqrt(2), 1.3, 0.0, 10.0, 1.25, 0.75, 2.5, 1.1]
    ks = list(dets)
    for _ in range(50):
        r = rng.choice(cands)
        r2 = Fr(r) ** 2
        ok = Fr(r * r) == r2 or r == math.sqrt(2)
        for a in ks:
            for b in ks:
                if a[0] >= b[0]:
                    continue
                d2 = sum((x - y) ** 2 for x, y in zip(dets[a][1], dets[b][1]))
                if abs(d2 - r2) <= Fr(1, 10 ** 9):
                    if not (d2 == r2 and all(dyadic(x) for x in dets[a][1] + dets[b][1]) and Fr(r * r) == r2):
                        ok = False
        if ok:
            return r
    return 10.0


# --------------------------------------------------------------------------- evaluation of one case
def eval_case(c):
    """-> dict(line=driver line, impl=canonical implementation output, bad=[(signature, text)], info={...})"""
    from funtracks.candidate_graph import compute_graph_from_points_list, compute_graph_from_seg
    from funtracks.candidate_graph.iou import _compute_ious
    from funtracks.candidate_graph.utils import add_cand_edges, nodes_from_points_list, nodes_from_segmentation

    kind = c["kind"]
    bad, info = [], {}
    if kind in ("P", "NP"):
        pts, scale, r, nd = c["pts"], c["scale"], c["r"], c["ndim"]
        arr = np.array(pts, dtype=np.int64 if c["dtype"] == "int" else np.float64).reshape((-1, nd))
        msc = "-" if scale is None else zs([scale[0]] + [as_int(s, DEN) for s in scale[1:]])
        mult = 1 if scale is None else DEN
        d2max = d2max_of(r, mult)
        if kind == "P":
            line = "P %d %s %s" % (d2max, msc, rows(pts))
            g = compute_graph_from_points_list(arr, r, scale=scale)
            nfd = None
        else:
            line = "NP %s %s" % (msc, rows(pts))
            g, nfd = nodes_from_points_list(arr, scale=scale)
        nodes = []
        for n, d in g.nodes(data=True):
            nodes.append((n, as_int(d["time"]), tuple(as_int(x, mult) for x in d["pos"]), 0))
        impl = {"nodes": nodes}
        # ---- oracle: one node per point, id = index, time/pos = scaled coordinates
        sc = [Fr(1)] * nd if scale is None else [Fr(s) for s in scale]
        if list(g.nodes) != list(range(len(pts))):
            bad.append(("C18:nodes", "node ids %s for %d points" % (list(g.nodes), len(pts))))
        else:
            for i, p in enumerate(pts):
                d = g.nodes[i]
                if fr(d["time"]) != p[0] * sc[0] or [fr(x) for x in d["pos"]] != [p[1 + j] * sc[1 + j] for j in range(nd - 1)]:
                    bad.append(("C18:nodes", "point %d %s scale %s stored as time %s pos %s" % (i, p, scale, d["time"], list(d["pos"]))))
                    break
        if kind == "P":
            impl["edges"] = sorted(g.edges)
            r2 = Fr(r) ** 2
            ns = list(g.nodes)
            P = {n: [fr(x) for x in g.nodes[n]["pos"]] for n in ns}
            Tm = {n: fr(g.nodes[n]["time"]) for n in ns}
            want = set()
            nb = 0
            for u in ns:
                for v in ns:
                    if Tm[v] == Tm[u] + 1:
                        d2 = sum((a - b) ** 2 for a, b in zip(P[u], P[v]))
                        nb += d2 == r2
                        if d2 <= r2:
                            want.add((u, v))
            got = set(g.edges)
            if got != want:
                bad.append(("C18:edges", "edges missing %s, spurious %s (r=%r)" % (sorted(want - got), sorted(got - want), r)))
            times = sorted({p[0] for p in pts})
            info = {"pairs_on_boundary": nb, "edges": len(got), "gap": any(b - a > 1 for a, b in zip(times, times[1:])),
                    "candidates": sum(1 for u in ns for v in ns if Tm[v] == Tm[u] + 1),
                    "equal_pos": len({tuple(p) for p in pts}) < len(pts)}
        else:
            impl["nfd"] = [(as_int(t), [int(x) for x in ids]) for t, ids in nfd.items()]
            info = {"candidates": len(pts)}
        return {"line": line, "impl": impl, "bad": bad, "info": info}

    if kind == "G":
        r = c["r"]
        g = nx.DiGraph()
        for i, t, p in c["nodes"]:
            g.add_node(i, time=t, pos=list(p))
        add_cand_edges(g, max_edge_distance=r)
        line = "G %d %s" % (d2max_of(r, 1), ";".join("%d:%d:%s" % (i, t, zs(p)) for i, t, p in c["nodes"]) or "-")
        r2 = Fr(r) ** 2
        want = {(u, v) for u, tu, pu in c["nodes"] for v, tv, pv in c["nodes"]
                if tv == tu + 1 and sum((a - b) ** 2 for a, b in zip(pu, pv)) <= r2}
        got = set(g.edges)
        if got != want:
            bad.append(("C18:edges", "add_cand_edges(graph): missing %s, spurious %s (r=%r)" % (sorted(want - got), sorted(got - want), r)))
        ts = sorted({t for _, t, _ in c["nodes"]})
        return {"line": line, "impl": {"edges": sorted(got)}, "bad": bad,
                "info": {"edges": len(got), "gap": any(b - a > 1 for a, b in zip(ts, ts[1:])), "candidates": len(want) + 1 if len(ts) > 1 else 0}}

    if kind in ("S", "NS"):
        seg = seg_array(c)
        sdt = c.get("seg_dtype", "int64")
        scale, r, want_iou = c["scale"], c["r"], c["iou"]
        dets = detections(seg, scale)
        prod = Fr(1)
        for s in (scale or [1])[1:]:
            prod *= Fr(s)
        r2 = Fr(r) ** 2
        near = []
        nb = 0
        ks = list(dets)
        for a in ks:
            for b in ks:
                if a != b:
                    d2 = sum((x - y) ** 2 for x, y in zip(dets[a][1], dets[b][1]))
                    nb += (d2 == r2 and b[0] == a[0] + 1)
                    if d2 <= r2:
                        near.append((a[1], b[1]))
        fl = rows([np.array(f).reshape(-1) for f in seg])
        if kind == "S":
            line = "S %d %s %s" % (1 if want_iou else 0, ";".join("%d>%d" % p for p in sorted(set(near))) or "-", fl)
        else:
            line = "NS %s" % fl
        labs_by_val = {}
        for (t, l) in dets:
            labs_by_val.setdefault(l, []).append(t)
        has_dup = any(len(v) > 1 for v in labs_by_val.values())
        try:
            if kind == "S":
                g = compute_graph_from_seg(seg, r, iou=want_iou, scale=scale)
                nfd = None
            else:
                g, nfd = nodes_from_segmentation(seg, scale=scale)
        except ValueError as e:
            if "Duplicate" not in str(e):
                raise
            if not has_dup:
                bad.append(("C18:nodes", "ValueError(Duplicate...) although every label occurs in one frame only"))
            return {"line": line, "impl": "ERR", "bad": bad, "info": {"rejected_duplicate": True, "candidates": 0}}
        if has_dup:
            # the implementation accepted an array in which a label value names two detections:
            # it cannot have one node per detection
            bad.append(("C18:nodes", "label in several frames accepted: %s" % {l: v for l, v in labs_by_val.items() if len(v) > 1}))
        nodes = []
        for n, d in g.nodes(data=True):
            cnt = fr(d["area"]) / prod
            nodes.append((int(n), int(d["time"]), (), int(cnt) if cnt.denominator == 1 else str(cnt)))
        impl = {"nodes": nodes}
        # ---- oracle: nodes = detections, with time, scaled centroid, area
        if not has_dup:
            if sorted(g.nodes) != sorted(l for (_, l) in dets):
                bad.append(("C18:nodes", "nodes %s, detections %s" % (sorted(g.nodes), sorted(dets))))
            else:
                for (t, l), (cnt, cen) in dets.items():
                    d = g.nodes[l]
                    if d["time"] != t or d.get("seg_id") != l or abs(fr(d["area"]) - cnt * prod) > Fr(1, 10 ** 9) \
                            or len(d["pos"]) != len(cen) or any(abs(fr(x) - y) > Fr(1, 10 ** 9) for x, y in zip(d["pos"], cen)):
                        bad.append(("C18:nodes", "detection (%d,%d): stored %s, expected area %s centroid %s" % (t, l, d, cnt * prod, [float(x) for x in cen])))
                        break
        if kind == "S":
            impl["edges"] = sorted((int(u), int(v)) for u, v in g.edges)
            ious = {}
            for u, v, d in g.edges(data=True):
                if "iou" in d:
                    ious[(int(u), int(v))] = float(d["iou"])
            impl["ious"] = ious
            if not has_dup and not bad:
                tm = {l: t for (t, l) in dets}
                want = set()
                for (ta, la) in dets:
                    for (tb, lb) in dets:
                        if tb == ta + 1:
                            # decision on the stored positions, exact; in the 1e-9 zone fall back to the exact centroids
                            pa, pb = [fr(x) for x in g.nodes[la]["pos"]], [fr(x) for x in g.nodes[lb]["pos"]]
                            d2 = sum((x - y) ** 2 for x, y in zip(pa, pb))
                            if abs(d2 - r2) <= Fr(1, 10 ** 9):
                                d2 = sum((x - y) ** 2 for x, y in zip(dets[(ta, la)][1], dets[(tb, lb)][1]))
                            if d2 <= r2:
                                want.add((la, lb))
                got = set(impl["edges"])
                if got != want:
                    bad.append(("C18:edges", "edges missing %s, spurious %s (r=%r)" % (sorted(want - got), sorted(got - want), r)))
                if want_iou:
                    for (u, v) in got:
                        if tm.get(v) != tm.get(u, -9) + 1:
                            continue
                        A, B = seg[tm[u]] == u, seg[tm[v]] == v
                        true = Fr(int((A & B).sum()), int((A | B).sum()))
                        if (u, v) not in ious or abs(Fr(ious[(u, v)]) - true) > Fr(1, 10 ** 12):
                            bad.append(("C18:iou", "edge (%d,%d): iou %s, true overlap %s" % (u, v, ious.get((u, v)), true)))
                            break
                elif ious:
                    bad.append(("C18:iou", "iou attributes although iou=False"))
            frames_present = sorted({t for (t, _) in dets})
            info = {"pairs_on_boundary": nb, "edges": len(impl["edges"]),
                    "gap": any(b - a > 1 for a, b in zip(frames_present, frames_present[1:])),
                    "candidates": sum(1 for a in dets for b in dets if b[0] == a[0] + 1),
                    "iou_positive": sum(1 for x in ious.values() if x > 0),
                    # overlapping label pairs of consecutive frames whose product is 0 in the dtype; those on an edge with iou
                    "wrap_pairs": sum(1 for (ta, la) in dets for (tb, lb) in dets if tb == ta + 1 and wraps(la, lb, sdt)
                                      and bool(((seg[ta] == la) & (seg[tb] == lb)).any())),
                    "wrap_pairs_iou_edges": sum(1 for (u, v) in ious if wraps(u, v, sdt) and ious[(u, v)] > 0)}
        else:
            impl["nfd"] = [(int(t), [int(x) for x in ids]) for t, ids in nfd.items()]
            info = {"candidates": len(dets)}
        return {"line": line, "impl": impl, "bad": bad, "info": info}

    if kind == "I":
        f1, f2 = seg_array(c, "f1"), seg_array(c, "f2")
        sdt = c.get("seg_dtype", "int64")
        out = _compute_ious(f1, f2)
        line = "I %s#%s" % (zs(f1), zs(f2))
        impl = sorted((int(a), int(b), float(x)) for a, b, x in out)
        want = {}
        for a in set(c["f1"]) - {0}:
            for b in set(c["f2"]) - {0}:
                i = int(((f1 == a) & (f2 == b)).sum())
                if i:
                    want[(a, b)] = Fr(i, int(((f1 == a) | (f2 == b)).sum()))
        got = {(a, b): x for a, b, x in impl}
        if set(got) != set(want) or any(abs(Fr(got[k]) - want[k]) > Fr(1, 10 ** 12) for k in want):
            bad.append(("C18:iou", "_compute_ious %s, true %s" % (impl, {k: str(v) for k, v in want.items()})))
        return {"line": line, "impl": impl, "bad": bad,
                "info": {"candidates": len(want), "wrap_pairs": sum(1 for (a, b) in want if wraps(a, b, sdt))}}
    raise ValueError(kind)


def compare(c, ev, mo):
    """canonical comparison of the implementation's output with the model's line; -> None or text"""
    kind, impl = c["kind"], ev["impl"]
    if kind in ("P", "NP"):
        if mo == "ERR":
            return "model: AssertionError"
        p = sections(mo, 2)
        if p is None:
            return "unparsable model output"
        if parse_nodes(p[0]) != impl["nodes"]:
            return "nodes differ"
        if kind == "P":
            me = parse_pairs(p[1])
            if len(set(me)) != len(me):
                return "model adds an edge twice"
            return None if sorted(me) == impl["edges"] else "edges differ"
        return None if parse_nfd(p[1]) == impl["nfd"] else "node_frame_dict differs"
    if kind == "G":
        return None if sorted(set(parse_pairs(mo.strip()))) == impl["edges"] else "edges differ"
    if kind in ("S", "NS"):
        if mo == "ERR" or impl == "ERR":
            return None if mo == impl else "only one side raises the duplicate error"
        p = sections(mo, 3 if kind == "S" else 2)
        if p is None:
            return "unparsable model output"
        if parse_nodes(p[0]) != impl["nodes"]:
            return "nodes differ"
        if kind == "NS":
            return None if parse_nfd(p[1]) == impl["nfd"] else "node_frame_dict differs"
        if sorted(set(parse_pairs(p[1]))) != impl["edges"]:
            return "edges differ"
        mi = parse_ious(p[2])
        if set(mi) != set(impl["ious"]):
            return "iou attribute present on different edges"
        for k, (i, n) in mi.items():
            if n == 0 or abs(Fr(impl["ious"][k]) - Fr(i, n)) > Fr(1, 10 ** 12):
                return "iou of %s differs" % (k,)
        return None
    if kind == "I":
        m = sorted(tuple(int(x) for x in e.split(",")) for e in mo.split(";") if e)
        if [(a, b) for a, b, _, _ in m] != [(a, b) for a, b, _ in impl]:
            return "overlapping pairs differ"
        for (a, b, i, n), (_, _, x) in zip(m, impl):
            if abs(Fr(x) - Fr(i, n)) > Fr(1, 10 ** 12):
                return "iou of (%d,%d) differs" % (a, b)
        return None
    return "?"


def gen_case(rng):
    x = rng.random()
    if x < 0.42:
        return gen_points(rng)
    if x < 0.52:
        return gen_graph(rng)
    if x < 0.92:
        c = gen_seg(rng)
        c["r"] = pick_radius(rng, detections(seg_array(c), c["scale"]))
        return c
    return gen_ious(rng)


def fixed_cases():
    """the witnesses of F-18a and boundary cases, always included"""
    out = [{"kind": "P", "pts": [[0, 0, 0], [1, 0, 0], [3, 0, 0], [4, 0, 0]], "ndim": 3, "r": 5.0, "scale": None, "dtype": "int"},
           {"kind": "P", "pts": [[0, 0, 0], [2, 0, 0], [3, 0, 0]], "ndim": 3, "r": 5.0, "scale": None, "dtype": "float"},
           {"kind": "P", "pts": [[0, 0, 0], [1, 3, 4], [1, 4, 3], [1, 5, 0], [1, 4, 4]], "ndim": 3, "r": 5.0, "scale": None, "dtype": "int"},
           {"kind": "P", "pts": [[0, 0, 0], [1, 3, 4], [1, 4, 3], [1, 5, 0], [1, 4, 4]], "ndim": 3, "r": 4.99, "scale": None, "dtype": "int"},
           {"kind": "P", "pts": [[0, 0, 0, 0], [1, 6, 0, 2]], "ndim": 4, "r": 5.0, "scale": [1, 0.5, 1, 2], "dtype": "int"},
           {"kind": "P", "pts": [], "ndim": 3, "r": 1.0, "scale": None, "dtype": "float"},
           {"kind": "G", "nodes": [(0, 0, (0, 0)), (1, 1, (0, 0)), (2, 3, (0, 0)), (3, 4, (0, 0))], "r": 5.0},
           {"kind": "G", "nodes": [(7, 4, (0, 0)), (3, 3, (3, 4)), (9, 1, (0, 0)), (5, 0, (0, 5))], "r": 5.0}]
    seg = np.zeros((4, 3, 3), dtype=np.int64)
    seg[0, 0, 0:2] = 5
    seg[1, 0, 1:3] = 3
    seg[1, 2, 2] = 6
    seg[3, 0, 1] = 7
    out.append({"kind": "S", "seg": seg.tolist(), "scale": None, "iou": True, "r": 1.0, "dup": False})
    out.append({"kind": "S", "seg": seg.tolist(), "scale": [1, 2, 0.5], "iou": True, "r": 0.5, "dup": False})
    seg2 = seg.copy()
    seg2[2, 1, 1] = 5
    out.append({"kind": "S", "seg": seg2.tolist(), "scale": None, "iou": False, "r": 10.0, "dup": True})
    out.append({"kind": "S", "seg": np.zeros((3, 2, 2), dtype=np.int64).tolist(), "scale": None, "iou": True, "r": 1.0, "dup": False})
    # narrow dtypes: overlapping labels whose product is a multiple of 2^bits
    for dt, a, b in [("uint8", 16, 32), ("uint8", 128, 2), ("uint8", 255, 64), ("uint16", 256, 768), ("uint16", 65535, 32768),
                     ("int32", 65536, 131072), ("uint64", 12, 131072)]:
        sg = np.zeros((3, 3, 3), dtype=np.dtype(dt))
        sg[0, 0, 0:2] = a
        sg[1, 0, 1:3] = b
        sg[1, 2, 2] = 7
        sg[2, 1, 1] = 5
        out.append({"kind": "S", "seg": sg.tolist(), "seg_dtype": dt, "scale": None, "iou": True, "r": 10.0, "dup": False})
    for dt, f1, f2 in [("uint8", [16, 16, 0, 128, 3], [32, 16, 5, 2, 3]), ("uint16", [256, 256, 4096, 0], [256, 512, 16, 9]),
                       ("int32", [65536, 65536, 2 ** 30, 1], [65536, 3, 4, 2 ** 31 - 1]),
                       ("int64", [2 ** 32, 2 ** 32, 2 ** 61, 5], [2 ** 32, 7, 8, DRIVER_MAX]),
                       ("uint64", [2 ** 32, 2 ** 40, 2 ** 61, 5], [2 ** 32, 2 ** 24, 8, DRIVER_MAX])]:
        out.append({"kind": "I", "f1": f1, "f2": f2, "seg_dtype": dt})
    return out


def run(ctx):
    rng = ctx.rng
    n = 1000 if ctx.quick() else 12000
    cases = fixed_cases() + [gen_case(rng) for _ in range(n)]
    evs = [eval_case(c) for c in cases]
    lines = [e["line"] for e in evs]
    rc, mout = C.run_driver(ctx.driver, lines)
    divergences, violations, samples = [], [], []
    if rc != 0 or len(mout) != len(lines):
        divergences.append({"what": "model driver failed", "rc": rc, "out": mout[-3:]})
        mout = [""] * len(lines)
    stats = {"P": 0, "NP": 0, "G": 0, "S": 0, "NS": 0, "I": 0, "with_gap": 0, "with_edges": 0, "edges_total": 0,
             "pairs_exactly_on_boundary": 0, "equal_positions": 0, "empty_input": 0, "rejected_duplicate_label": 0,
             "with_scale": 0, "iou_requested": 0, "iou_positive_edges": 0, "seg_with_empty_frame": 0,
             "seg_dtype": {d: 0 for d in DTYPES}, "overlapping_pairs_with_product_0_in_dtype": 0,
             "iou_edges_with_product_0_in_dtype": 0, "labels_at_dtype_max": 0}
    distinct = set()
    seen_kinds = set()
    for c, ev, mo in zip(cases, evs, mout):
        k, info = c["kind"], ev["info"]
        stats[k] += 1
        stats["with_gap"] += bool(info.get("gap"))
        stats["with_edges"] += bool(info.get("edges"))
        stats["edges_total"] += info.get("edges", 0)
        stats["pairs_exactly_on_boundary"] += info.get("pairs_on_boundary", 0)
        stats["equal_positions"] += bool(info.get("equal_pos"))
        stats["rejected_duplicate_label"] += bool(info.get("rejected_duplicate"))
        stats["with_scale"] += c.get("scale") is not None
        stats["iou_requested"] += bool(k == "S" and c["iou"])
        stats["iou_positive_edges"] += info.get("iou_positive", 0)
        stats["overlapping_pairs_with_product_0_in_dtype"] += info.get("wrap_pairs", 0)
        stats["iou_edges_with_product_0_in_dtype"] += info.get("wrap_pairs_iou_edges", 0)
        if k in ("S", "NS", "I"):
            sdt = c.get("seg_dtype", "int64")
            stats["seg_dtype"][sdt] += 1
            vals = np.array(c["seg"] if k != "I" else [c["f1"], c["f2"]], dtype=object).reshape(-1)
            stats["labels_at_dtype_max"] += bool(len(vals) and max(int(x) for x in vals) >= min(dtype_max(sdt), REGIONPROPS_MAX if k != "I" else dtype_max(sdt)))
        if k in ("S", "NS"):
            a = np.array(c["seg"])
            stats["seg_with_empty_frame"] += bool(any(not a[t].any() for t in range(a.shape[0])) and a.any())
        if k in ("P", "NP") and not c["pts"] or k == "G" and not c["nodes"] or k in ("S", "NS") and not np.array(c["seg"]).any():
            stats["empty_input"] += 1
        nontrivial = info.get("candidates", 0) > 0
        if nontrivial:
            distinct.add(ev["line"])
        d = compare(c, ev, mo)
        if d:
            divergences.append({"what": d, "input": {"line": ev["line"], "case": c}, "impl": str(ev["impl"]), "model": mo})
        for sig, text in ev["bad"]:
            violations.append({"what": text, "input": {"line": ev["line"], "case": c}, "impl": str(ev["impl"]), "model": mo, "signature": sig})
        if nontrivial and k not in seen_kinds and info.get("edges", 1) and len(samples) < 5:
            seen_kinds.add(k)
            samples.append({"input": ev["line"], "impl_output": str(ev["impl"])[:600], "model_output": mo[:600]})
    return {"evaluations": len(cases), "distinct_nontrivial": len(distinct),
            "rule": "24 fixed cases (F-18a witnesses, 3-4-5 boundary at r=5.0/4.99, empty inputs) + random: point lists (ndim 3/4, 1-6 frames, 0-5 integer points per frame, 28% empty frames, extra gaps, shuffled order, equal positions, offsets like (3,4),(6,8) against radii 5.0/4.99/5.01/sqrt2/..., scale None or multiples of 1/4, time scale 1 or 2) through compute_graph_from_points_list / nodes_from_points_list; graphs with arbitrary ids and negative times through add_cand_edges(node_frame_dict=None); label arrays (dtype uint8/uint16/int32/int64/uint64; labels = small ordinary values, powers of two and their small multiples so that products of overlapping labels are often 0 in the dtype, and values up to the dtype maximum [capped at 2^17 where regionprops runs, at 2^62-1 for the driver]; 2-5 frames of 3x3/4x4/2x2x2, 25% empty frames, 1-3 possibly disconnected labels per frame, 10% with a label value reused in another frame, scale None or dyadic) through compute_graph_from_seg(iou on/off) / nodes_from_segmentation; flat frame pairs through _compute_ious. Non-trivial = at least one pair of detections in consecutive frames (P/G/S) or at least one detection/overlap (NP/NS/I); distinct = distinct driver lines.",
            "samples": samples, "divergences": divergences, "violations": violations, "stats": stats}


def replay(ctx, payload):
    """re-run one recorded case on implementation, model and oracle"""
    inp = payload.get("input")
    if isinstance(inp, dict) and "witness" in inp:
        import witnesses

        r = witnesses.run(ids=[inp["witness"]])
        return {"violation": not all(x[2] for x in r), "detail": r}
    c = inp["case"]
    ev = eval_case(c)
    out = {"input": ev["line"], "impl": str(ev["impl"]), "violation": "; ".join(t for _, t in ev["bad"]) or None}
    exe, _ = C.build_driver("C18")
    if exe is not None:
        rc, mo = C.run_driver(exe, [ev["line"]])
        out["model"] = mo
        out["divergence"] = compare(c, ev, mo[0]) if mo else "no model output"
    return out
