"""C14 - export followed by import is the identity (CSV, GEFF, internal format).

The property itself is the oracle: tracks objects are produced by fresh construction and by
random editing sessions (harness/editmachine.py), written with each exporter into a temporary
directory, read back with the explicit key mapping, and the canonical state before and after
is compared (nodes, edges, times, positions, track ids; lineage ids, every other node / edge
attribute and the segmentation for GEFF and the internal format; scale and FeatureDict for the
internal format).  The reshaping functions of Model/RoundTrip.v (CSV rows/header and import,
split_position_attr, the geff property arrays, renaming + _combine_multi_value_props +
construct, FeatureDict dump/from_json, activate-vs-recompute of track ids) are run through the
extracted model on a projection of the same data and compared with what the implementation
wrote / read (divergences)."""
from __future__ import annotations

import json
import random
import shutil
import tempfile
import warnings
from pathlib import Path

import networkx as nx
import numpy as np

import common as C

warnings.simplefilter("ignore")

META = {
    "claimed": True,
    "id": "C14",
    "coq_targets": ["Props/C14.vo", "Extract/Extract_C14.vo"],
    "technique": "Coq proof of the reshaping around the three formats (CSV rows/header -> explicit-map import; split_position_attr -> rename + _combine_multi_value_props; FeatureDict dump_json -> from_json; activate-vs-recompute of existing track ids) with the file IO as explicit oracle hypotheses + end-to-end differential round trips on the implementation (the property is its own oracle) + correspondence of the extracted model with the files the implementation writes and the graphs it reads back",
    "level_text": "Theorems C14_csv_roundtrip / C14_csv_roundtrip_exact / C14_geff_position_roundtrip / C14_geff_attrs_roundtrip / C14_internal_featuredict_roundtrip / C14_track_ids_kept hold for graphs of every size and positions of every length (CSV: 2 or 3 axes as the exporter writes them); pandas/json IO enters as the hypothesis io x = x, geff IO as the modelled transposition geff_columns. The identity on the implementation (all attributes, segmentation, scale, FeatureDict) is established by testing only: every generated tracks object is exported and re-imported in all three formats and compared field by field. Source tie: the import pipeline of the model (rename, combination of list-mapped columns, id integerisation, edge derivation, structural validation, graph construction, handle_segmentation; whole CSV build = import_csv, whole GEFF build = import_geff) equals, for all arguments, the code translated on every run from _tracks_builder.py, csv/_import.py, geff/_import.py and _validation.py (Gen/ImportPipeline_gen.v; Proofs/ImportTie.v, 24 closed theorems); pandas dtype inference, geff's id validators and file reading stay oracle inputs. Source tie: the export side of the model (CSV rows and header, the relabelled label image with its dtype choice and the empty selection, GEFF subgraph and the chunk loop masking the array, split_position_attr, FeatureDict dump / from_json) equals, for all arguments, the code translated on every run from csv/_export.py, geff/_export.py, internal_format.py and _feature_dict.py (Gen/ExportPipeline_gen.v; Proofs/ExportTie.v, 21 closed theorems); every file write is an event carrying exactly the value handed to the writer. C14_generated_csv_roundtrip / C14_generated_geff_roundtrip / C14_generated_featuredict_roundtrip: the round trip stated for the translated code end to end - generated export, the value of its write event read back (IO oracle), generated import build - returns the original nodes, edges, times, positions and track ids.",
    "level_note": "Trusted: Coq kernel, extraction (ExtrOcamlBasic), OCaml driver, Python harness. Modelled not verified: pandas DataFrame/to_csv/read_csv, geff.write/read_to_memory/construct, json, np.save/np.load, zarr, networkx node_link_data; their effect is compared value by value on every generated case (model command C for the geff property arrays, X/I for the CSV table).",
    "design_ref": "DESIGN.md section 9 (C14)",
    "assumptions": [
        "the explicit key mapping built from the exporter's column / property names is passed to the importer (the inferred name map is not claimed)",
        "CSV: positions are compared with tolerance 1e-9 (pandas' default C float parser is not repr-exact: 3.3333333333333335 is read back as 3.333333333333333); GEFF and internal format: exact floats",
        "CSV carries nodes, one parent per node, time, position, track id only (lineage ids and other features are recomputed / absent after a CSV import); a parent id -1 means no parent",
        "tracks with zero nodes are exported (an exporter raising is a violation) but not re-imported: importing an empty graph raises ValueError by design (counted as empty_tracks_skipped)",
        "a position attribute that is not a vector of ndim-1 numbers (UserUpdateNodeAttrs(pos=5) on tracks without segmentation) is outside the domain (counted as bad_position_skipped)",
        "model correspondence of the geff property arrays covers attributes present on every node (the 'missing' masks of partially present attributes are exercised by the end-to-end comparison only)",
    ],
    "trusted": ["translators harness/translate_import.py, translate_export.py (closed idiom tables; fail closed) with coq/Model/PyRt6.v, PyRt7.v",
                "pandas to_csv/read_csv, geff write/read_to_memory/construct, json dump/load, np.save/load: oracles of the theorems; each is exercised and compared on every generated tracks object"],
}

STD = {"time": 0, "pos": 1, "track_id": 2, "lineage_id": 3, "z": 10, "y": 11, "x": 12, "id": 20, "parent_id": 21, "t": 22}
FBASE = 1000000  # float tokens start here; ids / times / track ids are far below


class Codes:
    """names -> Z codes (fixed table for the standard names, fresh codes >= 200 for the others);
    float values -> tokens >= FBASE"""

    def __init__(self):
        self.n2c = dict(STD)
        self.c2n = {v: k for k, v in STD.items()}
        self.f2t, self.t2f = {}, {}

    def name(self, s):
        if s not in self.n2c:
            c = 200 + len(self.n2c)
            self.n2c[s] = c
            self.c2n[c] = s
        return self.n2c[s]

    def tok(self, v):
        if isinstance(v, (bool, np.bool_)):
            return int(v)
        if isinstance(v, (int, np.integer)):
            return int(v)
        f = float(v)
        if f not in self.f2t:
            t = FBASE + len(self.f2t)
            self.f2t[f] = t
            self.t2f[t] = f
        return self.f2t[f]

    def value(self, v):
        """attribute value -> list of tokens, or None when it cannot be encoded (None, strings, nested)"""
        if v is None:
            return None
        if isinstance(v, (list, tuple, np.ndarray)):
            out = []
            for x in v:
                if x is None or isinstance(x, (list, tuple, np.ndarray, str)):
                    return None
                out.append(self.tok(x))
            return out
        if isinstance(v, str):
            return None
        return [self.tok(v)]

    def untok(self, t):
        return self.t2f.get(t, t)


def enc_nodes(cd, items, keep=None):
    """[(id, attrs dict)] -> 'id:k=v.v,k=v;...'  (attributes that cannot be encoded are dropped)"""
    out = []
    for n, a in items:
        toks = []
        for k, v in a.items():
            if keep is not None and k not in keep:
                continue
            ev = cd.value(v)
            if ev is None:
                continue
            toks.append("%d=%s" % (cd.name(k), ".".join(map(str, ev))))
        out.append("%d:%s" % (int(n), ",".join(toks)))
    return ";".join(out)


def pk_txt(cd, pk):
    return ("m" + ".".join(str(cd.name(k)) for k in pk)) if isinstance(pk, list) else "s%d" % cd.name(pk)


# ----------------------------------------------------------------------------- canonical state
def pyv(v):
    if v is None:
        return None
    if isinstance(v, (list, tuple, np.ndarray)):
        return tuple(pyv(x) for x in v)
    if isinstance(v, np.bool_):
        return bool(v)
    if isinstance(v, np.integer):
        return int(v)
    if isinstance(v, np.floating):
        return float(v)
    return v


def jnorm(x):
    """what json makes of a value (tuples become lists)"""
    return json.loads(json.dumps(x, default=lambda o: o.tolist() if isinstance(o, np.ndarray) else pyv(o)))


def state(t):
    g, fd = t.graph, t.features
    pk = fd.position_key
    core = {fd.time_key, fd.tracklet_key, fd.lineage_key} | set(pk if isinstance(pk, list) else [pk])
    s = {
        "nodes": sorted(int(n) for n in g.nodes),
        "edges": sorted((int(u), int(v)) for u, v in g.edges),
        "time": {int(n): int(t.get_time(n)) for n in g.nodes},
        "pos": {int(n): tuple(float(x) for x in t.get_position(n)) for n in g.nodes},
        "track": {int(n): pyv(g.nodes[n].get(fd.tracklet_key)) for n in g.nodes},
        "lineage": {int(n): pyv(g.nodes[n].get(fd.lineage_key)) for n in g.nodes},
        "nattrs": {int(n): {k: pyv(v) for k, v in g.nodes[n].items() if k not in core} for n in g.nodes},
        "eattrs": {(int(u), int(v)): {k: pyv(x) for k, x in g.edges[u, v].items()} for u, v in g.edges},
        "seg": None if t.segmentation is None else np.asarray(t.segmentation),
        "scale": None if t.scale is None else [float(x) for x in t.scale],
        "ndim": int(t.ndim),
        "fd": {"keys": list(fd.keys()), "time_key": fd.time_key, "position_key": fd.position_key,
               "tracklet_key": fd.tracklet_key, "lineage_key": fd.lineage_key,
               "features": jnorm({k: dict(v) for k, v in fd.items()})},
    }
    return s


FIELDS = {
    "csv": ["nodes", "edges", "time", "pos", "track"],
    "geff": ["nodes", "edges", "time", "pos", "track", "lineage", "nattrs", "eattrs", "seg"],
    "internal": ["nodes", "edges", "time", "pos", "track", "lineage", "nattrs", "eattrs", "seg", "scale", "ndim", "fd"],
}


def diff_states(a, b, fmt):
    out = []
    for f in FIELDS[fmt]:
        x, y = a[f], b[f]
        if f == "seg":
            if (x is None) != (y is None):
                out.append("seg: %s vs %s" % ("None" if x is None else "array", "None" if y is None else "array"))
            elif x is not None and (x.shape != y.shape or x.dtype != y.dtype or not np.array_equal(x, y)):
                out.append("seg differs (shape %s/%s dtype %s/%s, %d pixels)" % (
                    x.shape, y.shape, x.dtype, y.dtype, int((x != y).sum()) if x.shape == y.shape else -1))
        elif f == "pos" and fmt == "csv":
            if set(x) != set(y) or any(len(x[n]) != len(y[n]) or any(abs(p - q) > 1e-9 for p, q in zip(x[n], y[n])) for n in x):
                out.append("pos: %s vs %s" % (_first_diff(x, y)))
        elif x != y:
            out.append("%s: %s vs %s" % ((f,) + _first_diff(x, y)) if isinstance(x, dict) else "%s: %r vs %r" % (f, x, y))
    return out


def _first_diff(x, y):
    if isinstance(x, dict) and isinstance(y, dict):
        for k in list(x) + [k for k in y if k not in x]:
            if k not in x or k not in y or x[k] != y[k]:
                return ("[%r] %r" % (k, x.get(k, "<absent>")))[:300], ("%r" % (y.get(k, "<absent>"),))[:300]
    return repr(x)[:300], repr(y)[:300]


# ----------------------------------------------------------------------------- the three round trips
def rt_csv(t, d, info):
    from funtracks.import_export import export_to_csv
    from funtracks.import_export.csv._import import CSVTracksBuilder

    path = d / "tracks.csv"
    info["phase"] = "export"
    export_to_csv(t, path)
    text = path.read_text()
    info["text"] = text
    if t.graph.number_of_nodes() == 0:
        return None, info
    header = text.split("\n", 1)[0].strip().split(",")
    # the explicit map: the exporter's column names, the position in the documented axis order ([z,] y, x)
    nm = {"id": "id", "parent_id": "parent_id", "time": "t", "pos": [c for c in ("z", "y", "x") if c in header], "track_id": "track_id"}
    info["name_map"] = nm
    info["phase"] = "import"
    b = CSVTracksBuilder()
    b.read_header(path)
    b.node_name_map = dict(nm)
    t2 = b.build(path, None, scale=t.scale)
    return t2, info


def rt_geff(t, d, info):
    from geff.core_io._base_read import read_to_memory
    from geff_spec import GeffMetadata

    from funtracks.import_export import export_to_geff, import_from_geff

    root = d / "g"
    info["phase"] = "export"
    export_to_geff(t, root)
    md = GeffMetadata.read(root / "tracks")
    props, eprops = list(md.node_props_metadata.keys()), list(md.edge_props_metadata.keys())
    fd = t.features
    # position: the per-axis keys of the tracks in their order, else the documented axis names ([z,] y, x) of the exporter
    ax = list(fd.position_key) if isinstance(fd.position_key, list) else [c for c in ("z", "y", "x") if c in props]
    info.update(props=props, eprops=eprops, axes=ax, geff_axes=[a.name for a in (md.axes or []) if a.type == "space"], phase="import")
    if t.graph.number_of_nodes() == 0:
        return None, info
    nm = {"time": fd.time_key, "pos": ax, "track_id": fd.tracklet_key, "lineage_id": fd.lineage_key}
    nf = {}
    for p in props:
        if p in (fd.time_key, fd.tracklet_key, fd.lineage_key) or p in ax:
            continue
        nm[p] = p
        nf[p] = False
    enm = {p: p for p in eprops}
    info["name_map"] = nm
    info["mem"] = read_to_memory(root / "tracks", node_props=[p for p in props])
    segp = (root / "segmentation") if t.segmentation is not None else None
    t2 = import_from_geff(root / "tracks", dict(nm), segmentation_path=segp, scale=t.scale, node_features=nf or None,
                          edge_name_map=enm or None, edge_features={p: False for p in eprops} or None)
    return t2, info


def rt_internal(t, d, info):
    from funtracks.import_export.internal_format import load_tracks, save_tracks

    info["phase"] = "export"
    save_tracks(t, d / "s")
    info["phase"] = "import"
    info["attrs"] = json.loads((d / "s" / "attrs.json").read_text())
    return load_tracks(d / "s", solution=True), info


RT = {"csv": rt_csv, "geff": rt_geff, "internal": rt_internal}


def centroid_outside(t):
    """the last node's position does not fall on a pixel of its own mask (what validate_graph_seg_match samples)"""
    if t.segmentation is None or t.graph.number_of_nodes() == 0:
        return False
    n = list(t.graph.nodes)[-1]
    sc = t.scale if t.scale is not None else [1.0] * t.ndim
    coord = [int(t.get_time(n))] + list(t.get_position(n))
    px = tuple(int(c / s) for c, s in zip(coord, sc))
    try:
        return int(np.asarray(t.segmentation)[px]) != int(n)
    except IndexError:
        return True


def has_none_attr(t):
    g = t.graph
    return any(v is None for n in g.nodes for v in g.nodes[n].values()) or any(v is None for e in g.edges for v in g.edges[e].values())


def signature(t, fmt, info, exc):
    if t.graph.number_of_nodes() == 0 and info.get("phase") != "import":
        return "C14:empty-export"
    if fmt == "geff" and info.get("phase") == "export" and isinstance(exc, AttributeError) and has_none_attr(t):
        return "C14:geff-none-attr"
    if fmt == "geff" and info.get("phase") == "import" and isinstance(exc, ValueError) and "Error testing seg id" in str(exc) and centroid_outside(t):
        return "C14:geff-centroid-outside-mask"
    return "C14:%s:%s:%s" % (fmt, info.get("phase", "?"), type(exc).__name__)


# ----------------------------------------------------------------------------- fresh construction
def gen_fresh(seed, idx):
    from funtracks.data_model import SolutionTracks

    rng = random.Random(repr((seed, "fresh", idx)))
    ndim = rng.choice([3, 3, 4])
    nsp = ndim - 1
    mode = rng.choice(["single", "single", "peraxis", "seg", "seg"])
    T = rng.randint(3, 6)
    n = rng.randint(2, 9)
    ids = rng.sample(range(1, 200), n)
    tk = "t" if (mode != "seg" and rng.random() < 0.3) else "time"
    axes = ["z", "y", "x"][-nsp:]
    cfg = {"kind": "fresh", "ndim": ndim, "mode": mode, "time_key": tk, "T": T}
    g = nx.DiGraph()
    seg = None
    dyadic = rng.random() < 0.7
    cfg["dyadic"] = dyadic

    def coord():
        return rng.randrange(0, 400) / 8.0 if dyadic else rng.choice([rng.randrange(1, 400) / 10.0, rng.randrange(1, 400) / 3.0])

    if mode == "seg":
        shape = (6, 6) if ndim == 3 else (4, 4, 4)
        seg = np.zeros((T, *shape), dtype=rng.choice([np.int64, np.uint64, np.int32, np.uint16]))
        occ = [np.zeros(shape, dtype=bool) for _ in range(T)]
        for i in ids:
            tm = rng.randrange(T)
            placed = False
            for _ in range(20):
                lo = [rng.randrange(0, s) for s in shape]
                hi = [min(s, l + rng.randint(1, 3)) for s, l in zip(shape, lo)]
                sl = tuple(slice(l, h) for l, h in zip(lo, hi))
                m = np.zeros(shape, dtype=bool)
                m[sl] = True
                if ndim == 3 and rng.random() < 0.3 and hi[0] - lo[0] == 3 and hi[1] - lo[1] == 3:
                    m[lo[0] + 1, lo[1]:lo[1] + 2] = False  # a C shape: the centroid falls on a hole
                if not (m & occ[tm]).any():
                    occ[tm] |= m
                    seg[tm][m] = i
                    placed = True
                    break
            if placed:
                g.add_node(i, time=tm)
        cfg["shape"] = list(shape)
        cfg["seg_dtype"] = str(seg.dtype)
    else:
        for i in ids:
            a = {tk: rng.randrange(T)}
            p = [coord() for _ in range(nsp)]
            if mode == "peraxis":
                a.update(dict(zip(axes, p)))
            else:
                a["pos"] = p
            g.add_node(i, **a)
    if g.number_of_nodes() == 0:
        g.add_node(ids[0], **({"time": 0} if mode == "seg" else {tk: 0, **(dict(zip(axes, [1.0] * nsp)) if mode == "peraxis" else {"pos": [1.0] * nsp})}))
        if mode == "seg":
            seg[0].reshape(-1)[0] = ids[0]
    order = list(g.nodes)
    rng.shuffle(order)
    tkey = "time" if mode == "seg" else tk
    for v in order:
        c = [u for u in g.nodes if g.nodes[u][tkey] < g.nodes[v][tkey] and g.out_degree(u) < 2]
        if c and rng.random() < 0.7:
            g.add_edge(rng.choice(c), v)
    scale = rng.choice([None, [1.0] * ndim, [1.0, 2.0, 0.5] if ndim == 3 else [1.0, 2.0, 1.0, 0.5]]) if mode == "seg" else rng.choice([None, [1.0] * ndim, [1.0] + [0.5] * nsp])
    cfg["scale"] = scale
    kw = {"ndim": ndim, "scale": scale}
    if mode == "peraxis":
        kw["pos_attr"] = axes
    if tk != "time":
        kw["time_attr"] = tk
    t = SolutionTracks(g, segmentation=seg, **kw)
    # arbitrary (valid, non-contiguous) track and lineage ids supplied on the graph: they must be kept, not recomputed
    if rng.random() < 0.6:
        tids = sorted({t.graph.nodes[x]["track_id"] for x in t.graph.nodes})
        lids = sorted({t.graph.nodes[x]["lineage_id"] for x in t.graph.nodes})
        tm_ = dict(zip(tids, rng.sample(range(1, 300), len(tids))))
        lm_ = dict(zip(lids, rng.sample(range(1, 300), len(lids))))
        g2 = nx.DiGraph()
        for x in g.nodes:
            a = {k: v for k, v in g.nodes[x].items() if k not in ("track_id", "lineage_id", "area") and not (mode == "seg" and k == "pos")}
            a["track_id"] = tm_[g.nodes[x]["track_id"]]
            a["lineage_id"] = lm_[g.nodes[x]["lineage_id"]]
            g2.add_node(x, **a)
        g2.add_edges_from(g.edges)
        t = SolutionTracks(g2, segmentation=seg, **kw)
        cfg["given_ids"] = True
        ok = all(t.graph.nodes[x]["track_id"] == g2.nodes[x]["track_id"] for x in g2.nodes)
        cfg["given_ids_kept_at_construction"] = ok
    extra = []
    if mode == "seg":
        if rng.random() < 0.5:
            extra.append("iou")
        if rng.random() < 0.3 and ndim == 3:
            extra.append("ellipse_axis_radii")
        if extra:
            t.enable_features(extra)
    cfg["enable"] = extra
    if rng.random() < 0.5:
        for x in t.graph.nodes:
            t.graph.nodes[x]["c1"] = rng.randint(-5, 50)
        t.features["c1"] = {"feature_type": "node", "value_type": "int", "num_values": 1, "required": False, "default_value": None}
        cfg["c1"] = True
    if rng.random() < 0.4:
        for x in t.graph.nodes:
            t.graph.nodes[x]["score"] = rng.randrange(0, 1000) / 7.0
        t.features["score"] = {"feature_type": "node", "value_type": "float", "num_values": 1, "required": False, "default_value": None}
        cfg["score"] = True
    if rng.random() < 0.3:
        some = [x for x in t.graph.nodes if rng.random() < 0.5]
        for x in some:
            t.graph.nodes[x]["c2"] = rng.randint(1, 9)  # an unregistered attribute on some nodes only
        cfg["c2_partial"] = len(some)
    return t, cfg


def gen_zero(seed, idx):
    """fresh construction without segmentation whose node ids include 0 (dividing root / middle of a linear track /
    leaf / isolated, by idx % 4), together with large and non-contiguous ids"""
    from funtracks.data_model import SolutionTracks

    rng = random.Random(repr((seed, "zero", idx)))
    role = ["dividing_root", "middle", "leaf", "isolated"][idx % 4]
    ndim = rng.choice([3, 4])
    nsp = ndim - 1
    peraxis = rng.random() < 0.35
    axes = ["z", "y", "x"][-nsp:]
    pool = [1, 2, 7, 999, 1000003, 2 ** 31 + 5, 2 ** 40 + 1] + rng.sample(range(3, 500), 4)
    rng.shuffle(pool)
    a, b, c, e, f = pool[:5]
    # (id, time) and edges per role; extra nodes: a second lineage with a skip edge and an isolated large id
    if role == "dividing_root":
        nt, es = [(0, 0), (a, 1), (b, 1), (c, 2)], [(0, a), (0, b), (a, c)]
    elif role == "middle":
        nt, es = [(a, 0), (0, 1), (b, 2), (c, 3)], [(a, 0), (0, b), (b, c)]
    elif role == "leaf":
        nt, es = [(a, 0), (b, 1), (0, 2)], [(a, b), (b, 0)]
    else:
        nt, es = [(0, 1), (a, 0), (b, 1)], [(a, b)]
    nt += [(e, 0), (f, 3)]
    es += [(e, f)] if rng.random() < 0.7 else []
    rng.shuffle(nt)
    g = nx.DiGraph()
    for i, tm in nt:
        p = [rng.randrange(0, 400) / 8.0 for _ in range(nsp)]
        at = {"time": tm}
        if peraxis:
            at.update(dict(zip(axes, p)))
        else:
            at["pos"] = p
        g.add_node(i, **at)
    rng.shuffle(es)
    g.add_edges_from(es)
    kw = {"ndim": ndim, "scale": rng.choice([None, [1.0] * ndim])}
    if peraxis:
        kw["pos_attr"] = axes
    t = SolutionTracks(g, **kw)
    return t, {"kind": "zero", "role": role, "ndim": ndim, "per_axis": peraxis, "scale": kw["scale"], "ids": [i for i, _ in nt]}


def make_tracks(seed, kind, idx):
    if kind == "fresh":
        return gen_fresh(seed, idx)
    if kind == "zero":
        return gen_zero(seed, idx)
    import editmachine as E

    r = E.run_scenario(seed, idx)
    cfg = dict(r["cfg"], kind="edit", steps=len(r["kinds"]) - 1)
    return r["tracks"], cfg


def tags_of(t):
    g = t.graph
    tg = set()
    ns = list(g.nodes)
    if any(g.out_degree(n) >= 2 for n in ns):
        tg.add("division")
    if any(int(t.get_time(v)) - int(t.get_time(u)) > 1 for u, v in g.edges):
        tg.add("skip_edge")
    if any(g.degree(n) == 0 for n in ns):
        tg.add("isolated")
    if ns and sorted(ns) != list(range(min(ns), min(ns) + len(ns))):
        tg.add("noncontiguous_ids")
    tr = sorted({g.nodes[n].get(t.features.tracklet_key) for n in ns if g.nodes[n].get(t.features.tracklet_key) is not None})
    if tr and tr != list(range(1, len(tr) + 1)):
        tg.add("noncontiguous_track_ids")
    if any(g.in_degree(n) > 1 for n in ns):
        tg.add("two_parents")
    if 0 in g:
        tg.add("node_id_0")
        if g.out_degree(0) > 0:
            tg.add("node_id_0_is_parent")
    if any(n >= 2 ** 31 for n in ns):
        tg.add("node_id_above_2^31")
    tg.add("3D" if t.ndim == 4 else "2D")
    tg.add("seg" if t.segmentation is not None else "noseg")
    tg.add("per_axis" if isinstance(t.features.position_key, list) else "single_key")
    return tg


def brief(t, cfg):
    g = t.graph
    return {"cfg": {k: v for k, v in cfg.items() if k != "tracks"},
            "nodes": {int(n): {k: pyv(v) for k, v in g.nodes[n].items()} for n in list(g.nodes)[:12]},
            "edges": [(int(u), int(v)) for u, v in list(g.edges)[:20]]}


# ----------------------------------------------------------------------------- model lines for one tracks object
def csv_table_from_text(cd, text):
    """the file as the abstract table of the model: ints for t/id/parent_id/track_id (8 and 8.0 are one token), float tokens for coordinates"""
    lines = [l for l in text.split("\n") if l != ""]
    header = lines[0].split(",")
    cols = {h: [] for h in header}
    for l in lines[1:]:
        for h, c in zip(header, l.split(",")):
            if c == "":
                cols[h].append("_")
            elif h in ("z", "y", "x"):
                cols[h].append(str(cd.tok(float(c))))
            else:
                cols[h].append(str(int(float(c))))
    return "|".join("%d:%s" % (cd.name(h), ",".join(cols[h])) for h in header)


def ordered_edges(g):
    return ",".join("%d>%d" % (int(u), int(v)) for v in g.nodes for u in g.predecessors(v))


def model_jobs(t, cfg, results):
    """-> list of (label, model line, expected output string or callable(model_output) -> error text / None)"""
    jobs = []
    g, fd = t.graph, t.features
    pk = fd.position_key
    pkeys = pk if isinstance(pk, list) else [pk]
    d3 = int(t.ndim == 4)
    cd = Codes()
    nodes = [(n, g.nodes[n]) for n in g.nodes]
    # ---- CSV
    r = results.get("csv")
    if r and r.get("info", {}).get("text") is not None and g.number_of_nodes() > 0:
        text = r["info"]["text"]
        line = "X %d %d %d %s#%s#%s" % (d3, cd.name(fd.time_key), cd.name(fd.tracklet_key), pk_txt(cd, pk),
                                        enc_nodes(cd, nodes, keep={fd.time_key, fd.tracklet_key, *pkeys}), ordered_edges(g))
        jobs.append(("csv-export-table", line, csv_table_from_text(cd, text)))
        t2 = r.get("tracks")
        if t2 is not None:
            cd2 = Codes()
            tab = csv_table_from_text(cd2, text)

            def chk_import(mo, t2=t2, cd2=cd2):
                ns, _, es = mo.partition("#")
                g2 = t2.graph
                want_nodes = []
                for n in g2.nodes:
                    a = g2.nodes[n]
                    want_nodes.append((int(n), [(k, a[k]) for k in a if k in ("time", "track_id", "pos")]))
                got = []
                for s in [x for x in ns.split(";") if x]:
                    i, _, av = s.partition(":")
                    got.append((int(i), [(cd2.c2n[int(kv.split("=")[0])], [cd2.untok(int(x)) for x in kv.split("=")[1].split(".")]) for kv in av.split(",") if kv]))
                if [i for i, _ in got] != [i for i, _ in want_nodes]:
                    return "node order %s vs %s" % ([i for i, _ in got], [i for i, _ in want_nodes])
                for (i, ga), (_, wa) in zip(got, want_nodes):
                    if [k for k, _ in ga] != [k for k, _ in wa]:
                        return "node %d attribute order %s vs %s" % (i, [k for k, _ in ga], [k for k, _ in wa])
                    for (k, gv), (_, wv) in zip(ga, wa):
                        wv = list(wv) if isinstance(wv, (list, tuple, np.ndarray)) else [wv]
                        if len(gv) != len(wv) or any(abs(float(p) - float(q)) > 1e-9 for p, q in zip(gv, wv)):
                            return "node %d %s: model %s impl %s" % (i, k, gv, wv)
                ge = sorted(tuple(int(x) for x in e.split(">")) for e in es.split(",") if e)
                we = sorted((int(u), int(v)) for u, v in g2.edges)
                if ge != we:
                    return "edges %s vs %s" % (ge, we)
                return None

            jobs.append(("csv-import-graph", "I %d#%s" % (d3, tab), chk_import))
    # ---- GEFF
    r = results.get("geff")
    if pk is not None and g.number_of_nodes() > 0:
        from funtracks.import_export.geff._export import split_position_attr

        try:
            sg, ax = split_position_attr(t)
        except Exception:  # noqa: BLE001
            sg = None
        if sg is not None:
            cds = Codes()
            line = "S %d %s#%s#" % (d3, pk_txt(cds, pk), enc_nodes(cds, nodes))
            want = enc_nodes(cds, [(n, sg.nodes[n]) for n in sg.nodes]) + "#" + ".".join(str(cds.name(a)) for a in ax)
            jobs.append(("geff-split-position", line, want))
    if r and r.get("info", {}).get("mem") is not None:
        mem = r["info"]["mem"]
        ids = [int(x) for x in mem["node_ids"]]
        nprops = mem["node_props"]
        uniform = [k for k, p in nprops.items() if p.get("missing") is None or not np.asarray(p["missing"]).any()]
        cdg = Codes()

        def col_txt(k):
            vals = np.asarray(nprops[k]["values"])
            rows = []
            for v in vals:
                ev = cdg.value(v.tolist() if isinstance(v, np.ndarray) else v.item() if hasattr(v, "item") else v)
                if ev is None:
                    return None
                rows.append(".".join(map(str, ev)))
            return "%d:%s" % (cdg.name(k), ";".join(rows))

        cols = {k: col_txt(k) for k in uniform}
        uniform = [k for k in uniform if cols[k] is not None]
        try:
            sg, ax = split_position_attr(t)
            exported = [(n, sg.nodes[n]) for n in ids]
        except Exception:  # noqa: BLE001
            exported = None
        if exported is not None and uniform:
            line = "C %s#%s" % (".".join(str(cdg.name(k)) for k in uniform), enc_nodes(cdg, exported, keep=set(uniform)))
            jobs.append(("geff-property-arrays", line, "|".join(cols[k] for k in uniform)))
        t2 = r.get("tracks")
        nm = r["info"].get("name_map")
        if t2 is not None and nm and uniform:
            nm_u = {k: v for k, v in nm.items() if (all(x in uniform for x in v) if isinstance(v, list) else v in uniform)}
            nmt = ",".join("%d=%s" % (cdg.name(k), ("m" + ".".join(str(cdg.name(x)) for x in v)) if isinstance(v, list) else "s%d" % cdg.name(v))
                           for k, v in nm_u.items())

            def chk_geff(mo, t2=t2, cdg=cdg):
                g2 = t2.graph
                got = []
                for s in [x for x in mo.split(";") if x]:
                    i, _, av = s.partition(":")
                    got.append((int(i), [(cdg.c2n[int(kv.split("=")[0])], [cdg.untok(int(x)) for x in kv.split("=")[1].split(".")]) for kv in av.split(",") if kv]))
                if [i for i, _ in got] != [int(n) for n in g2.nodes]:
                    return "node order %s vs %s" % ([i for i, _ in got], [int(n) for n in g2.nodes])
                for i, ga in got:
                    a = g2.nodes[i]
                    mk = [k for k, _ in ga]
                    ik = [k for k in a if k in mk]
                    if ik != mk:
                        return "node %d attribute order: model %s impl %s" % (i, mk, ik)
                    for k, gv in ga:
                        wv = a[k]
                        wv = [pyv(x) for x in wv] if isinstance(wv, (list, tuple, np.ndarray)) else [pyv(wv)]
                        if gv != wv:
                            return "node %d %s: model %s impl %s" % (i, k, gv, wv)
                return None

            jobs.append(("geff-import-graph", "G %s#%s#%s" % (nmt, ".".join(map(str, ids)), "|".join(cols[k] for k in uniform)), chk_geff))
            # track ids: the validator's answer is the oracle; the model says whether the loaded ids are kept
            try:
                from geff.validate.tracks import validate_tracklets

                valid = bool(validate_tracklets(mem["node_ids"], mem["edge_ids"], nprops[fd.tracklet_key]["values"])[0]) if fd.tracklet_key in nprops else True
            except Exception:  # noqa: BLE001
                valid = True
            if fd.tracklet_key in uniform:
                cdt = Codes()
                tcols = "%d:%s|%d:%s" % (cdt.name("time"), ";".join(str(int(x)) for x in nprops[fd.time_key]["values"]),
                                         cdt.name("track_id"), ";".join(str(int(x)) for x in nprops[fd.tracklet_key]["values"]))
                kept = all(int(t2.graph.nodes[n]["track_id"]) == int(v) for n, v in zip(ids, nprops[fd.tracklet_key]["values"]))
                jobs.append(("geff-track-ids-kept", "T 2 %d#%s#%s" % (int(valid), ".".join(map(str, ids)), tcols), "keep" if kept else "recompute"))
    # ---- internal: FeatureDict
    from funtracks.features import FeatureDict

    cdf = Codes()

    def fd_line(keys, tkey, pkey, trk, lin):
        ptxt = "n" if pkey is None else pk_txt(cdf, pkey)
        return "F %d %s %s %s#%s" % (cdf.name(tkey), ptxt, "n" if trk is None else str(cdf.name(trk)), "n" if lin is None else str(cdf.name(lin)),
                                     ".".join(str(cdf.name(k)) for k in keys))

    def fd_real(dump):
        try:
            f2 = FeatureDict.from_json(json.loads(json.dumps(dump)))
        except KeyError:
            return "KeyError"
        ptxt = "n" if f2.position_key is None else pk_txt(cdf, f2.position_key)
        return "%d %s %s %s %s" % (cdf.name(f2.time_key), ptxt, "n" if f2.tracklet_key is None else str(cdf.name(f2.tracklet_key)),
                                   "n" if f2.lineage_key is None else str(cdf.name(f2.lineage_key)), ".".join(str(cdf.name(k)) for k in f2.keys()))

    dump = jnorm(fd.dump_json())
    real = fd_real(dump)
    jobs.append(("featuredict-roundtrip", fd_line(list(fd.keys()), fd.time_key, fd.position_key, fd.tracklet_key, fd.lineage_key),
                 ("0 " if real == "KeyError" else "1 ") + real))
    # a mutated dump: one position key is not a feature -> KeyError on both sides
    inner = dump["FeatureDict"]
    victim = pkeys[-1]
    if victim is not None and victim != fd.time_key and victim in inner["features"]:
        mut = json.loads(json.dumps(dump))
        del mut["FeatureDict"]["features"][victim]
        real = fd_real(mut)
        jobs.append(("featuredict-missing-position-feature",
                     fd_line([k for k in fd.keys() if k != victim], fd.time_key, fd.position_key, fd.tracklet_key, fd.lineage_key),
                     ("0 " if real == "KeyError" else "1 ") + real))
    return jobs


def track_id_cases(rng, n):
    """direct cases for _check_existing_feature / activate-vs-enable: SolutionTracks built on graphs whose nodes carry
    sentinel track ids on all / none / only the first / all but the first node"""
    from funtracks.data_model import SolutionTracks

    out = []
    for _ in range(n):
        k = rng.randint(1, 5)
        ids = rng.sample(range(1, 90), k)
        mode = rng.choice(["all", "none", "first_only", "all_but_first", "random"])
        g = nx.DiGraph()
        for j, i in enumerate(ids):
            a = {"time": j, "pos": [float(i), 0.0]}
            has = {"all": True, "none": False, "first_only": j == 0, "all_but_first": j > 0, "random": rng.random() < 0.5}[mode]
            if has:
                a["track_id"] = 500 + j  # distinct ids on a path-free or chain graph: valid tracklets either way
            g.add_node(i, **a)
        given = {i: g.nodes[i].get("track_id") for i in ids}
        line = "K 2#" + ";".join("%d:0=%d%s" % (i, g.nodes[i]["time"], ",2=%d" % given[i] if given[i] is not None else "") for i in ids)
        try:
            t = SolutionTracks(g, ndim=3)
            impl = ";".join("%d:0=%d%s" % (i, t.graph.nodes[i]["time"],
                                           "" if t.graph.nodes[i].get("track_id") is None else
                                           ",2=%d" % (t.graph.nodes[i]["track_id"] if t.graph.nodes[i]["track_id"] == given[i] else -1)) for i in ids)
        except Exception as e:  # noqa: BLE001
            impl = "exception %s" % type(e).__name__
        out.append(("track-ids-activate-or-recompute:" + mode, line, impl))
    return out


# ----------------------------------------------------------------------------- main loop
def evaluate(seed, kind, idx, stats, violations, samples, distinct, jobs_out, want_jobs=True):
    """round-trips one tracks object in the three formats; returns the number of evaluations"""
    try:
        t, cfg = make_tracks(seed, kind, idx)
    except Exception as e:  # noqa: BLE001
        stats["generator_failed"] = stats.get("generator_failed", 0) + 1
        stats.setdefault("generator_errors", []).append("%s %d: %s: %s" % (kind, idx, type(e).__name__, str(e)[:120]))
        return 0
    ident = {"kind": kind, "seed": seed, "index": idx}
    empty = t.graph.number_of_nodes() == 0
    try:
        s0 = state(t)
    except Exception as e:  # noqa: BLE001
        stats["bad_position_skipped"] = stats.get("bad_position_skipped", 0) + 1
        return 0
    if any(len(p) != t.ndim - 1 for p in s0["pos"].values()):
        stats["bad_position_skipped"] = stats.get("bad_position_skipped", 0) + 1
        return 0
    if empty:
        stats["empty_tracks_skipped"] = stats.get("empty_tracks_skipped", 0) + 1
    if cfg.get("given_ids"):
        stats["fresh_given_ids"] = stats.get("fresh_given_ids", 0) + 1
        if not cfg.get("given_ids_kept_at_construction"):
            stats["fresh_given_ids_not_kept_at_construction"] = stats.get("fresh_given_ids_not_kept_at_construction", 0) + 1
    tg = tags_of(t)
    for x in tg:
        stats["tag_" + x] = stats.get("tag_" + x, 0) + 1
    stats[kind] = stats.get(kind, 0) + 1
    nontrivial = len(s0["nodes"]) >= 2 and len(s0["edges"]) >= 1
    results = {}
    evals = 0
    for fmt in ("csv", "geff", "internal"):
        d = Path(tempfile.mkdtemp(prefix="funverif."))
        info = {}
        evals += 1
        try:
            t2, info = RT[fmt](t, d, info)
            results[fmt] = {"tracks": t2, "info": info}
            if t2 is None:
                continue  # empty tracks: exported only
            df = diff_states(s0, state(t2), fmt)
            key = fmt + ("_ok" if not df else "_diff")
            stats[key] = stats.get(key, 0) + 1
            if df:
                violations.append({"what": "%s round trip changes the tracks: %s" % (fmt, "; ".join(df)[:700]),
                                   "input": dict(ident, format=fmt, tracks=brief(t, cfg)), "impl": "; ".join(df)[:1500], "model": "identity",
                                   "signature": "C14:%s:diff:%s" % (fmt, df[0].split(":")[0].split(" ")[0])})
            if nontrivial:
                distinct.add((fmt, repr((s0["nodes"], s0["edges"], s0["time"], s0["pos"], s0["track"]))))
        except Exception as e:  # noqa: BLE001
            ph = info.get("phase", "?")
            results[fmt] = {"tracks": None, "info": info}  # what was written is still compared with the model
            sig = signature(t, fmt, info, e)
            stats[fmt + "_exc"] = stats.get(fmt + "_exc", 0) + 1
            stats["sig_" + sig] = stats.get("sig_" + sig, 0) + 1
            violations.append({"what": "%s %s raises %s: %s" % (fmt, ph, type(e).__name__, str(e).strip()[:200]),
                               "input": dict(ident, format=fmt, tracks=brief(t, cfg)), "impl": "%s: %s" % (type(e).__name__, str(e)[:300]),
                               "model": "identity", "signature": sig})
        finally:
            shutil.rmtree(d, ignore_errors=True)
    if want_jobs:
        try:
            for label, line, want in model_jobs(t, cfg, results):
                jobs_out.append((ident, label, line, want))
        except Exception as e:  # noqa: BLE001
            import traceback

            jobs_out.append((ident, "harness-encoding-error", "?", "%s: %s %s" % (type(e).__name__, e, traceback.format_exc()[-400:])))
    if len(samples) < 4 and nontrivial and {"division"} <= tg and (len(samples) % 2 == 0) == (kind == "edit"):
        samples.append({"input": dict(ident, tags=sorted(tg), nodes=len(s0["nodes"]), edges=s0["edges"], track_ids=s0["track"]),
                        "impl_output": {f: ("identical" if results.get(f, {}).get("tracks") is not None else "not compared") for f in RT},
                        "model_output": "identity"})
    return evals


def display_name_cases(rng, n):
    """CSV export with use_display_names=True (header built from the feature registry) and re-import through the
    name map read off the same registry: single-key and per-axis positions, 2D and 3D, no segmentation.
    Yields (description, complaint or None)."""
    import shutil
    import tempfile

    import networkx as nx
    import pandas as pd
    from funtracks.data_model import SolutionTracks
    from funtracks.import_export import export_to_csv, tracks_from_df

    root = Path(tempfile.mkdtemp(prefix="funverif."))
    try:
        for k in range(n):
            nd = rng.choice([2, 2, 3])
            axes = ["z", "y", "x"][-nd:]
            per_axis = rng.random() < 0.6
            nn = rng.randint(2, 6)
            ids = rng.sample(range(1, 60), nn)
            g = nx.DiGraph()
            for j, i_ in enumerate(ids):
                pos = [float(rng.randint(0, 40)) + 0.5 * a for a in range(nd)]
                attrs = {"time": j // 2}
                if per_axis:
                    attrs.update({a: p for a, p in zip(axes, pos)})
                else:
                    attrs["pos"] = pos
                g.add_node(i_, **attrs)
            for j in range(2, nn):
                if rng.random() < 0.7:
                    g.add_edge(ids[j - 2], ids[j])
            tr = SolutionTracks(g, ndim=nd + 1, pos_attr=axes if per_axis else "pos") if per_axis else SolutionTracks(g, ndim=nd + 1)
            desc = {"case": k, "per_axis": per_axis, "ndim": nd + 1, "nodes": {int(i_): dict(g.nodes[i_]) for i_ in ids}, "edges": [list(e) for e in g.edges]}
            path = root / "d.csv"
            try:
                export_to_csv(tr, path, use_display_names=True)
                df = pd.read_csv(path)
                header = list(pd.read_csv(path, header=None, nrows=1).iloc[0])
                if len(set(header)) != len(header):
                    yield desc, "display-name header has repeated columns %s: values are lost" % header
                    continue

                def col(key):
                    f = tr.features[key]
                    return f.get("display_name", key)
                pk = tr.features.position_key
                if isinstance(pk, list):
                    pos_cols = [col(a) for a in pk]
                else:
                    f = tr.features[pk]
                    pos_cols = list(f.get("value_names") or [])
                nm = {"id": "ID", "parent_id": "Parent ID", "time": col(tr.features.time_key), "pos": pos_cols,
                      "track_id": col(tr.features.tracklet_key)}
                back = tracks_from_df(df, node_name_map=nm)
                bad = None
                if sorted(back.graph.nodes) != sorted(tr.graph.nodes) or sorted(back.graph.edges) != sorted(tr.graph.edges):
                    bad = "nodes / edges differ after the display-name round trip"
                else:
                    for n_ in tr.graph.nodes:
                        p0, p1 = [float(x) for x in tr.get_position(n_)], [float(x) for x in back.get_position(n_)]
                        if p0 != p1 or int(tr.get_time(n_)) != int(back.get_time(n_)) or int(tr.get_track_id(n_)) != int(back.get_track_id(n_)):
                            bad = "node %d: exported time %s pos %s track %s, read back time %s pos %s track %s (header %s)" % (
                                n_, tr.get_time(n_), p0, tr.get_track_id(n_), back.get_time(n_), p1, back.get_track_id(n_), header)
                            break
                yield desc, bad
            except Exception as e:  # noqa: BLE001
                yield desc, "display-name CSV round trip raised %s: %s" % (type(e).__name__, str(e)[:160])
    finally:
        shutil.rmtree(root, ignore_errors=True)


def prepared_cases(rng, n):
    """tracks built the way an application does, outside the plain-list idiom of the other generators: a
    prepared FeatureDict whose Position feature got its axis names as a tuple, or as a list the caller extends
    afterwards for another data set; nodes added in an editing session with the position as one row of a numpy
    array (TracksController.add_nodes). Then CSV with display names and the internal format, both read back;
    the registry of the internal format is compared with == (a tuple is not a list).
    Yields (description, complaint or None)."""
    import shutil
    import tempfile

    import networkx as nx
    import pandas as pd
    from funtracks.data_model import SolutionTracks
    from funtracks.features import FeatureDict, Position, Time, TrackletID
    from funtracks.import_export import export_to_csv, tracks_from_df
    from funtracks.import_export.internal_format import load_tracks, save_tracks
    from funtracks.user_actions import UserAddNode

    root = Path(tempfile.mkdtemp(prefix="funverif."))

    def st(t):
        return ({int(n_): (int(t.get_time(n_)), [float(x) for x in t.get_position(n_)], int(t.get_track_id(n_))) for n_ in t.graph.nodes},
                sorted((int(a), int(b)) for a, b in t.graph.edges))

    try:
        for k in range(n):
            nd = rng.choice([2, 2, 3])
            names = ["z", "y", "x"][-nd:]
            how = rng.choice(["plain", "tuple", "shared-list", "default"])
            nn = rng.randint(2, 6)
            ids = rng.sample(range(1, 60), nn)
            g = nx.DiGraph()
            for j, i_ in enumerate(ids):
                g.add_node(i_, t=j // 2, pos=[float(rng.randint(0, 40)) + 0.5 * a for a in range(nd)], track_id=j + 1)
            for j in range(2, nn):
                if rng.random() < 0.6:
                    g.add_edge(ids[j - 2], ids[j])
            desc = {"case": k, "ndim": nd + 1, "axes_given_as": how, "nodes": {int(i_): dict(g.nodes[i_]) for i_ in ids}, "edges": [list(e) for e in g.edges]}
            try:
                if how == "default":
                    for i_ in ids:
                        del g.nodes[i_]["track_id"]
                    tr = SolutionTracks(g, ndim=nd + 1, time_attr="t", pos_attr="pos")
                else:
                    axes = tuple(names) if how == "tuple" else list(names)
                    fd = FeatureDict({"t": Time(), "pos": Position(axes=axes), "track_id": TrackletID()},
                                     time_key="t", position_key="pos", tracklet_key="track_id")
                    tr = SolutionTracks(g, ndim=nd + 1, features=fd)
                    if how == "shared-list":   # the caller goes on to describe another data set with the same list
                        axes.insert(0, "w")
                        axes.append("c")
                # editing session: add nodes with array positions
                added = 0
                for _ in range(rng.randint(0, 2)):
                    leaf = rng.choice(sorted(tr.graph.nodes))
                    new = max(tr.graph.nodes) + rng.randint(1, 5)
                    row = np.array([[float(rng.randint(0, 40)) + 0.25 * a for a in range(nd)]])[0]
                    attrs = {"t": int(tr.get_time(leaf)) + 1, "track_id": int(tr.get_next_track_id()), "pos": row}
                    UserAddNode(tr, node=new, attributes=attrs)
                    added += 1
                desc["added_with_array_position"] = added
                before = st(tr)
                reg_before = {k_: dict(v) for k_, v in tr.features.items()}
                # internal format
                d = root / ("s%d" % k)
                save_tracks(tr, d)
                back = load_tracks(d, solution=True)
                shutil.rmtree(d, ignore_errors=True)
                bad = None
                if st(back) != before:
                    bad = "internal format: nodes / edges / times / positions / track ids differ after save and load: %s -> %s" % (before, st(back))
                else:
                    reg_after = {k_: dict(v) for k_, v in back.features.items()}
                    if reg_after != reg_before:
                        dk = [k_ for k_ in set(reg_before) | set(reg_after) if reg_before.get(k_) != reg_after.get(k_)]
                        bad = "internal format: feature registry differs after save and load at %s: %s -> %s" % (
                            dk, [reg_before.get(k_) for k_ in dk], [reg_after.get(k_) for k_ in dk])
                if bad is None:
                    path = root / "d.csv"
                    export_to_csv(tr, path, use_display_names=True)
                    df = pd.read_csv(path)
                    f = tr.features
                    nm = {"id": "ID", "parent_id": "Parent ID", "time": f[f.time_key].get("display_name", f.time_key),
                          "pos": list(names), "track_id": f[f.tracklet_key].get("display_name", f.tracklet_key)}
                    back = tracks_from_df(df, node_name_map=nm)
                    if st(back) != before:
                        bad = "CSV with display names: %s read back as %s (header %s)" % (before, st(back), list(df.columns))
                yield desc, bad
            except Exception as e:  # noqa: BLE001
                yield desc, "round trip raised %s: %s" % (type(e).__name__, str(e)[:160])
    finally:
        shutil.rmtree(root, ignore_errors=True)



def reload_cases(rng, n):
    """the files, not an earlier load, decide what load_tracks returns: tracks with a segmentation are saved, loaded,
    the loaded copy is edited WITHOUT saving (a node deleted: its pixels are erased in place), and the directory is
    loaded again - the second load must equal what was written (nodes, edges, label array bit for bit) and must not
    share its array with the first; then the edited copy is saved over the directory and a third load must equal it.
    Yields (description, complaint or None)."""
    import shutil
    import tempfile

    import networkx as nx
    from funtracks.data_model import SolutionTracks
    from funtracks.import_export.internal_format import load_tracks, save_tracks
    from funtracks.user_actions import UserDeleteNode

    root = Path(tempfile.mkdtemp(prefix="funverif."))
    try:
        for k in range(n):
            T = rng.randint(3, 4)
            seg = np.zeros((T, 8, 8), dtype=rng.choice([np.uint16, np.int64]))
            ids = rng.sample(range(1, 50), T + 1)
            g = nx.DiGraph()
            for tm in range(T):
                seg[tm, 1:3, 1 + tm:4 + tm] = ids[tm]
                g.add_node(ids[tm], time=tm)
                if tm:
                    g.add_edge(ids[tm - 1], ids[tm])
            seg[T - 1, 5:7, 2:5] = ids[T]
            g.add_node(ids[T], time=T - 1)
            g.add_edge(ids[T - 2], ids[T])
            desc = {"case": k, "nodes": {int(i_): int(g.nodes[i_]["time"]) for i_ in ids}, "edges": [list(e) for e in g.edges]}
            try:
                tr = SolutionTracks(g, segmentation=seg, ndim=3)
                d = root / ("r%d" % k)
                save_tracks(tr, d)
                written = np.array(tr.segmentation)
                first = load_tracks(d, solution=True)
                victim = rng.choice([ids[T], ids[T - 1], ids[0]])
                UserDeleteNode(first, victim)
                second = load_tracks(d, solution=True)
                bad = None
                if sorted(second.graph.nodes) != sorted(tr.graph.nodes) or sorted(second.graph.edges) != sorted(tr.graph.edges):
                    bad = "second load: nodes / edges %s %s differ from what was written" % (sorted(second.graph.nodes), sorted(second.graph.edges))
                elif not np.array_equal(np.asarray(second.segmentation), written):
                    bad = "second load after an unsaved edit of the first loaded copy (node %d deleted): label array differs from the written one at %d pixels" % (
                        victim, int((np.asarray(second.segmentation) != written).sum()))
                elif np.shares_memory(np.asarray(second.segmentation), np.asarray(first.segmentation)):
                    bad = "two loads of one directory share their label array"
                else:
                    save_tracks(first, d)
                    third = load_tracks(d, solution=True)
                    if sorted(third.graph.nodes) != sorted(first.graph.nodes) or not np.array_equal(np.asarray(third.segmentation), np.asarray(first.segmentation)):
                        bad = "third load after saving the edited copy over the directory differs from the edited copy"
                shutil.rmtree(d, ignore_errors=True)
                yield desc, bad
            except Exception as e:  # noqa: BLE001
                yield desc, "save / load / edit / load raised %s: %s" % (type(e).__name__, str(e)[:160])
    finally:
        shutil.rmtree(root, ignore_errors=True)


def import_edit_export_cases(rng, n):
    """import -> editing session with undo -> export -> import: a GEFF store whose nodes and edges carry custom
    (loaded, not computed) properties is imported with them requested as static features; the session deletes
    edges / nodes and undoes that (and redoes and undoes again); then every loaded value must still be on its node
    / edge, and a GEFF export followed by the same import must reproduce the first import.
    Yields (description, complaint or None)."""
    import shutil
    import tempfile

    import networkx as nx
    from funtracks.data_model import SolutionTracks
    from funtracks.import_export import export_to_geff, import_from_geff
    from funtracks.user_actions import UserDeleteEdge, UserDeleteNode

    root = Path(tempfile.mkdtemp(prefix="funverif."))

    def snap(t):
        return ({int(n_): (int(t.get_time(n_)), [float(x) for x in t.get_position(n_)], int(t.get_track_id(n_)), pyv(t.graph.nodes[n_].get("marker")))
                 for n_ in t.graph.nodes},
                {(int(u), int(v)): pyv(t.graph.edges[u, v].get("score")) for u, v in t.graph.edges})

    try:
        for k in range(n):
            nn = rng.randint(3, 7)
            ids = rng.sample(range(1, 60), nn)
            g = nx.DiGraph()
            for j, i_ in enumerate(ids):
                g.add_node(i_, time=j // 2, pos=[float(rng.randint(0, 30)), float(rng.randint(0, 30))], marker=rng.randint(1, 9))
            for j in range(2, nn):
                if rng.random() < 0.8:
                    g.add_edge(ids[j - 2], ids[j], score=rng.choice([0.0, 0.125, 0.25, 0.5, 0.75]))
            if g.number_of_edges() == 0:
                g.add_edge(ids[0], ids[2], score=0.5)
            desc = {"case": k, "nodes": {int(i_): dict(g.nodes[i_]) for i_ in ids}, "edges": [[int(u), int(v), g.edges[u, v]["score"]] for u, v in g.edges]}
            try:
                src = SolutionTracks(g, time_attr="time", pos_attr="pos", ndim=3)
                d0, d1 = root / ("a%d.zarr" % k), root / ("b%d.zarr" % k)
                export_to_geff(src, d0)

                def imp(d):
                    return import_from_geff(d / "tracks", node_name_map={"time": "time", "pos": ["y", "x"], "track_id": "track_id", "lineage_id": "lineage_id", "marker": "marker"},
                                            edge_name_map={"score": "score"}, node_features={"marker": False}, edge_features={"score": False})
                tr = imp(d0)
                first = snap(tr)
                bad = None
                if any(v is None for v in first[1].values()) or any(v[3] is None for v in first[0].values()):
                    bad = "a loaded property is missing right after the import: %s" % (first,)
                steps = 0
                if bad is None:
                    for _ in range(rng.randint(1, 3)):
                        if rng.random() < 0.6 and tr.graph.number_of_edges():
                            UserDeleteEdge(tr, rng.choice(sorted(tr.graph.edges)))
                        else:
                            UserDeleteNode(tr, rng.choice(sorted(tr.graph.nodes)))
                        tr.undo()
                        if rng.random() < 0.4:
                            tr.redo()
                            tr.undo()
                        steps += 1
                    desc["session_steps"] = steps
                    after = snap(tr)
                    if after != first:
                        dn = [n_ for n_ in first[0] if after[0].get(n_) != first[0][n_]]
                        de = [e for e in first[1] if after[1].get(e, "<no edge>") != first[1][e]]
                        bad = "after the session (every edit undone) loaded values differ: nodes %s, edges %s" % (
                            [(n_, first[0][n_], after[0].get(n_)) for n_ in dn][:3], [(e, first[1][e], after[1].get(e, "<no edge>")) for e in de][:3])
                if bad is None:
                    export_to_geff(tr, d1)
                    again = snap(imp(d1))
                    if again != first:
                        bad = "export after the session followed by the same import differs from the first import: %s -> %s" % (first, again)
                shutil.rmtree(d0, ignore_errors=True)
                shutil.rmtree(d1, ignore_errors=True)
                yield desc, bad
            except Exception as e:  # noqa: BLE001
                yield desc, "import / session / export raised %s: %s" % (type(e).__name__, str(e)[:200])
    finally:
        shutil.rmtree(root, ignore_errors=True)


def run(ctx):
    n_edit, n_fresh, n_tid = (40, 16, 40) if ctx.quick() else (260, 100, 400)
    n_zero = 8 if ctx.quick() else 40
    stats, violations, divergences, samples, jobs = {}, [], [], [], []
    distinct = set()
    evals = 0
    for i in range(n_edit):
        evals += evaluate(ctx.seed, "edit", i, stats, violations, samples, distinct, jobs)
    for i in range(n_fresh):
        evals += evaluate(ctx.seed, "fresh", i, stats, violations, samples, distinct, jobs)
    for i in range(n_zero):
        evals += evaluate(ctx.seed, "zero", i, stats, violations, samples, distinct, jobs)
    for desc, bad in display_name_cases(ctx.rng, 30 if ctx.quick() else 300):
        evals += 1
        stats["display_name_csv"] = stats.get("display_name_csv", 0) + 1
        stats["display_name_csv_per_axis"] = stats.get("display_name_csv_per_axis", 0) + int(desc["per_axis"])
        if bad:
            violations.append({"what": "CSV with display names: " + bad, "input": desc, "signature": "C14:display-names"})
    for desc, bad in prepared_cases(ctx.rng, 30 if ctx.quick() else 300):
        evals += 1
        stats["prepared_registry_cases"] = stats.get("prepared_registry_cases", 0) + 1
        stats["prepared_axes_" + desc["axes_given_as"]] = stats.get("prepared_axes_" + desc["axes_given_as"], 0) + 1
        stats["prepared_array_positions"] = stats.get("prepared_array_positions", 0) + desc.get("added_with_array_position", 0)
        if bad:
            violations.append({"what": "application-style construction: " + bad, "input": desc, "signature": "C14:prepared"})
    for desc, bad in reload_cases(ctx.rng, 12 if ctx.quick() else 120):
        evals += 1
        stats["reload_cases"] = stats.get("reload_cases", 0) + 1
        if bad:
            violations.append({"what": "internal format, repeated load: " + bad, "input": desc, "signature": "C14:reload"})
    for desc, bad in import_edit_export_cases(ctx.rng, 10 if ctx.quick() else 100):
        evals += 1
        stats["import_edit_export_cases"] = stats.get("import_edit_export_cases", 0) + 1
        if bad:
            violations.append({"what": "import, editing session, export, import: " + bad, "input": desc, "signature": "C14:import-edit-export"})
    for label, line, impl in track_id_cases(ctx.rng, n_tid):
        jobs.append(({"kind": "track-id-case"}, label, line, impl))
        evals += 1
    lines = [j[2] for j in jobs]
    rc, mout = C.run_driver(ctx.driver, lines)
    if rc != 0 or len(mout) != len(lines):
        divergences.append({"what": "model driver failed", "rc": rc, "out": mout[-3:]})
        mout = [""] * len(lines)
    for (ident, label, line, want), mo in zip(jobs, mout):
        lab = label.split(":")[0]
        stats["model_" + lab] = stats.get("model_" + lab, 0) + 1
        if label == "harness-encoding-error":
            divergences.append({"what": label, "input": ident, "impl": want, "model": mo})
            continue
        err = want(mo) if callable(want) else (None if mo == want else "outputs differ")
        if err:
            divergences.append({"what": "%s: %s" % (label, err), "input": dict(ident, line=line[:1500]),
                                "impl": "(see what)" if callable(want) else want[:1500], "model": mo[:1500]})
    return {"evaluations": evals, "distinct_nontrivial": len(distinct),
            "rule": "tracks objects from (i) editing sessions E.run_scenario(seed, i): random forest over 1-8 ids from 1..39, 2D/3D, with (5x5 / 3x3x3 masks) or without segmentation, single-key or per-axis positions, scale None/ones/anisotropic, optional iou / ellipse / perimeter / circularity features and custom attributes, then 4-22 random user actions (add/delete node/edge, swap, attribute updates, painting, undo, redo); (ii) fresh construction: 2-9 ids from 1..199, 3-6 frames, forests with divisions and skip edges and isolated nodes, dyadic (70%) or non-dyadic positions, box or C-shaped masks with several integer dtypes, time key 'time' or 't', track/lineage ids either computed or supplied as arbitrary distinct values (60%), registered custom features (int c1, float score) and an unregistered partial attribute c2; (iii) id-0 construction without segmentation: node id 0 as a dividing root / in the middle of a linear track / as a leaf / isolated (cycled), other ids drawn from {1, 2, 7, 999, 1000003, 2^31+5, 2^40+1} and 3..499, a second lineage with a skip edge, single-key or per-axis positions, 2D/3D. (iv) application-style construction (prepared_cases): a prepared FeatureDict whose Position got its axis names as a tuple or as a list the caller extends afterwards, nodes added with numpy-row positions, read back from the internal format (registry compared with ==) and from CSV with display names. (v) repeated loads (reload_cases): save, load, edit the loaded copy without saving, load again (must equal the files, no shared array), save over, load. (vi) import_edit_export_cases: a GEFF store with loaded node and edge properties is imported, edited with every edit undone, exported and imported again. Every object is written and re-read in CSV, GEFF and the internal format (evaluation = one object x one format) and the model is run on the same data (X/I/S/C/G/F/T lines); plus direct activate-vs-recompute cases (K). Non-trivial = at least 2 nodes and 1 edge; distinct = distinct (format, nodes, edges, times, positions, track ids).",
            "samples": samples, "divergences": divergences, "violations": violations, "stats": stats}


def replay(ctx, payload):
    """re-generate the tracks object of a violation and repeat the round trip of its format"""
    inp = payload.get("input")
    if isinstance(inp, dict) and "witness" in inp:
        import witnesses

        r = witnesses.run(ids=[inp["witness"]])
        return {"violation": not all(x[2] for x in r), "detail": r}
    if not isinstance(inp, dict) or "kind" not in inp:
        return {"error": "cannot replay", "input": inp}
    stats, violations, samples, jobs = {}, [], [], []
    evaluate(int(inp.get("seed", 0)), inp["kind"], int(inp["index"]), stats, violations, samples, set(), jobs, want_jobs=False)
    vs = [v for v in violations if inp.get("format") in (None, v["input"].get("format"))]
    return {"input": {k: inp[k] for k in ("kind", "seed", "index", "format") if k in inp}, "violation": bool(vs),
            "violations": [{"what": v["what"], "signature": v["signature"]} for v in vs], "stats": stats}
