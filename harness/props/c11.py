"""C11 - A refused edit changes nothing (edit machine; engine: harness/edit_engine.py)."""
import edit_engine as G

META = {
    "id": "C11",
    "claimed": True,
    "driver_id": "Edit",
    "coq_targets": ["Props/C11.vo", "Extract/Extract_Edit.vo"],
    "technique": 'Coq invariant / refinement proofs over the executable edit-machine model + step-by-step differential correspondence of the extracted model with the implementation + direct oracle on the implementation',
    "level_text": 'Theorems (closed under the global context): C11_delete_edge, C11_add_edge (forced or not), C11_swap, C11_update_attrs and C11_step_edge_ops: on every state satisfying W_dict and W_forest a refused call returns exactly the state it was given (Leibniz equality on the whole model state: graph, attributes, array, lookups, history, refresh log); for the swap this includes that none of its four nested edits can be refused after an earlier one was applied. C11_delete_node / C11_delete_node_errors (on a well-formed state every error of UserDeleteNode - pixels without an array or outside it, unknown node - returns exactly the state it was given), C11_add_node / C11_add_node_refusals (every error of UserAddNode is one of its six refusals, each raised before the first sub-edit: graph, array, features, history, refresh log, counters and lineage lookup equal, the track lookup equal up to the order inside the entry that get_track_neighbors sorts), C11_edge_calls. C11_paint (EVERY refused stroke, the rolled-back one included, returns - once the caller restored the painted pixels - a well-formed state observably equal to the original, with history, refresh log, counters and feature table literally equal and both lookups equal as sets; insertion order and unregistered attribute values of re-created nodes may differ, the documented caveat of C01); C11_user_actions_are_generated. Beyond the theorems the check rests on the differential correspondence (an Err of the model carries the mutated state, compared field by field with the implementation after the raise) and the deep before/after oracle on the implementation (about 30% refused calls, malformed stream included). C11_core_is_generated: one level further down, the queries, the node-id counter, Tracks.undo / redo and the seven basic actions with their inverses of the model equal the code translated on every run from solution_tracks.py, tracks.py, _track_annotator.py and actions/*.py (Gen/Core_gen.v; statement in Proofs/CoreTieBundle.v).',
    "level_note": 'Trusted: Coq kernel, extraction (ExtrOcamlBasic only), OCaml driver drv_Edit.ml, Python harness and oracles. Modelled, not verified: networkx DiGraph dict semantics, numpy indexing, skimage regionprops (symbolic: value = function of key, mask, spacing), psygnal. The theorems are about the hand-written model coq/Model/Edit.v; the tie to /repo is the step-by-step differential execution of the extracted model against the implementation on every run. Tied to the source in a second way: the history mechanism (action_history.py) and the seven composite user actions (user_actions/*.py) are re-translated on every run by fail-closed translators (harness/translate_history.py, translate_user_actions.py; closed idiom tables; runtime combinators Model/PyRt.v) and proved equal to the hand-written model for all arguments (Proofs/HistoryTie.v, UserActionsTie.v); trusted there: the idiom tables and combinators, and the stated conventions (get_time / successors on a missing node do not raise, StopIteration reported as KeyError, feature keys never None).',
    "design_ref": "DESIGN.md section 9 (C11)",
    "assumptions": ['the caller does not pass a lineage id to UserAddNode (outside its documented domain)', 'track_id and lineage_id features stay enabled during editing sessions', 'labels/ids are positive; times are frame indices within the array'],
    "trusted": ["translator harness/translate_core.py (closed idiom table; fail closed) with coq/Model/PyRt3.v; hand models left under it: regionprops / edge annotator update, bulk compute, networkx and array primitives",
                "translators harness/translate_history.py and harness/translate_user_actions.py (closed idiom tables in their docstrings; fail closed) with the runtime combinators coq/Model/PyRt.v",
                "correspondence harness harness/editmachine.py (scenario generator, canonicalisation, numeric references for regionprops / IoU)",
                "oracles harness/edit_oracles.py"],
}


def run(ctx):
    return G.run_property(ctx, "C11", n_quick=400, n_thorough=6000, seg_p=0.5)


def replay(ctx, payload):
    return G.replay(ctx, payload)
