"""C17 - inferred column mappings lose no column and prefer exact names: correspondence of
Model/NameMap.v with funtracks.import_export._name_mapping, plus the property's direct oracle.

The two library calls of the anchored code (str.lower, difflib.get_close_matches) are
oracles of the model.  Their answers are part of each scenario: the implementation run is
*recorded* (the module-level name `difflib` of _name_mapping is replaced by a proxy that
logs every get_close_matches call: query, candidates in order, answer) and the log is fed
to the extracted model as a lookup table keyed on exactly the arguments the model passes.
A model call that is not in the table, or a table entry the model never asks for, means the
call sequences of model and implementation differ: reported as a divergence.
"""
from __future__ import annotations

import difflib as _real_difflib
import string

import common as C

META = {
    "claimed": True,
    "id": "C17",
    "coq_targets": ["Props/C17.vo", "Extract/Extract_C17.vo"],
    "technique": "Coq proof (loop invariant through the six steps of the pipeline: used columns + props_left is a permutation of the source columns, mapping keys distinct, no leftover column spelled like an assigned key) + differential correspondence of the extracted model with the implementation under recorded difflib answers",
    "level_text": "Theorems C17_partition / C17_partition_edge / C17_exact / C17_exact_edge hold for every list of distinct columns, every required list, every feature dict and every answer of the fuzzy matcher that is one of its candidates (no bound on sizes); the hand-written model is tied to /repo by running the extracted model and the implementation on the same generated column lists (same difflib answers) and comparing the resulting maps as ordered (key, value) lists. C17_infer_node_is_generated / C17_infer_edge_is_generated: the model functions equal, for all arguments, the code translated on every run from the current _name_mapping.py (Gen/NameMapping_gen.v; fail-closed translator), and the Python raises nothing on these inputs.",
    "level_note": "Trusted: Coq kernel, extraction (ExtrOcamlBasic), OCaml driver, Python harness. Modelled not verified: str.lower and difflib.get_close_matches (oracle arguments of the model; the theorem only assumes that an answer is one of the candidates), Python dict/list semantics (Base/Dict.v). Tied to the source in a second way: _name_mapping.py is re-translated on every run (harness/translate_pure.py + translate_name_mapping.py, fail closed; combinators Model/PyRt2.v) and proved equal to the model for all arguments (Proofs/NameMapTie.v).",
    "design_ref": "DESIGN.md section 9 (C17), line 531 of the technique table",
    "assumptions": ["source column names are pairwise distinct (NoDup cols)",
                    "difflib.get_close_matches returns one of the candidates it was given (closest_sound)"],
    "trusted": ["translator harness/translate_pure.py + translate_name_mapping.py (closed idiom table; fail closed) with coq/Model/PyRt2.v",
                "difflib.get_close_matches / str.lower: answers recorded from the implementation run and fed to the model as oracle tables (order of candidates included)"],
}

SEG_ID = "seg_id"


# --------------------------------------------------------------------------- recording
class Recorder:
    """proxy for the module global `difflib` of _name_mapping + counting wrappers of its step functions"""

    def __init__(self):
        self.calls = []   # (word, [cands], answer-or-None, phase)
        self.steps = []   # (function name, props in, props out)
        self.phase = None

    def get_close_matches(self, word, possibilities, n=3, cutoff=0.6):
        cands = list(possibilities)
        res = _real_difflib.get_close_matches(word, cands, n=n, cutoff=cutoff)
        self.calls.append((word, cands, res[0] if res else None, self.phase, (n, cutoff)))
        return res

    def __getattr__(self, name):  # anything else the module might use from difflib
        return getattr(_real_difflib, name)


STEP_FUNCS = ["_match_exact", "_match_fuzzy", "_match_display_names_exact", "_match_display_names_fuzzy"]


def recorded_call(fn_name, *args):
    """run infer_node_name_map / infer_edge_name_map of the real module with the recorder installed"""
    import funtracks.import_export._name_mapping as nm

    rec = Recorder()
    saved = {"difflib": nm.difflib}
    nm.difflib = rec
    for name in STEP_FUNCS:
        orig = getattr(nm, name, None)
        if orig is None:
            continue
        saved[name] = orig

        def wrap(orig=orig, name=name):
            def w(*a, **k):
                # the props list is the 2nd positional arg of the std steps and the 1st of the display steps
                props = list(a[1] if name in ("_match_exact", "_match_fuzzy") else a[0])
                rec.phase = len(rec.steps)
                out = orig(*a, **k)
                rec.steps.append((name, props, list(out)))
                rec.phase = None
                return out
            return w

        setattr(nm, name, wrap())
    try:
        err, out = None, None
        try:
            out = getattr(nm, fn_name)(*args)
        except Exception as e:  # noqa: BLE001
            err = "%s: %s" % (type(e).__name__, e)
    finally:
        for k, v in saved.items():
            setattr(nm, k, v)
    return out, err, rec


# --------------------------------------------------------------------------- encoding
class Interner:
    def __init__(self):
        self.code = {SEG_ID: 0}
        self.names = [SEG_ID]

    def __call__(self, s):
        if s not in self.code:
            self.code[s] = len(self.names)
            self.names.append(s)
        return self.code[s]


def feat_fields(f):
    """what build_display_name_mapping / the feature_type filter read of one feature dict entry"""
    t = f.get("feature_type")
    num = f.get("num_values", 1)
    vn = list(f.get("value_names", []))
    d = f.get("display_name")
    return (0 if t == "node" else 1 if t == "edge" else 2), int(num), vn, (d if isinstance(d, str) else None)


def encode(kind, cols, required, feats, rec):
    I = Interner()
    ccols = [I(c) for c in cols]
    creq = [I(r) for r in required]
    fl = []
    for k, f in (feats or {}).items():
        t, num, vn, d = feat_fields(f)
        fl.append("%d:%d:%d:%s:%s" % (I(k), t, num, ",".join(str(I(v)) for v in vn), "" if d is None else str(I(d))))
    table, clash = {}, False
    for word, cands, ans, _ph, _nc in rec.calls:
        key = (I(word), tuple(I(c) for c in cands))
        a = None if ans is None else I(ans)
        if key in table and table[key] != a:
            clash = True
        table[key] = a
    # lower table over every string of the scenario (originals first, then their lower-cased forms)
    i = 0
    low = []
    while i < len(I.names):
        low.append("%d>%d" % (i, I(I.names[i].lower())))
        i += 1
    clo = ";".join("%d:%s:%s" % (q, ",".join(map(str, c)), "" if a is None else str(a)) for (q, c), a in table.items())
    line = "|".join([kind, ",".join(map(str, ccols)), ",".join(map(str, creq)), ";".join(fl), ",".join(low), clo])
    return line, I, clash


def decode(mo, I):
    """model output -> (ordered [(key, value)], misses, unused)"""
    try:
        body, miss, unused = mo.rsplit("|", 2)
        items = []
        for e in (body.split(";") if body else []):
            k, tag, v = e.split(":")
            if tag == "S":
                items.append((I.names[int(k)], I.names[int(v)]))
            else:
                items.append((I.names[int(k)], [I.names[int(x)] for x in v.split(",")] if v else []))
        return items, int(miss), int(unused)
    except Exception:  # noqa: BLE001
        return None, -1, -1


def canon(mapping):
    return [(k, list(v) if isinstance(v, (list, tuple)) else v) for k, v in mapping.items()]


# --------------------------------------------------------------------------- the property's direct oracle
def used_columns(mapping):
    used = []
    for v in mapping.values():
        if isinstance(v, (list, tuple)):
            used.extend(v)
        else:
            used.append(v)
    return used


def oracle(kind, cols, required, feats, mapping):
    used = used_columns(mapping)
    if sorted(map(str, used)) != sorted(cols):
        lost = sorted(set(cols) - set(used))
        twice = sorted({c for c in used if used.count(c) > 1})
        extra = sorted(set(map(str, used)) - set(cols))
        return "columns are not used exactly once: lost %s, used twice %s, not a column %s" % (lost, twice, extra)
    if kind == "N":
        exact_keys = list(required) + [SEG_ID]
    else:
        exact_keys = [k for k, f in (feats or {}).items() if f.get("feature_type") == "edge"]
    for c in cols:
        if c in exact_keys and mapping.get(c) != c:
            return "column %r is spelled like the key %r but the map has %r: %r" % (c, c, c, mapping.get(c))
    return None


# --------------------------------------------------------------------------- generators
def real_features(ndim):
    from funtracks.import_export._utils import get_default_key_to_feature_mapping

    return {k: dict(v) for k, v in get_default_key_to_feature_mapping(ndim, display_name=False).items()}


EXTRA_FEATURES = [
    ("intensity", {"feature_type": "node", "num_values": 1, "display_name": "Intensity"}),
    ("distance", {"feature_type": "edge", "num_values": 1, "display_name": "Distance"}),
    ("overlap", {"feature_type": "edge", "num_values": 1, "display_name": "Overlap"}),
    ("vel", {"feature_type": "node", "num_values": 2, "display_name": "velocity", "value_names": ["vy", "vx"]}),
    ("area2", {"feature_type": "node", "num_values": 1, "display_name": "Area"}),          # display name shared with area (2D)
    ("size", {"feature_type": "node", "num_values": 1, "display_name": "area"}),           # display name = another feature's key
    ("dup", {"feature_type": "node", "num_values": 2, "value_names": ["a", "a"]}),         # duplicate value names
    ("axes2", {"feature_type": "node", "num_values": 2, "value_names": ["major_axis", "time"]}),  # collides with value names / std key
    ("listy", {"feature_type": "node", "num_values": 1, "display_name": ["p", "q"]}),      # non-str display name
    ("untyped", {"num_values": 1, "display_name": "Untyped"}),                              # no feature_type
    ("edge_vec", {"feature_type": "edge", "num_values": 2, "value_names": ["dy", "dx"]}),
    ("edge_iou2", {"feature_type": "edge", "num_values": 1, "display_name": "IoU"}),       # shared edge display name
    ("nodisp", {"feature_type": "node"}),
    ("one_of_many", {"feature_type": "node", "num_values": 3, "value_names": ["only"]}),   # num_values > len(value_names)
]


def gen_features(rng):
    ndim = rng.choice([3, 4])
    feats = real_features(ndim)
    tag = "real-%dD" % (ndim - 1)
    r = rng.random()
    if r < 0.25:
        for k, f in rng.sample(EXTRA_FEATURES, rng.randint(1, 4)):
            feats[k] = dict(f)
        items = list(feats.items())
        if rng.random() < 0.5:
            rng.shuffle(items)
        feats = dict(items)
        tag += "+synthetic"
    elif r < 0.30:
        feats = {k: dict(f) for k, f in rng.sample(EXTRA_FEATURES, rng.randint(0, 5))}
        tag = "synthetic-only"
    return ndim, feats, tag


def variants(rng, s):
    """case variants and near-duplicates of one name"""
    out = [s, s.upper(), s.lower(), s.title(), s.swapcase(), s.capitalize()]
    out += [s + "_1", s + "_2", s + "1", s + " 2", "node_" + s, "my" + s, s + "s", s.replace("_", " "), s.replace(" ", "_"),
            s.replace("_", ""), s[:-1] if len(s) > 1 else s + s, s[1:] if len(s) > 2 else s + "x"]
    if len(s) > 2:
        i = rng.randrange(len(s) - 1)
        out.append(s[:i] + s[i + 1] + s[i] + s[i + 2:])       # transposition
        i = rng.randrange(len(s))
        out.append(s[:i] + rng.choice(string.ascii_lowercase) + s[i + 1:])  # substitution
    return out


COMMON = ["t", "T", "frame", "Frame", "label", "Label", "track_id", "TrackID", "z", "y", "x", "Z", "Y", "X", "id", "ID", "Id",
          "parent", "parent_id", "Parent ID", "ParentID", "seg", "segid", "SEG_ID", "Seg_Id", "time", "Time", "TIME", "pos", "POS",
          "position", "centroid", "volume", "radius", "score", "prob", "mean_intensity", "node_id", "lineage", "tracklet"]


def gen_columns(rng, kind, required, feats):
    base = list(required) + [SEG_ID] + list(feats.keys())
    for f in feats.values():
        _t, _n, vn, d = feat_fields(f)
        base += [v for v in vn if isinstance(v, str)]
        if d is not None:
            base.append(d)
    if kind == "E":
        base = [k for k, f in feats.items() if f.get("feature_type") == "edge"] + ["iou", "IoU", "distance", "Distance", "dist", "overlap",
                                                                                    "Overlap", "weight", "score", "source", "target"] + base[:4]
    n = rng.choice([0, 1, 2, 3, 3, 4, 4, 5, 5, 6, 6, 7, 7, 8, 9, 10])
    cols = []
    # a quarter of the lists start with several value names of one multi-value feature (shuffled,
    # some in another case) so that multi-column values with 2+ entries and index sorting are hit
    multis = [feat_fields(f)[2] for f in feats.values() if feat_fields(f)[1] > 1 and len(feat_fields(f)[2]) > 1]
    if multis and n >= 2 and rng.random() < 0.25:
        vn = [v for v in rng.choice(multis) if isinstance(v, str)]
        rng.shuffle(vn)
        for v in vn[:rng.randint(2, 3)]:
            c = v if rng.random() < 0.7 else rng.choice([v.upper(), v.title(), v + "_1"])
            if c not in cols and len(cols) < n:
                cols.append(c)
        if rng.random() < 0.5:
            rng.shuffle(cols)
    guard = 0
    while len(cols) < n and guard < 200:
        guard += 1
        r = rng.random()
        if r < 0.30:
            c = rng.choice(base)
        elif r < 0.62:
            c = rng.choice(variants(rng, rng.choice(base)))
        elif r < 0.75 and cols:
            c = rng.choice(variants(rng, rng.choice(cols)))          # similar to a column already there
        elif r < 0.90:
            c = rng.choice(COMMON)
        else:
            c = "".join(rng.choice(string.ascii_lowercase + "_") for _ in range(rng.randint(1, 9)))
        if c and c not in cols and "|" not in c:
            cols.append(c)
    return cols


REQUIRED_SETS = [(["time", "id", "parent_id"], "csv"), (["time"], "geff"), ([], "none"), (["time", "seg_id"], "seg_id-twice"),
                 (["time", "pos"], "time+pos"), (["time", "area", "id"], "time+area+id"), (["time", "time"], "time-twice"),
                 (["id", "parent_id", "time", "track_id"], "other-order")]


def gen_case(rng):
    kind = "N" if rng.random() < 0.75 else "E"
    ndim, feats, ftag = gen_features(rng)
    if kind == "N":
        r = rng.random()
        required, rtag = REQUIRED_SETS[0] if r < 0.4 else REQUIRED_SETS[1] if r < 0.75 else rng.choice(REQUIRED_SETS[2:])
    else:
        required, rtag = [], "edge"
        if rng.random() < 0.08:
            feats, ftag = None, "None"
    cols = gen_columns(rng, kind, required, feats or {})
    return kind, cols, list(required), feats, ftag, rtag


# --------------------------------------------------------------------------- one case
def run_impl(kind, cols, required, feats):
    if kind == "N":
        return recorded_call("infer_node_name_map", list(cols), list(required), feats)
    return recorded_call("infer_edge_name_map", list(cols), feats)


def step_stats(kind, cols, required, feats, mapping, rec, stats):
    """which steps of the pipeline fired (measured from the wrapped step functions and the difflib log)"""
    names = [s[0] for s in rec.steps]
    seen_exact = 0
    for i, (name, pin, pout) in enumerate(rec.steps):
        hit = len(pin) - len(pout)
        if name == "_match_exact":
            seen_exact += 1
            label = "exact_std" if (seen_exact == 1 and kind == "N") else "exact_feature_key"
        elif name == "_match_fuzzy":
            label = "fuzzy_std" if kind == "N" else "fuzzy_feature_key"
        elif name == "_match_display_names_exact":
            label = "display_exact"
        else:
            label = "display_fuzzy"
        if hit > 0:
            stats["lists_hit_" + label] = stats.get("lists_hit_" + label, 0) + 1
            stats["columns_" + label] = stats.get("columns_" + label, 0) + hit
        answered = sum(1 for c in rec.calls if c[3] == i and c[2] is not None)
        if name == "_match_display_names_fuzzy" and answered > hit:
            stats["already_assigned_skips_fuzzy"] = stats.get("already_assigned_skips_fuzzy", 0) + (answered - hit)
            stats["lists_with_already_assigned_skip"] = stats.get("lists_with_already_assigned_skip", 0) + 1
        if name == "_match_display_names_exact":
            try:
                import funtracks.import_export._name_mapping as nm

                sel = {k: v for k, v in (feats or {}).items() if v.get("feature_type") == ("node" if kind == "N" else "edge")}
                d2k = nm.build_display_name_mapping(sel)
                sk = sum(1 for p in pout if p in d2k)
                if sk:
                    stats["already_assigned_skips_exact"] = stats.get("already_assigned_skips_exact", 0) + sk
                    stats["lists_with_already_assigned_skip"] = stats.get("lists_with_already_assigned_skip", 0) + 1
            except Exception:  # noqa: BLE001
                pass
    for c in rec.calls:
        key = "difflib_args_n=%s_cutoff=%s" % c[4]
        stats[key] = stats.get(key, 0) + 1
    if rec.calls:
        stats["lists_with_difflib_calls"] = stats.get("lists_with_difflib_calls", 0) + 1
        stats["difflib_calls"] = stats.get("difflib_calls", 0) + len(rec.calls)
    if any(c[2] is not None for c in rec.calls):
        stats["lists_with_fuzzy_answer"] = stats.get("lists_with_fuzzy_answer", 0) + 1
    if mapping is not None:
        if any(isinstance(v, (list, tuple)) for v in mapping.values()):
            stats["lists_with_multi_value"] = stats.get("lists_with_multi_value", 0) + 1
        if any(isinstance(v, (list, tuple)) and len(v) > 1 for v in mapping.values()):
            stats["lists_with_multi_value_2plus"] = stats.get("lists_with_multi_value_2plus", 0) + 1
        left = rec.steps[-1][2] if rec.steps else cols
        if left:
            stats["lists_with_custom_leftover"] = stats.get("lists_with_custom_leftover", 0) + 1
        lowers = [c.lower() for c in cols]
        if len(set(lowers)) < len(lowers):
            stats["lists_with_case_colliding_columns"] = stats.get("lists_with_case_colliding_columns", 0) + 1
    return names


def evaluate(kind, cols, required, feats):
    mapping, err, rec = run_impl(kind, cols, required, feats)
    line, I, clash = encode(kind, cols, required, feats, rec)
    return mapping, err, rec, line, I, clash


def run(ctx):
    rng = ctx.rng
    n = 2500 if ctx.quick() else 40000
    cases = []
    # the two former loss cases first (finding F-17a), then generated lists
    f3 = real_features(4)
    cases.append(("N", ["time", "area_1", "area_2", "y", "x", "id", "parent_id"], ["time"], f3, "real-3D", "geff"))
    cases.append(("N", ["t", "y", "x", "pos", "id", "parent_id"], ["time"], f3, "real-3D", "geff"))
    for _ in range(n):
        cases.append(gen_case(rng))
    evald, lines = [], []
    for kind, cols, required, feats, ftag, rtag in cases:
        mapping, err, rec, line, I, clash = evaluate(kind, cols, required, feats)
        evald.append((mapping, err, rec, I, clash))
        lines.append(line)
    rc, mout = C.run_driver(ctx.driver, lines)
    divergences, violations, samples = [], [], []
    distinct = set()
    stats = {"node_lists": 0, "edge_lists": 0, "n_columns": {}, "features": {}, "required": {}}
    if rc != 0 or len(mout) != len(lines):
        divergences.append({"what": "model driver failed", "rc": rc, "out": mout[-3:]})
        mout = [""] * len(lines)
    for (kind, cols, required, feats, ftag, rtag), (mapping, err, rec, I, clash), line, mo in zip(cases, evald, lines, mout):
        stats["node_lists" if kind == "N" else "edge_lists"] += 1
        stats["n_columns"][len(cols)] = stats["n_columns"].get(len(cols), 0) + 1
        stats["features"][ftag] = stats["features"].get(ftag, 0) + 1
        stats["required"][rtag] = stats["required"].get(rtag, 0) + 1
        step_stats(kind, cols, required, feats, mapping, rec, stats)
        desc = {"kind": kind, "cols": cols, "required": required, "features": ftag,
                "feature_dict": None if feats is None else {k: {a: b for a, b in f.items() if a in ("feature_type", "num_values", "value_names", "display_name")} for k, f in feats.items()}}
        mitems, miss, unused = decode(mo, I)
        if err is not None:
            io = "raised " + err
            violations.append({"what": "infer_%s_name_map raised %s" % ("node" if kind == "N" else "edge", err), "input": desc,
                               "impl": io, "model": mitems, "signature": "C17:raise"})
            continue
        io = canon(mapping)
        if mitems is None or io != mitems or miss != 0 or unused != 0 or clash:
            divergences.append({"input": desc, "impl": io, "model": mitems if mitems is not None else mo,
                                "oracle_lookups_missing": miss, "oracle_entries_unused": unused, "line": line})
        bad = oracle(kind, cols, required, feats, mapping)
        if bad:
            violations.append({"what": "%s: %s" % ("infer_node_name_map" if kind == "N" else "infer_edge_name_map", bad),
                               "input": desc, "impl": io, "model": mitems, "signature": "C17:" + ("partition" if "exactly once" in bad else "exact")})
        nontrivial = len(cols) >= 2 and any((not isinstance(v, str)) or k != v for k, v in io)
        if nontrivial:
            distinct.add(line)
        if len(samples) < 4 and nontrivial and len(cols) >= 5 and (len(samples) != 3 or kind == "E"):
            samples.append({"input": {"kind": kind, "cols": cols, "required": required, "features": ftag},
                            "difflib_calls": [(c[0], c[1], c[2]) for c in rec.calls][:6], "impl_output": io, "model_output": mitems})
    stats["n_columns"] = {str(k): v for k, v in sorted(stats["n_columns"].items())}
    return {"evaluations": len(cases), "distinct_nontrivial": len(distinct),
            "rule": "0-10 distinct column names (a quarter of the lists start with 2-3 shuffled value names of one multi-value feature) drawn from: standard keys, feature keys, display names and value names of the real 2D/3D feature dicts "
                    "(RegionpropsAnnotator/EdgeAnnotator/TrackAnnotator via get_default_key_to_feature_mapping), case variants, near-duplicates "
                    "(_1/_2 suffixes, prefixes, typos, dropped characters), names similar to a column already drawn, common tracking column names, random strings; "
                    "required sets: CSV [time,id,parent_id], GEFF [time], and unusual ones (empty, seg_id twice, time twice, with pos/area); 25-30% of the feature dicts "
                    "carry synthetic features (shared display names, duplicate value names, non-str display name, missing feature_type, multi-value edge feature); "
                    "75% node maps, 25% edge maps (8% of those with features=None). Non-trivial = at least 2 columns and at least one key that is not mapped to itself; "
                    "distinct = distinct scenario lines (inputs + recorded difflib answers).",
            "samples": samples, "divergences": divergences, "violations": violations, "stats": stats}


def search(ctx):
    """directed search when the proof side or the correspondence broke: small column lists over the
    names that sit closest to the standard keys / display names"""
    rng = ctx.rng
    violations = []
    tried = 0
    pool = ["time", "Time", "t", "seg_id", "Seg_ID", "id", "parent_id", "pos", "z", "y", "x", "Z", "area", "Area", "Volume", "area_1", "area_2",
            "major_axis", "minor_axis", "semi_minor_axis", "Circularity", "circularity", "perimeter", "Perimeter", "tracklet_id", "Tracklet ID",
            "lineage_id", "Lineage ID", "iou", "IoU", "IOU", "custom"]
    for ndim in (3, 4):
        feats = real_features(ndim)
        for _ in range(3000 if ctx.quick() else 30000):
            cols = rng.sample(pool, rng.randint(1, 6))
            kind = "N" if rng.random() < 0.8 else "E"
            required = rng.choice([["time"], ["time", "id", "parent_id"]]) if kind == "N" else []
            mapping, err, rec = run_impl(kind, cols, required, feats)
            tried += 1
            bad = ("raised " + err) if err else oracle(kind, cols, required, feats, mapping)
            if bad:
                violations.append({"what": "infer_%s_name_map: %s" % ("node" if kind == "N" else "edge", bad),
                                   "input": {"kind": kind, "cols": cols, "required": required, "features": "real-%dD" % (ndim - 1)},
                                   "impl": None if err else canon(mapping), "signature": "C17:search"})
                if len(violations) >= 3:
                    return {"violations": violations, "stats": {"tried": tried}}
    return {"violations": violations, "stats": {"tried": tried}}


def replay(ctx, payload):
    """re-run one recorded input on implementation and model"""
    inp = payload.get("input")
    if isinstance(inp, dict) and "witness" in inp:
        import witnesses

        r = witnesses.run(ids=[inp["witness"]])
        return {"violation": not all(x[2] for x in r), "detail": r}
    kind, cols, required = inp["kind"], inp["cols"], inp.get("required", [])
    feats = inp.get("feature_dict")
    if feats is None and str(inp.get("features", "")).startswith("real-"):
        feats = real_features(3 if inp["features"].startswith("real-2D") else 4)
    mapping, err, rec, line, I, clash = evaluate(kind, cols, required, feats)
    out = {"input": inp, "impl": ("raised " + err) if err else canon(mapping)}
    exe, _ = C.build_driver("C17")
    if exe is not None:
        rc, mo = C.run_driver(exe, [line])
        out["model"] = decode(mo[0], I)[0] if mo else None
    out["violation"] = ("raised " + err) if err else oracle(kind, cols, required, feats, mapping)
    return out
