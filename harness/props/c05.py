"""C05 - Lineage ids label exactly the connected components (edit machine; engine: harness/edit_engine.py)."""
import edit_engine as G

META = {
    "id": "C05",
    "claimed": True,
    "driver_id": "Edit",
    "coq_targets": ["Props/C05.vo", "Extract/Extract_Edit.vo"],
    "technique": 'Coq invariant / refinement proofs over the executable edit-machine model + step-by-step differential correspondence of the extracted model with the implementation + direct oracle on the implementation',
    "level_text": 'Proved in Coq over the executable edit-machine model (Props/C05.v, all closed under the global context), for states satisfying the bundle LWF = cfg_ok (track and lineage features active) + W_dict (well-formed dictionaries, integer time / track id / lineage id on every node) + W_forest (C03) + W_lin (L1: lineage id constant along every edge, L2: distinct roots carry distinct ids) + W_book (C06): C05_global (on a forward-in-time forest W_lin is equivalent to: same lineage id iff connected ignoring direction); C05_update_track_ids (UpdateTrackIDs writes the new lineage id on exactly the start node and its descendants and leaves every other id alone); C05_cut / C05_graft (the two relabelling patterns - cut a subtree and give it an unused id, graft a root under an earlier node and give its tree that node\'s id - keep W_lin; pure graph statements); C05_delete_edge_ids, C05_add_edge_ids, C05_add_edge_accepted (every accepted UserDeleteEdge / UserAddEdge call - plain, division, and forced with removal of the old parent edge, top level or nested - leaves exactly the expected edge set, keeps the whole bundle, and the lineage id of every node afterwards is given explicitly: nodes below v get next_lin resp. the id of u, all others keep theirs); C05_step_delete_edge, C05_step_add_edge, C05_step_swap (after an accepted UserDeleteEdge / UserAddEdge / UserSwapPredecessors the bundle holds again and two nodes carry the same lineage id iff they are connected); C05_frame_delete_edge, C05_frame_add_edge, C05_frame_swap, C05_swap_ids (a node whose component contains none of the named nodes keeps its id; in fact only descendants of the named child nodes can change). C05_step_delete_node, C05_frame_delete_node, C05_step_add_node (UserDeleteNode / UserAddNode - without a caller-supplied lineage id - preserve configuration, dictionaries, forest, track ids, lineage ids and lookups together; a deletion changes lineage ids only strictly below the deleted node); C05_run_edge_calls (every state reachable from a well-formed state by any sequence, of any length, of edge-level calls - add / delete edge with and without force, swap, track queries, fresh ids - satisfies the complete invariant WF: dictionaries, forest, track ids, lineage ids, lookups, label/node correspondence, fresh features; induction over the call list); C05_run_node_calls (the same reachability statement with UserAddNode and UserDeleteNode included, accepted or refused, each UserAddNode respecting its documented preconditions - integer time / track id, no caller-supplied lineage id, and with a segmentation a non-zero id and background pixels of its own frame; Proofs/EditWFNodeExample.v shows three accepted calls outside these preconditions that break the invariant); C05_sessions (from a well-formed state with an empty history, EVERY state reached along ANY sequence - of any length - of calls of the WHOLE public interface of the edit machine - edge, swap, node, attribute and stroke edits, undo, redo, queries - accepted or refused, satisfies the complete invariant WF; hypotheses: three configuration facts no call changes, and the documented per-call preconditions of UserAddNode / node calls without segmentation at the moment each call is made; strokes, edge calls, attribute updates, undo and redo have none); C05_paint and C05_run_paint_calls (every accepted stroke yields a well-formed state; every refused stroke too, the rolled-back one included); C05_user_actions_are_generated (the seven composite user actions of the model equal, for all arguments, the code translated on every run from the current user_actions/*.py); C05_sessions_from_construction (the start state need not be assumed well formed: for every valid raw solution - forest, labels and nodes one-to-one, fresh feature table, true oracle partitions - the state constructed by enabling the core features with recomputation is well formed, so every session over the whole interface from it stays well formed). NOT proved in Coq, resting only on the step-by-step differential correspondence of the extracted model with the implementation plus the all-pairs lineage oracle evaluated on the implementation after every step: nothing else (inverse replay), construction of the initial solution, and the part of the frame clause that speaks about the nodes of a named track. C05_core_is_generated: one level further down, the queries, the node-id counter, Tracks.undo / redo and the seven basic actions with their inverses of the model equal the code translated on every run from solution_tracks.py, tracks.py, _track_annotator.py and actions/*.py (Gen/Core_gen.v; statement in Proofs/CoreTieBundle.v).',
    "level_note": 'Trusted: Coq kernel, extraction (ExtrOcamlBasic only), OCaml driver drv_Edit.ml, Python harness and oracles. Modelled, not verified: networkx DiGraph dict semantics, numpy indexing, skimage regionprops (symbolic: value = function of key, mask, spacing), psygnal. The theorems are about the hand-written model coq/Model/Edit.v; the tie to /repo is the step-by-step differential execution of the extracted model against the implementation on every run. Tied to the source in a second way: the history mechanism (action_history.py) and the seven composite user actions (user_actions/*.py) are re-translated on every run by fail-closed translators (harness/translate_history.py, translate_user_actions.py; closed idiom tables; runtime combinators Model/PyRt.v) and proved equal to the hand-written model for all arguments (Proofs/HistoryTie.v, UserActionsTie.v); trusted there: the idiom tables and combinators, and the stated conventions (get_time / successors on a missing node do not raise, StopIteration reported as KeyError, feature keys never None).',
    "design_ref": "DESIGN.md section 9 (C05)",
    "assumptions": ['the caller does not pass a lineage id to UserAddNode (outside its documented domain)', 'track_id and lineage_id features stay enabled during editing sessions', 'labels/ids are positive; times are frame indices within the array'],
    "trusted": ["translator harness/translate_core.py (closed idiom table; fail closed) with coq/Model/PyRt3.v; hand models left under it: regionprops / edge annotator update, bulk compute, networkx and array primitives",
                "translators harness/translate_history.py and harness/translate_user_actions.py (closed idiom tables in their docstrings; fail closed) with the runtime combinators coq/Model/PyRt.v",
                "correspondence harness harness/editmachine.py (scenario generator, canonicalisation, numeric references for regionprops / IoU)",
                "oracles harness/edit_oracles.py"],
}


def pre_build(ctx):
    # undo / redo are part of what this property quantifies over: re-translate action_history.py
    import translate_history

    ok, msg = translate_history.regenerate()
    if not ok:
        raise RuntimeError("translator refused action_history.py: %s" % msg)
    # the composite user actions: re-translate user_actions/*.py (Gen/UserActions_gen.v)
    import translate_user_actions

    translate_user_actions.regenerate(repo=str(__import__("common").REPO))
    if not translate_user_actions.LAST.get("ok"):
        raise RuntimeError("translator refused user_actions/*.py: %s" % translate_user_actions.LAST.get("msg"))
    # the code the user actions call: queries, id counter, undo / redo, basic actions (Gen/Core_gen.v)
    import translate_core

    ok, msg = translate_core.regenerate()
    if not ok:
        raise RuntimeError("translator refused the core sources: %s" % msg)


def run(ctx):
    return G.run_property(ctx, "C05", n_quick=400, n_thorough=6000, seg_p=0.3)


def replay(ctx, payload):
    return G.replay(ctx, payload)
