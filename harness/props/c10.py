"""C10 - feature switching is history-independent; managed features are protected
(edit machine + Model/Toggle.v; engine: harness/edit_engine.py with toggle operations)."""
import edit_engine as G

META = {
    "id": "C10",
    "claimed": True,
    "driver_id": "Edit",
    "coq_targets": ["Props/C10.vo", "Extract/Extract_Edit.vo"],
    "technique": "Coq theorems over the executable model of enable_features / disable_features and the annotators' bulk compute (Model/Toggle.v) + step-by-step differential correspondence with the implementation on histories mixing feature switches with edits, undo and redo + direct oracle on the implementation",
    "level_text": "Proved in Coq about the executable model (Props/C10.v, 22 theorems, all closed under the global context; regionprops values symbolic: VRp mask = the value computed from this mask): C10_unknown / C10_known (a key outside the annotators' all_features anywhere in the list makes enable_features and disable_features raise KeyError with the state returned untouched; with available keys only both return normally); C10_protected_keys / C10_protected (the protected set of UpdateNodeAttrs is all manageable keys plus time, independent of the activity flags; an update mentioning such a key raises ValueError and changes nothing, at basic and at user-action level); C10_registry_enable / C10_registry_disable / C10_edit_keeps_features / C10_registry_step2 / C10_registry_run2 (W_reg: every manageable key is listed in tracks.features iff its flag is on - node keys in the node list, iou in the edge list; enable registers and activates exactly the requested keys, disable removes exactly them, every other registry entry and flag is untouched; no edit, undo, redo or query changes the flags or the registry; hence W_reg holds along any history of switches and edits); C10_frozen_basic / C10_frozen_user / C10_frozen_paint / C10_frozen_step / C10_frozen_run (for a disabled regionprops key: every basic action - also when it raises -, every inverse, every user action, a whole paint stroke including its rollback, undo and redo leave the stored value of every node unchanged and keep the node set outside the nodes the call itself adds / deletes; lifted to arbitrary edit histories); C10_frozen_iou (with iou off the edge annotator's update is the identity and no basic action changes the attributes of an edge other than the one it adds / removes); C10_enable_fresh_rp / C10_enable_rp_fresh (on a state whose array and node set correspond - W_seg - enable_features(keys, recompute=True) leaves every node with VRp of its current mask in its own frame for every requested regionprops key, and the already enabled ones stay fresh: the node half of W_fresh holds afterwards whatever the history); C10_enable_fresh_iou / C10_enable_iou_fresh (same for the edge IoU of every edge whose source frame has a successor frame - all edges of a forward-in-time graph); C10_enable_ids_trk / C10_enable_ids_lin (enabling track_id / lineage_id with the components the networkx oracle returned gives every node of the i-th component id i, lookups = the components, max id = number of components, assuming only that the components are pairwise disjoint). Examples by vm_compute: disable area, paint, enable [area, unknown] -> KeyError and identical state, enable area -> fresh value. Not proved as theorems, resting on the step-by-step differential correspondence with the implementation and the direct oracle (check_toggle): that the Gallina model is the Python code; enable_features with recompute=False (values are whatever was stored); the contract of the networkx component oracle (components cover the node set and are the tracklets / lineages); that W_seg holds at the moment of enabling along arbitrary histories (C07); frozen-ness of the edge IoU above basic-action level. Known finding F-10b (re-enabling an enabled id feature renumbers ids while the undo history keeps the old numbering) is outside these theorems and is reported by the harness. C10_enable_is_generated / C10_disable_is_generated / C10_protected_check_is_generated / C10_generated_along_runs: enable_features, disable_features, the registry / annotator activation layer and the protected-key check of the model equal, for all arguments, the code translated on every run from the current tracks.py, _annotator_registry.py, _graph_annotator.py and update_node_attrs.py (Gen/Toggle_gen.v; fail-closed translator; the bulk compute bodies stay model functions). C10_ids_recomputed_then_undo_refuted: the known finding F-10b as a machine-checked refutation on the faithful model (W_trk holds after re-enabling track_id and fails after the following undo).",
    "level_note": "Trusted: Coq kernel, extraction (ExtrOcamlBasic only), OCaml driver drv_Edit.ml, Python harness and oracles. Modelled, not verified: networkx (weakly_connected_components answers are inputs of the model), skimage regionprops (symbolic values), numpy. Domain limits: track_id / lineage_id are never disabled during an editing session (SolutionTracks requires them); perimeter / circularity only in 2D with isotropic scale (skimage refuses otherwise). Tied to the source in a second way: feature switching is re-translated on every run (harness/translate_toggle.py, fail closed; object representation Model/PyRt4.v) and proved equal to the model (Proofs/ToggleTie.v, ToggleTieInv.v).",
    "design_ref": "DESIGN.md section 9 (C10)",
    "assumptions": ["track_id and lineage_id stay enabled (they may be re-enabled = recomputed)", "regionprops keys restricted to the combinations skimage supports"],
    "trusted": ["translator harness/translate_toggle.py (closed idiom table; fail closed) with the object representation coq/Model/PyRt4.v",
                "correspondence harness harness/editmachine.py", "oracles harness/edit_oracles.py (check_toggle)"],
}


def pre_build(ctx):
    # feature switching: re-translate enable/disable_features, the registry / annotator layer and the
    # protected-key check (Gen/Toggle_gen.v, tied by Proofs/ToggleTie.v)
    import translate_toggle

    ok, msg = translate_toggle.regenerate()
    if not ok:
        raise RuntimeError("translator refused the feature-switching sources: %s" % msg)


def run(ctx):
    return G.run_property(ctx, "C10", n_quick=400, n_thorough=5000, seg_p=0.7, toggles=0.22)


def replay(ctx, payload):
    return G.replay(ctx, payload)
