"""C10 - feature switching is history-independent; managed features are protected
(edit machine + Model/Toggle.v; engine: harness/edit_engine.py with toggle operations)."""
import edit_engine as G

META = {
    "id": "C10",
    "claimed": False,
    "driver_id": "Edit",
    "coq_targets": ["Props/C10.vo", "Extract/Extract_Edit.vo"],
    "technique": "Coq theorems over the executable model of enable_features / disable_features and the annotators' bulk compute (Model/Toggle.v) + step-by-step differential correspondence with the implementation on histories mixing feature switches with edits, undo and redo + direct oracle on the implementation",
    "level_text": "(to be completed with the list of theorems proved in Props/C10.v)",
    "level_note": "Trusted: Coq kernel, extraction (ExtrOcamlBasic only), OCaml driver drv_Edit.ml, Python harness and oracles. Modelled, not verified: networkx (weakly_connected_components answers are inputs of the model), skimage regionprops (symbolic values), numpy. Domain limits: track_id / lineage_id are never disabled during an editing session (SolutionTracks requires them); perimeter / circularity only in 2D with isotropic scale (skimage refuses otherwise).",
    "design_ref": "DESIGN.md section 9 (C10)",
    "assumptions": ["track_id and lineage_id stay enabled (they may be re-enabled = recomputed)", "regionprops keys restricted to the combinations skimage supports"],
    "trusted": ["correspondence harness harness/editmachine.py", "oracles harness/edit_oracles.py (check_toggle)"],
}


def run(ctx):
    return G.run_property(ctx, "C10", n_quick=400, n_thorough=5000, seg_p=0.7, toggles=0.22)


def replay(ctx, payload):
    return G.replay(ctx, payload)
