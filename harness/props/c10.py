"""C10 - feature switching is history-independent; managed features are protected
(edit machine + Model/Toggle.v; engine: harness/edit_engine.py with toggle operations)."""
import edit_engine as G

META = {
    "id": "C10",
    "claimed": True,
    "driver_id": "Edit",
    "coq_targets": ["Props/C10.vo", "Extract/Extract_Edit.vo"],
    "technique": "Coq theorems over the executable model of enable_features / disable_features and the annotators' bulk compute (Model/Toggle.v) + step-by-step differential correspondence with the implementation on histories mixing feature switches with edits, undo and redo + direct oracle on the implementation",
    "level_text": "Proved in Coq about the executable model (Props/C10.v, 22 theorems, all closed under the global context; regionprops values symbolic: VRp mask = the value computed from this mask): C10_unknown / C10_known (a key outside the annotators' all_features anywhere in the list makes enable_features and disable_features raise KeyError with the state returned untouched; with available keys only both return normally); C10_protected_keys / C10_protected (the protected set of UpdateNodeAttrs is all manageable keys plus time, independent of the activity flags; an update mentioning such a key raises ValueError and changes nothing, at basic and at user-action level); C10_registry_enable / C10_registry_disable / C10_edit_keeps_features / C10_registry_step2 / C10_registry_run2 (W_reg: every manageable key is listed in tracks.features iff its flag is on - node keys in the node list, iou in the edge list; enable registers and activates exactly the requested keys, disable removes exactly them, every other registry entry and flag is untouched; no edit, undo, redo or query changes the flags or the registry; hence W_reg holds along any history of switches and edits); C10_frozen_basic / C10_frozen_user / C10_frozen_paint / C10_frozen_step / C10_frozen_run (for a disabled regionprops key: every basic action - also when it raises -, every inverse, every user action, a whole paint stroke including its rollback, undo and redo leave the stored value of every node unchanged and keep the node set outside the nodes the call itself adds / deletes; lifted to arbitrary edit histories); C10_frozen_iou (with iou off the edge annotator's update is the identity and no basic action changes the attributes of an edge other than the one it adds / removes); C10_enable_fresh_rp / C10_enable_rp_fresh (on a state whose array and node set correspond - W_seg - enable_features(keys, recompute=True) leaves every node with VRp of its current mask in its own frame for every requested regionprops key, and the already enabled ones stay fresh: the node half of W_fresh holds afterwards whatever the history); C10_enable_fresh_iou / C10_enable_iou_fresh (same for the edge IoU of every edge whose source frame has a successor frame - all edges of a forward-in-time graph); C10_enable_ids_trk / C10_enable_ids_lin (enabling track_id / lineage_id with the components the networkx oracle returned gives every node of the i-th component id i, lookups = the components, max id = number of components, assuming only that the components are pairwise disjoint). Examples by vm_compute: disable area, paint, enable [area, unknown] -> KeyError and identical state, enable area -> fresh value. Not proved as theorems, resting on the step-by-step differential correspondence with the implementation and the direct oracle (check_toggle): that the Gallina model is the Python code; enable_features with recompute=False (values are whatever was stored); the contract of the networkx component oracle (components cover the node set and are the tracklets / lineages); that W_seg holds at the moment of enabling along arbitrary histories (C07); frozen-ness of the edge IoU above basic-action level. Known finding F-10b (re-enabling an enabled id feature renumbers ids while the undo history keeps the old numbering) is outside these theorems and is reported by the harness. C10_enable_is_generated / C10_disable_is_generated / C10_protected_check_is_generated / C10_generated_along_runs: enable_features, disable_features, the registry / annotator activation layer and the protected-key check of the model equal, for all arguments, the code translated on every run from the current tracks.py, _annotator_registry.py, _graph_annotator.py and update_node_attrs.py (Gen/Toggle_gen.v; fail-closed translator; the bulk compute bodies stay model functions). C10_ids_recomputed_then_undo_refuted: the known finding F-10b as a machine-checked refutation on the faithful model (W_trk holds after re-enabling track_id and fails after the following undo). C10_constructor_is_generated: the constructor pieces of the model (Model/EditCtor.v: the scan of supplied ids = TrackAnnotator._get_max_id_and_map, the bookkeeping part of TrackAnnotator.__init__, first_has = Tracks._check_existing_feature, and the activate-or-compute loop of Tracks._setup_core_computed_features) equal the code translated on every run from _track_annotator.py and tracks.py (Gen/Ctor_gen.v, harness/translate_ctor.py, Proofs/CtorTie.v; the first loop that collects the keys from the annotators is not translated). C10_prepared_registry_activation: with a prepared registry exactly the registered keys an annotator can manage are switched on and nothing else changes (construct_dict_spec). Feature switching inside a session: C10_switch_step (one enable_features-with-recomputation / disable_features call of non-id features keeps the complete invariant WF and the side facts, touches neither history stack nor the array; a refused call returns the state itself), C10_sessions_with_switching_partial (every state along switches ++ an editing session with undo / redo ++ any mix of switches and edits without undo / redo is well formed) and C10_sessions_with_switching_conditional (any interleaving, from the one open hypothesis transport_along: the recorded actions stay consistent transitions between the switched timeline states); undo / redo after a switch is therefore covered by correspondence + oracles only (every run mixes switches into the C08 / C09 / C10 sessions). Proofs/EditSessionsToggle.v. The open hypothesis is narrowed in Proofs/EditSessionsToggle2.v / EditSessionsToggle3.v: C10_switch_keeps_observable_equality (a switch maps observably equal well-formed states to observably equal states), C10_sessions_with_switching_modulo_a (the fully mixed theorem from part (a) of the transport alone: the recorded inverses simulate across two feature tables - NOT proved with a label array), C10_sessions_with_switching_noseg (without a label array the fully mixed theorem is unconditional), C10_noseg_cfg_is_invariant and C10_sessions_with_switching_modulo_a_start (the side condition 'no annotator features without an array' is an invariant of every mixed run - the array keeps its None-ness and shape, no call changes the static part of the feature table - so it is asked of the start state only).",
    "level_note": "Trusted: Coq kernel, extraction (ExtrOcamlBasic only), OCaml driver drv_Edit.ml, Python harness and oracles. Modelled, not verified: networkx (weakly_connected_components answers are inputs of the model), skimage regionprops (symbolic values), numpy. Domain limits: track_id / lineage_id are never disabled during an editing session (SolutionTracks requires them); perimeter / circularity only in 2D with isotropic scale (skimage refuses otherwise). Tied to the source in a second way: feature switching is re-translated on every run (harness/translate_toggle.py, fail closed; object representation Model/PyRt4.v) and proved equal to the model (Proofs/ToggleTie.v, ToggleTieInv.v).",
    "design_ref": "DESIGN.md section 9 (C10)",
    "assumptions": ["track_id and lineage_id stay enabled (they may be re-enabled = recomputed)", "regionprops keys restricted to the combinations skimage supports"],
    "trusted": ["translator harness/translate_ctor.py (closed idiom table; fail closed; literal side conditions on Tracks.nodes / get_node_attr / enable_features and the head of TrackAnnotator.__init__) with coq/Model/PyRt9.v",
                "translator harness/translate_toggle.py (closed idiom table; fail closed) with the object representation coq/Model/PyRt4.v",
                "correspondence harness harness/editmachine.py", "oracles harness/edit_oracles.py (check_toggle)"],
}


def primitive_scenarios(ctx, n):
    """implementation-only oracle at the level of the PRIMITIVE actions (the edit machine drives user actions
    only): with a regionprops feature disabled / never enabled, UpdateNodeSeg shrinks a node - partly, and down
    to nothing (the annotator's missing-label branch) - and is inverted; a disabled key must keep its value (or
    its absence) on every node"""
    import networkx as nx
    import numpy as np
    from funtracks.actions import UpdateNodeSeg
    from funtracks.data_model import SolutionTracks

    rng = ctx.rng
    out, stats = [], {"primitive_scenarios": 0, "primitive_full_erase": 0}
    RP = ["pos", "area", "ellipse_axis_radii", "circularity", "perimeter"]
    for k in range(n):
        T, side = rng.randint(2, 4), 6
        seg = np.zeros((T, side, side), dtype=np.int64)
        g = nx.DiGraph()
        nid = 0
        for t in range(T):
            for j in range(rng.randint(1, 2)):
                nid += 1
                r0 = 3 * j
                seg[t, r0:r0 + rng.randint(1, 2) + 1, 0:rng.randint(2, 5)] = nid
                g.add_node(nid, time=t)
        tr = SolutionTracks(g, segmentation=seg, ndim=3, scale=rng.choice([None, [1.0, 1.0, 1.0], [1.0, 2.0, 0.25]]))
        extra = rng.sample(["circularity", "perimeter", "ellipse_axis_radii"], rng.randint(0, 2)) if tr.scale is None or tr.scale[1] == tr.scale[2] else []
        if extra:
            tr.enable_features(extra)
        off = rng.sample(["area"] + extra, rng.randint(1, 1 + len(extra)))
        tr.disable_features(off)
        avail = {kk for ann in tr.annotators for kk in ann.all_features}
        watched = [kk for kk in RP if kk in avail and kk not in {kk for ann in tr.annotators for kk, (_, on) in ann.all_features.items() if on}]
        node = rng.choice(list(tr.graph.nodes))
        px = tr.get_pixels(node)
        full = rng.random() < 0.5
        m = len(px[0]) if full else max(1, len(px[0]) // 2)
        part = tuple(a[:m] for a in px)
        stats["primitive_scenarios"] += 1
        stats["primitive_full_erase"] += int(full)
        snap = lambda: {(int(n_), kk): repr(tr.graph.nodes[n_].get(kk, "<absent>")) for n_ in tr.graph.nodes for kk in watched}
        before = snap()
        desc = {"scenario": k, "node": int(node), "erased_pixels": m, "of": len(px[0]), "disabled": off, "watched": watched,
                "seg": [[int(x) for x in fr.reshape(-1)] for fr in seg]}
        try:
            act = UpdateNodeSeg(tr, node, part, added=False)
            mid = snap()
            act.inverse()
            after = snap()
        except Exception as e:  # noqa: BLE001
            out.append({"what": "primitive UpdateNodeSeg raised %s: %s" % (type(e).__name__, str(e)[:100]), "input": desc, "signature": "C10:primitive-raise"})
            continue
        for label, st in (("UpdateNodeSeg(added=False)", mid), ("its inverse", after)):
            d = {kk: (before[kk], st[kk]) for kk in before if before[kk] != st[kk]}
            if d:
                out.append({"what": "%s changed disabled features %s" % (label, {"%d.%s" % kk: v for kk, v in list(d.items())[:3]}),
                            "input": desc, "signature": "C10:primitive-frozen"})
                break
    return out, stats


def run(ctx):
    res = G.run_property(ctx, "C10", n_quick=400, n_thorough=5000, seg_p=0.7, toggles=0.22)
    viol, stats = primitive_scenarios(ctx, 60 if ctx.quick() else 600)
    res["violations"] = list(res.get("violations", [])) + viol
    res.setdefault("stats", {}).update(stats)
    res["evaluations"] = res.get("evaluations", 0) + stats["primitive_scenarios"]
    return res


def replay(ctx, payload):
    return G.replay(ctx, payload)
