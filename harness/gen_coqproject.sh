#!/bin/sh
# regenerate coq/_CoqProject from the .v files present (coqdep orders them)
cd /verif/coq || exit 1
{ echo "-Q . FT"; echo "-arg -w -arg -notation-overridden,-deprecated-hint-without-locality,-deprecated-instance-without-locality"; find Base Model Gen Proofs Props Extract -name '*.v' | sort; } > _CoqProject.new
if ! cmp -s _CoqProject.new _CoqProject; then mv _CoqProject.new _CoqProject; coq_makefile -f _CoqProject -o Makefile >/dev/null; else rm _CoqProject.new; fi
[ -f Makefile ] || coq_makefile -f _CoqProject -o Makefile >/dev/null
