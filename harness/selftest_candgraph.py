"""Negative self-test of the source-derived tie Proofs/CandGraphTie.v (candidate graph, C18).

For each case: copy /repo/src to a scratch directory under /tmp, apply a textual edit to the Python, run
harness/translate_candgraph.py on the scratch sources into a scratch Coq tree (Base/, Model/ and the
compiled Proofs/CandGraphProofs.* are symlinked from /verif/coq; nothing under /verif or /repo is written),
compile the generated file and a copy of the tie file.  Expected: a semantic change makes the translator
raise Unsupported (the generated file then does not type-check) or makes the tie fail to compile; comment-only
changes and renamings of local variables keep everything compiling.  The scratch directory is removed.

usage: /venv/bin/python harness/selftest_candgraph.py [substring of case names ..]
"""
import os
import shutil
import subprocess
import sys
import tempfile

sys.path.insert(0, os.path.dirname(os.path.abspath(__file__)))
import translate_candgraph as TC  # noqa: E402

COQ = "/verif/coq"
UT = "src/funtracks/candidate_graph/utils.py"
IOU = "src/funtracks/candidate_graph/iou.py"
CG = "src/funtracks/candidate_graph/compute_graph.py"

LOOP_FIXED = """    frames = sorted(node_frame_dict.keys())
    for frame in tqdm(frames):
        if frame + 1 not in node_frame_dict:
            continue
        prev_node_ids = node_frame_dict[frame]
        prev_kdtree = create_kdtree(cand_graph, prev_node_ids)
        next_node_ids = node_frame_dict[frame + 1]
        next_kdtree = create_kdtree(cand_graph, next_node_ids)
"""
LOOP_TAIL = """                next_node_id = next_node_ids[next_node_index]
                cand_graph.add_edge(prev_node_id, next_node_id)
"""
# the loop of the pinned tree (before fix 715feee): previous-frame ids and KD-tree carried across iterations and
# advanced only after a linked pair, so they survive an empty frame
LOOP_PINNED = """    frames = sorted(node_frame_dict.keys())
    prev_node_ids = node_frame_dict[frames[0]]
    prev_kdtree = create_kdtree(cand_graph, prev_node_ids)
    for frame in tqdm(frames):
        if frame + 1 not in node_frame_dict:
            continue
        next_node_ids = node_frame_dict[frame + 1]
        next_kdtree = create_kdtree(cand_graph, next_node_ids)
"""
TAIL_PINNED = LOOP_TAIL + """
        prev_node_ids = next_node_ids
        prev_kdtree = next_kdtree
"""
# the KD-tree alone is stale: ids are re-read every iteration, the tree only when the previous frame was linked
LOOP_STALE_TREE = """    frames = sorted(node_frame_dict.keys())
    prev_kdtree = create_kdtree(cand_graph, node_frame_dict[frames[0]])
    for frame in tqdm(frames):
        if frame + 1 not in node_frame_dict:
            continue
        prev_node_ids = node_frame_dict[frame]
        next_node_ids = node_frame_dict[frame + 1]
        next_kdtree = create_kdtree(cand_graph, next_node_ids)
"""
TAIL_STALE_TREE = LOOP_TAIL + """
        prev_kdtree = next_kdtree
"""
LOOP_SKIP_GAP = """    frames = sorted(node_frame_dict.keys())
    for frame in tqdm(frames):
        nxt = frame + 1
        if nxt not in node_frame_dict:
            nxt = frame + 2
        if nxt not in node_frame_dict:
            continue
        prev_node_ids = node_frame_dict[frame]
        prev_kdtree = create_kdtree(cand_graph, prev_node_ids)
        next_node_ids = node_frame_dict[nxt]
        next_kdtree = create_kdtree(cand_graph, next_node_ids)
"""
LOOP_NO_CONTINUE = """    frames = sorted(node_frame_dict.keys())
    for frame in tqdm(frames):
        prev_node_ids = node_frame_dict[frame]
        prev_kdtree = create_kdtree(cand_graph, prev_node_ids)
        next_node_ids = node_frame_dict[frame + 1]
        next_kdtree = create_kdtree(cand_graph, next_node_ids)
"""


def rename(txt, pairs):
    import re
    for a, b in pairs:
        txt = re.sub(r"\b%s\b" % a, b, txt)
    return txt


# (name, [(file, old, new) | (file, callable)], expectation)
CASES = [
    ("baseline (no change)", [], "ok"),
    ("comment-only / docstring / layout changes in all three files",
     [(UT, "    frames = sorted(node_frame_dict.keys())\n", "    # the populated frames, ascending\n    frames = sorted(\n        node_frame_dict.keys()\n    )  # a list\n"),
      (IOU, "    # get indices where both are not zero (ignore background)\n", "    # positions at which neither frame is background\n\n"),
      (CG, "    # add nodes\n    cand_graph, node_frame_dict = nodes_from_points_list", "    # nodes first, then the edges\n    cand_graph, node_frame_dict = nodes_from_points_list")], "ok"),
    ("local variables renamed in add_cand_edges, _compute_ious, nodes_from_points_list",
     [(UT, lambda t: rename(t, [("prev_node_ids", "src_ids"), ("next_node_index", "j"), ("matched_indices", "hits"), ("frames", "ts"),
                                ("next_kdtree", "tree_b"), ("node_id", "nid"), ("point", "row")])),
      (IOU, lambda t: rename(t, [("non_zero_indices", "both"), ("flattened_stacked", "cols"), ("intersection", "inter"), ("id1", "a"), ("id2", "b"),
                                 ("next_nodes", "succ")]))], "ok"),
    ("logging / tqdm only: extra logger.debug line, tqdm wrapper dropped",
     [(UT, "    for frame in tqdm(frames):\n", "    logger.debug(\"linking consecutive frames\")\n    for frame in frames:\n")], "ok"),
    # ---- the frame loop of add_cand_edges
    ("add_cand_edges: pinned tree (prev ids + KD-tree carried across iterations, kept across an empty frame)",
     [(UT, LOOP_FIXED, LOOP_PINNED), (UT, LOOP_TAIL, TAIL_PINNED)], "broken"),
    ("add_cand_edges: KD-tree of the previous iteration reused without invalidation across an empty frame",
     [(UT, LOOP_FIXED, LOOP_STALE_TREE), (UT, LOOP_TAIL, TAIL_STALE_TREE)], "broken"),
    ("add_cand_edges: frame t linked to t+2 across a gap", [(UT, LOOP_FIXED, LOOP_SKIP_GAP)], "broken"),
    ("add_cand_edges: the `continue` for a missing next frame dropped", [(UT, LOOP_FIXED, LOOP_NO_CONTINUE)], "broken"),
    ("add_cand_edges: links frame t to t+2 instead of t+1",
     [(UT, "        if frame + 1 not in node_frame_dict:\n            continue\n        prev_node_ids", "        if frame + 2 not in node_frame_dict:\n            continue\n        prev_node_ids"),
      (UT, "        next_node_ids = node_frame_dict[frame + 1]\n", "        next_node_ids = node_frame_dict[frame + 2]\n")], "broken"),
    ("add_cand_edges: edges reversed", [(UT, "cand_graph.add_edge(prev_node_id, next_node_id)", "cand_graph.add_edge(next_node_id, prev_node_id)")], "broken"),
    ("add_cand_edges: query in the other direction (next tree queried with the prev tree)",
     [(UT, "prev_kdtree.query_ball_tree(next_kdtree, max_edge_distance)", "next_kdtree.query_ball_tree(prev_kdtree, max_edge_distance)")], "broken"),
    ("add_cand_edges: `if node_frame_dict is None` instead of `if not node_frame_dict` (an empty dict is no longer recomputed)",
     [(UT, "    if not node_frame_dict:\n        node_frame_dict = _compute_node_frame_dict(cand_graph)\n\n    frames",
       "    if node_frame_dict is None:\n        node_frame_dict = _compute_node_frame_dict(cand_graph)\n\n    frames")], "broken"),
    ("add_cand_edges: only the first match of every node is linked",
     [(UT, "                cand_graph.add_edge(prev_node_id, next_node_id)\n", "                cand_graph.add_edge(prev_node_id, next_node_id)\n                break\n")], "broken"),
    ("create_kdtree: built from the times instead of the positions", [(UT, 'cand_graph.nodes[node]["pos"] for node', 'cand_graph.nodes[node]["time"] for node')], "broken"),
    ("_compute_node_frame_dict: the list of a frame is overwritten instead of extended",
     [(UT, "        node_frame_dict[t].append(node)\n    return node_frame_dict", "        node_frame_dict[t] = [node]\n    return node_frame_dict")], "broken"),
    # ---- points
    ("nodes_from_points_list: time coordinate kept in the position", [(UT, "pos = list(point[1:])", "pos = list(point)")], "broken"),
    ("nodes_from_points_list: ids start at 1", [(UT, "        node_id = i\n", "        node_id = i + 1\n")], "broken"),
    ("nodes_from_points_list: scale assertion dropped",
     [(UT, "        assert len(scale) == points_list.shape[1], (\n            f\"Cannot scale points with {points_list.shape[1]} dims by factor {scale}\"\n        )\n", "")], "broken"),
    ("compute_graph_from_points_list: node_frame_dict not passed on (recomputed: same graph, other code path)",
     [(CG, "    add_cand_edges(\n        cand_graph,\n        max_edge_distance=max_edge_distance,\n        node_frame_dict=node_frame_dict,\n    )\n    return cand_graph",
       "    add_cand_edges(\n        cand_graph,\n        max_edge_distance=max_edge_distance,\n    )\n    return cand_graph")], "ok-or-broken"),
    # ---- IoU
    ("_compute_ious: union replaced by the area of the first mask",
     [(IOU, "union = frame1_label_sizes[id1] + frame2_label_sizes[id2] - intersection", "union = frame1_label_sizes[id1]")], "broken"),
    ("_compute_ious: intersection not subtracted from the union",
     [(IOU, "union = frame1_label_sizes[id1] + frame2_label_sizes[id2] - intersection", "union = frame1_label_sizes[id1] + frame2_label_sizes[id2]")], "broken"),
    ("_compute_ious: overlap found by the product of the frames (np.flatnonzero(frame1 * frame2))",
     [(IOU, "non_zero_indices = np.logical_and(frame1, frame2)", "non_zero_indices = np.flatnonzero(frame1 * frame2)")], "broken"),
    ("_compute_ious: sizes of frame 2 looked up in frame 1's table",
     [(IOU, "frame2_label_sizes = dict(zip(frame2_values, frame2_counts, strict=True))", "frame2_label_sizes = dict(zip(frame1_values, frame1_counts, strict=True))")], "broken"),
    ("_get_iou_dict: last frame pair skipped", [(IOU, "range(segmentation.shape[1] - 1)", "range(segmentation.shape[1] - 2)")], "broken"),
    ("_get_iou_dict: same frame compared with itself", [(IOU, "seg2 = segmentation[hypo2][frame + 1]", "seg2 = segmentation[hypo2][frame]")], "broken"),
    ("_get_iou_dict: inner dict replaced instead of updated",
     [(IOU, "                iou_dict[label1][label2] = iou\n", "                iou_dict[label1] = {label2: iou}\n")], "broken"),
    ("add_iou: default IoU 1 instead of 0", [(IOU, ".get(next_id, 0)", ".get(next_id, 1)")], "broken"),
    ("add_iou: written without the edge check", [(IOU, "                if (node_id, next_id) in cand_graph.edges:\n                    cand_graph", "                if True:\n                    cand_graph")], "broken"),
    ("add_iou: `continue` for a missing next frame dropped",
     [(IOU, "        if frame + 1 not in node_frame_dict:\n            continue\n        next_nodes", "        next_nodes")], "broken"),
    # ---- segmentation
    ("nodes_from_segmentation: duplicate-label check dropped",
     [(UT, "            if node_id in cand_graph.nodes:\n                raise ValueError(\"Duplicate values found among nodes\")\n", "")], "broken"),
    ("nodes_from_segmentation: empty frames registered too",
     [(UT, "        if nodes_in_frame:\n            if t not in node_frame_dict:\n                node_frame_dict[t] = []\n            node_frame_dict[t].extend(nodes_in_frame)\n",
       "        if t not in node_frame_dict:\n            node_frame_dict[t] = []\n        node_frame_dict[t].extend(nodes_in_frame)\n")], "broken"),
    ("nodes_from_segmentation: time attribute off by one", [(UT, 'attrs = {"time": t, "area": regionprop.area}', 'attrs = {"time": t + 1, "area": regionprop.area}')], "broken"),
    ("compute_graph_from_seg: IoU added although iou=False", [(CG, "    if iou:\n        # Scale", "    if True:\n        # Scale")], "broken"),
]


def sh(cmd, cwd):
    p = subprocess.run(cmd, cwd=cwd, stdout=subprocess.PIPE, stderr=subprocess.STDOUT, text=True, timeout=900)
    return p.returncode, p.stdout


def scratch_coq(root):
    c = os.path.join(root, "coq")
    os.makedirs(os.path.join(c, "Gen"))
    os.makedirs(os.path.join(c, "Proofs"))
    for d in ("Base", "Model"):
        os.symlink(os.path.join(COQ, d), os.path.join(c, d))
    for f in os.listdir(os.path.join(COQ, "Proofs")):
        if f.startswith("CandGraphProofs."):
            os.symlink(os.path.join(COQ, "Proofs", f), os.path.join(c, "Proofs", f))
    shutil.copy(os.path.join(COQ, "Proofs", "CandGraphTie.v"), os.path.join(c, "Proofs", "CandGraphTie.v"))
    return c


def first_error(out):
    ls = [l for l in out.split("\n") if l.strip()]
    for i, l in enumerate(ls):
        if l.startswith("Error"):
            return " ".join(x.strip() for x in ls[max(0, i - 1):i + 3])[:300]
    return " ".join(ls[:3])[:300]


def main(argv):
    root = tempfile.mkdtemp(prefix="selftest_candgraph_", dir="/tmp")
    bad = 0
    n_closed = None
    try:
        for name, edits, expect in CASES:
            if argv and not any(a in name for a in argv):
                continue
            repo = os.path.join(root, "repo")
            shutil.rmtree(repo, ignore_errors=True)
            shutil.copytree("/repo/src", os.path.join(repo, "src"))
            for e in edits:
                path = os.path.join(repo, e[0])
                txt = open(path).read()
                if callable(e[1]):
                    new = e[1](txt)
                    assert new != txt, (name, "edit without effect")
                else:
                    assert txt.count(e[1]) == 1, (name, e[1], txt.count(e[1]))
                    new = txt.replace(e[1], e[2])
                open(path, "w").write(new)
            shutil.rmtree(os.path.join(root, "coq"), ignore_errors=True)
            c = scratch_coq(root)
            ok, msg = TC.regenerate(out=os.path.join(c, "Gen", "CandGraph_gen.v"), repo=repo)
            rc1, out1 = sh(["coqc", "-Q", ".", "FT", "Gen/CandGraph_gen.v"], c)
            rc2, out2 = (1, "(generated file did not compile)") if rc1 else sh(["coqc", "-Q", ".", "FT", "Proofs/CandGraphTie.v"], c)
            closed = out2.count("Closed under the global context")
            if not ok and rc1 == 0:
                got, why = "ok", "TRANSLATOR FAILED BUT THE FAILURE FILE TYPE-CHECKS"
                expect = "never"
            elif not ok:
                got, why = "broken", "translator: Unsupported: " + msg[:260]
            elif rc1:
                got, why = "broken", "generated file does not compile: " + first_error(out1)
            elif rc2:
                got, why = "broken", "tie does not compile: " + first_error(out2)
            else:
                got, why = "ok", "translated, generated file and tie compile (%d x Closed under the global context)" % closed
                if n_closed is None:
                    n_closed = closed
                elif closed != n_closed:
                    got, why = "broken", "number of closed theorems differs from the baseline"
            good = got == expect or (expect == "ok-or-broken")
            bad += not good
            print("[%s] %s\n      -> %s" % ("as expected" if good else "UNEXPECTED", name, why), flush=True)
    finally:
        shutil.rmtree(root, ignore_errors=True)
    print("scratch directory removed:", not os.path.exists(root))
    print("RESULT:", "all as expected" if not bad else "%d UNEXPECTED" % bad)
    return 1 if bad else 0


if __name__ == "__main__":
    sys.exit(main(sys.argv[1:]))
