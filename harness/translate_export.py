"""Fail-closed translator for the EXPORT side (properties C15, C14, C16)

    src/funtracks/import_export/csv/_export.py       export_to_csv
    src/funtracks/import_export/geff/_export.py      export_to_geff, split_position_attr
    src/funtracks/features/_feature_dict.py          FeatureDict.__init__, dump_json, from_json
    src/funtracks/import_export/internal_format.py   _save_seg, _save_attrs
                                                            ->  coq/Gen/ExportPipeline_gen.v

One Gallina definition `gen_<f>` per Python function: a shallow embedding in the exception / control
monad of Model/PyRt2.v over the combinators of Model/PyRt7.v and the data representation of the hand
models Model/SubsetExport.v and Model/RoundTrip.v.  Proofs/ExportTie.v proves the generated
definitions equal to the hand-written model functions, so a change of the Python changes the generated
text and un-hooks the tie.  Anything not listed below raises `Unsupported(<file>:<line>: ...)` and the
file written then does not type-check; nothing is guessed.  TRUSTED: this table, the signature table
SIGS, the emitter below and Model/PyRt7.v (+ PyRt2.v).

DATA REPRESENTATION (translator type -> Gallina)
  int str float path dtype    python int / interned string / opaque float token / path token / numpy dtype     Z
  bool                                                                                                          bool
  cell        a DataFrame cell / the value of a row dict; "" and NaN are None                                   option Z
  list T, tuple[T, ...], (e,)   homogeneous sequences                                                           list T
  (a, b) (a, b, c)              fixed tuples                                                                    A * B * C
  dict[str, T]                  insertion ordered                                                               Base/Dict.v  dict T
  T | None                                                                                                      option T
  posopt      str | list[str] | None   (FeatureDict.position_key)                                               option RoundTrip.poskey
  colspec     str | list[str]          (values of the local column_map)                                         PyRt7.colspec
  value       a node attribute value = the list of its scalar tokens (scalar = singleton)                       list Z
  tracks graph features table json    RoundTrip.graph / feature_dict / table / json, PyRt7.tracks
  ndarray barray zarr meta slices     PyRt7.ndarray / barray / zarr / geff_meta;  a tuple of slice(lo, hi) = list (Z * Z)
  A function that writes files returns (value, list event): the events in program order (PyRt7.event); a zarr
  array the function created is reported as EvZarr z when the function returns (its final content).

SKIPPED (no effect on the value computed; nothing else is skipped)
  docstrings; type annotations (parameters, results, `x: T` without value; `x: T = e` is `x = e`, T only types an
  empty literal: list[str] dict[str, Any] (Any = cell) dict[str, str | list[str]] tuple[int, ...] Literal[..]);
  `typing.cast(T, e)` is e; the module imports listed per module (so np / pd / nx / geff / ... mean what this
  table says; re-binding one of those names anywhere in the module is Unsupported).

STATIC PARAMETERS  export_to_csv is translated for color_dict=None, use_display_names=False (the configuration the
  hand models describe): tests on them are decided at translation time and the dead branches are not looked at.

CLOSED IDIOM TABLE          Python                                        Gallina
 -- statements
  x = e  |  x: T = e                                                      let v_x := e in ..
  a, b = f(..)   x = f(..)   f(..)      (f translated)                    bind (gen_f ..) (fun '(v_a, v_b) => ..)   (+ events appended)
  def g(v): if c: return a elif ..: return b; return v   (pure)            let v_g := fun v_v => if c then a else .. in ..
  d[k] = e          (local dict)                                          let v_d := set k e v_d in ..      (rhs evaluated first)
  l.append(e) | l.extend(e) | l.insert(0, e)     (local list)             v_l ++ [e] | v_l ++ e | py_insert0 e v_l
  z[slices] = a  |  z[:] = a            (z a zarr array created here)      bind (zarr_setitem v_z s a | zarr_setall v_z a) (fun v_z => ..
  metadata.related_objects = [{"path": "../segmentation", "type": "labels", "label_prop": "seg_id"}]
                                                                          let v_metadata := GeffMeta true in ..
  if c: A else: B ; rest                                                  if c then <A; rest> else <B; rest>     (rest duplicated)
  if/elif/else whose branches are one pure `x = e` each                   let v_x := if c then e1 else if .. in ..
  if <test on X>, X : T | None or posopt, X a variable or one of          match X with None => .. | Some v => .. end  (one arm per
     tracks.segmentation / tracks.scale / X.position_key                  alternative; inside an arm every `is None` / `is not None` /
                                                                          isinstance(X, str | list) on X is decided statically)
  for pat in it: body ; rest                                              py_for it (<vars>) (fun pat '(<vars>) => body) (fun '(<vars>) => rest)
        <vars> = the variables assigned / modified in body that exist before the loop, in order of first
        binding; variables first bound in the body are local to one iteration
  for _, attrs in G.nodes(data=True): body      (G a graph copy owned by      bind (nx_for_node_attrs v_G (fun v_attrs => body_res (body)))
        the function; body modifies only attrs, no break / continue / return)       (fun v_G => ..
  continue | end of loop body ; break ; return e ; end of a function      Cont vars ; Brk vars ; Ret e ; Ret tt      (with IO: Ret (e, events))
  raise KeyError(..)                    (message not modelled)            Exn KeyError
  df.to_csv(outfile, index=False)                                         events ++ [EvCsv outfile df]
  tifffile.imwrite(p, a, compression="deflate")                           events ++ [EvTif p a]
  setup_zarr_group(p, zarr_format=f, mode=m)                              events ++ [EvZarrGroup p f m]
  geff.write(graph=, store=, metadata=, axis_names=, axis_types=, axis_scales=, overwrite=, zarr_format=)
                                                                          events ++ [EvGeff store graph metadata names types scales overwrite format]
  np.save(p, a)                                                           events ++ [EvNpy p a]
  with open(p, "w") as f: json.dump(j, f)                                 events ++ [EvJson p j]
  super().__init__(features); self.time_key = time_key; self.position_key = ..; self.tracklet_key = ..;
  self.lineage_key = ..    (the first five statements of FeatureDict.__init__)       let v_self := fd_new features time_key .. in ..
 -- expressions (a raising step is bound first, in evaluation order; inside `a if c else b` with rbind)
  x ; 0 1 .. ; "s" ; True False ; (a, b) ; [e1, ..] ; [] {}               v_x ; 0 1 .. ; code of s (string table) ; (a, b) ; [e1; ..] ; []
  ""                                    (the empty cell)                   None
  a + b  a - b    (ints)      l + m  l * n  (lists)                       a + b  a - b        l ++ m  py_list_repeat l n
  a == b  a <= b  a > b  (ints / str)                                     =?  <=?  >?
  not c ; c1 and c2 ; k in d ; k not in d                                  negb ; && ; haskey k d ; negb (haskey k d)
  a if c else b                                                           if c then a else b      (arms coerced to one type)
  len(l)  min(a, b)  range(n)  range(lo, hi, step)                        py_len l  Z.min a b  py_range n  py_range_step lo hi step   (ValueError)
  list(e)  tuple(e)   (e a sequence)    l[:n]   l[i]                      e       py_slice_to l n      list_get l i   (IndexError)
  d[k]   x = d.pop(k)                   (local dict)                      dict_get k d  (KeyError)     bind (dict_pop k v_d) (fun '(v_x, v_d) => ..   (KeyError)
  column_map[k] used as a key / in cast(str, ..) ; iterated                col_as_str ; col_as_list          (TypeError)
  zip(a, b, strict=True)  zip(a, b, c, strict=True)                        py_zip_strict  py_zip3_strict     (ValueError)
  itertools.product(*ls)                                                  itertools_product ls
  [e for pat in it]  tuple(e for pat in it)                               map (fun pat => e) it   |  mapM when e is one raising step
  {k: e for k, v in d.items()}          (key = the iteration key)          dict_map_values (fun k v => e) d
  slice(a, b)                                                             (a, b)
  isinstance(v, (np.float64, np.float32, np.float16)) / (np.int64, np.int32, np.int16)     np_is_float v / np_is_int v   (Section variables)
  float(v)  int(v)   (v a scalar token)                                   py_float v   py_int_of_np v
  int(c)             (c a cell)                                           py_int_cell c       (ValueError)
  tracks.graph .ndim .scale .segmentation .features                       t_graph t_ndim t_scale t_seg t_features
  F.time_key .position_key .tracklet_key .lineage_key   (F features)      fd_time fd_pos fd_tracklet fd_lineage
  F.items()   k in F          (F a FeatureDict)                           fd_features F      haskey k (fd_features F)
  tracks.get_time(n)  .get_track_id(n)  .get_position(n)                  tracks_get_time / _track_id / _position   (KeyError / ValueError / TypeError)
  G.nodes()   list(G.predecessors(n))                                     nx_nodes G      nx_predecessors G n    (NetworkXError)
  G.copy()    G.subgraph(keep).copy()                                     nx_copy G       nx_subgraph_copy G keep
  filter_graph_with_ancestors(G, ids)                                     SubsetUtils_gen.gen_filter_graph_with_ancestors (nx_structure G) ids   (raising)
  pd.DataFrame(rows, columns=header)  len(df)  df[c]  s.max()             pd_DataFrame  df_len  df_getitem (KeyError)  series_max
  np.uint8 .. np.uint64 ; np.iinfo(T).max ; np.array(s) ; np.array(s, dtype=T)     np_uint8 .. ; np_iinfo_max T ; np_array_col s ; np_array_col_dtype s T (ValueError)
  map_array(a, iv, ov)                                                    sk_map_array a iv ov
  a.shape  a.dtype  a[slices]  np.asarray(l)  np.isin(a, l)  np.where(m, a, 0)     a_shape  a_dtype  np_getitem_slices (IndexError)  np_asarray  np_isin  np_where_scalar (ValueError)
  setup_zarr_array(p, zarr_format=f, shape=s, dtype=t, chunks=c)          setup_zarr_array p f s t c
  remove_tilde(p)  p.resolve(strict=False)  p / "name"  p / CONST         remove_tilde p   path_resolve p   path_join p code      (Section variables: uninterpreted)
  GeffMetadata(geff_version=geff_spec.__version__, directed=isinstance(graph, nx.DiGraph), node_props_metadata={}, edge_props_metadata={})
                                                                          GeffMeta false
  j[k]  j.get(k)              (j json)                                    json_getitem  json_get                (KeyError / TypeError)
  {"k1": e1, ..}  where a json value is built                             JObj [(code k1, <e1 as json>); ..]     (str -> JAtom, str|None -> enc_opt, posopt -> enc_pos,
                                                                          int -> JAtom, dict of json -> JObj, list|None of floats -> JList / JNull)
  dict(v)   (v a Feature, kept as its json object)                        py_dict_copy v
  cls(features=, time_key=, position_key=, tracklet_key=, lineage_key=)   bind (gen_FeatureDict_init ..)  with the json arguments first converted by
                                                                          json_as_obj / json_as_str / json_as_poskey / json_as_opt_str   (TypeError)
  tracks.scale.tolist() if isinstance(tracks.scale, np.ndarray) else tracks.scale  (either order)      t_scale tracks   (a list and an array of floats are one representation)

ALIAS / MUTATION DISCIPLINE (checked; what makes the value semantics of the embedding sound).
  * `tracks` and everything reached from it is READ ONLY: an assignment to an attribute or an item of a parameter or of
    a value reached from a parameter (tracks.scale = .., seg_data[..] = .., tracks.graph.nodes[n][k] = ..), and any
    method call outside the table, is Unsupported;
  * M = the local variables modified in place (item assignment, append / extend / insert, zarr item assignment).
    Every binding of a variable of M has a fresh right-hand side (literal, comprehension, list(..), G.copy(),
    setup_zarr_array(..), GeffMetadata(..), a fresh result of a translated function); a variable of M never occurs as a bare
    right-hand side; it may be stored (`rows.append(row)`) only as the last statement of a loop body whose first
    statement mentioning it re-binds it to a fresh value;
  * the iterable of a `for` does not mention a variable assigned or modified in its body; loop targets are new
    names and are not modified (except the attrs target of the nodes(data=True) idiom).
"""
from __future__ import annotations

import ast
import hashlib
import os
import sys

HERE = os.path.dirname(os.path.abspath(__file__))
ROOT = os.path.dirname(HERE)
OUT = os.path.join(ROOT, "coq", "Gen", "ExportPipeline_gen.v")
REL_CSV = "src/funtracks/import_export/csv/_export.py"
REL_GEFF = "src/funtracks/import_export/geff/_export.py"
REL_FD = "src/funtracks/features/_feature_dict.py"
REL_INT = "src/funtracks/import_export/internal_format.py"


def repo_root():
    return os.environ.get("VERIF_REPO", "/repo")


class Unsupported(Exception):
    pass


# ------------------------------------------------------------------ types
def L(t):
    return ("list", t)


def D(t):
    return ("dict", t)


def O(t):
    return ("opt", t)


def T(*ts):
    return ("tuple", tuple(ts))


NONE = ("none",)
VALUE = L("int")
ATTRS = D(VALUE)
ROW = D("cell")
SLICE = T("int", "int")
SIMPLE = {"int": "Z", "str": "Z", "float": "Z", "path": "Z", "dtype": "Z", "bool": "bool", "cell": "cell", "unit": "unit",
          "tracks": "tracks", "graph": "graph", "features": "feature_dict", "table": "table", "json": "json",
          "colspec": "colspec", "ndarray": "ndarray", "barray": "barray", "zarr": "zarr", "meta": "geff_meta",
          "event": "event", "posopt": "option poskey", "?": "unit"}
IMMUT = ("int", "str", "float", "path", "dtype", "bool", "cell", "unit", "tracks", "graph", "features", "table",
         "ndarray", "barray", "meta", "posopt", "colspec")


def par(s):
    return s if " " not in s else "(%s)" % s


def gty(t):
    if t in SIMPLE:
        return SIMPLE[t]
    if t == NONE:
        return "option unit"
    k = t[0]
    if k == "list":
        return "list %s" % par(gty(t[1]))
    if k == "dict":
        return "dict %s" % par(gty(t[1]))
    if k == "opt":
        return "option %s" % par(gty(t[1]))
    if k == "tuple":
        return " * ".join(par(gty(x)) for x in t[1])
    raise Unsupported("internal: no Coq type for %r" % (t,))


def immutable(t):
    if t in IMMUT or t == NONE:
        return True
    if isinstance(t, tuple) and t[0] == "tuple":
        return all(immutable(x) for x in t[1])
    if isinstance(t, tuple) and t[0] == "opt":
        return immutable(t[1])
    return False


def unify(a, b):
    """most specific common type; '?' = element type of an empty literal; None if there is none"""
    if a == "?":
        return b
    if b == "?":
        return a
    if a == b:
        return a
    if isinstance(a, tuple) and isinstance(b, tuple) and a[0] == b[0] and a[0] != "none":
        if a[0] == "tuple":
            if len(a[1]) != len(b[1]):
                return None
            xs = [unify(x, y) for x, y in zip(a[1], b[1])]
            return None if None in xs else ("tuple", tuple(xs))
        x = unify(a[1], b[1])
        return None if x is None else (a[0], x)
    return None


def is_union(t):
    return t == "posopt" or (isinstance(t, tuple) and t[0] == "opt")


def alternatives(t):
    """(constructor pattern with {v}, refined type) for a union type"""
    if t == "posopt":
        return [("None", NONE), ("Some (PSingle {v})", "str"), ("Some (PMulti {v})", L("str"))]
    return [("None", NONE), ("Some {v}", t[1])]


# ------------------------------------------------------------------ string table (trusted)
STRINGS = {"t": "C_t", "z": "K_z", "y": "K_y", "x": "K_x", "id": "K_id", "parent_id": "K_parent", "track_id": "K_track",
           "coords": "K_coords", "w": "S_w", "w-": "S_w_minus", "space": "S_space", "segmentation": "S_segmentation",
           "tracks": "S_tracks", "FeatureDict": "J_FeatureDict", "time_key": "J_time_key", "position_key": "J_position_key",
           "tracklet_key": "J_tracklet_key", "lineage_key": "J_lineage_key", "scale": "J_scale", "ndim": "J_ndim"}
# "time" is a dict KEY in column_map (K_time) and an axis-type VALUE in export_to_geff (S_time_axis);
# "features" is J_features inside dump_json / from_json and J_features_attr in attrs.json
STRINGS_BY_FUNC = {"export_to_csv": {"time": "K_time"}, "export_to_geff": {"time": "S_time_axis"},
                   "dump_json": {"features": "J_features"}, "from_json": {"features": "J_features"},
                   "_save_attrs": {"features": "J_features_attr"}}
MODULE_CONSTS = {"SEG_FILE": ("seg.npy", "S_seg_npy"), "ATTRS_FILE": ("attrs.json", "S_attrs_json")}

# ------------------------------------------------------------------ signature table (trusted)
# params: (name, type); static: name -> the constant the parameter is specialised to; defaults: name -> python constant
SIGS = {
    "export_to_csv": dict(
        params=[("tracks", "tracks"), ("outfile", "path"), ("node_ids", O(L("int"))), ("export_seg", "bool"),
                ("seg_path", O("path"))],
        order=["tracks", "outfile", "color_dict", "node_ids", "use_display_names", "export_seg", "seg_path"],
        static={"color_dict": None, "use_display_names": False},
        defaults={"color_dict": None, "node_ids": None, "use_display_names": False, "export_seg": False, "seg_path": None},
        ret="unit", io=True),
    "split_position_attr": dict(params=[("tracks", "tracks")], order=["tracks"], static={}, defaults={},
                                ret=T("graph", O(L("str"))), fresh=(False, True), io=False),
    "export_to_geff": dict(
        params=[("tracks", "tracks"), ("directory", "path"), ("overwrite", "bool"), ("node_ids", O(L("int"))),
                ("zarr_format", "int")],
        order=["tracks", "directory", "overwrite", "node_ids", "zarr_format"], static={},
        defaults={"overwrite": False, "node_ids": None, "zarr_format": 2}, ret="unit", io=True),
    "__init__": dict(
        params=[("features", D("json")), ("time_key", "str"), ("position_key", "posopt"), ("tracklet_key", O("str")),
                ("lineage_key", O("str"))],
        order=["self", "features", "time_key", "position_key", "tracklet_key", "lineage_key"], static={},
        defaults={"lineage_key": None}, ret="features", io=False, gen="gen_FeatureDict_init"),
    "dump_json": dict(params=[("self", "features")], order=["self"], static={}, defaults={}, ret="json", io=False,
                      gen="gen_dump_json"),
    "from_json": dict(params=[("json_dict", "json")], order=["cls", "json_dict"], static={}, defaults={},
                      ret="features", io=False, gen="gen_from_json", classmethod=True),
    "_save_seg": dict(params=[("tracks", "tracks"), ("directory", "path")], order=["tracks", "directory"], static={},
                      defaults={}, ret="unit", io=True),
    "_save_attrs": dict(params=[("tracks", "tracks"), ("directory", "path")], order=["tracks", "directory"], static={},
                        defaults={}, ret="unit", io=True),
}
# (file, [functions in source order], class name or None, required imports)
MODULES = [
    (REL_CSV, ["export_to_csv"], None,
     ["from typing import TYPE_CHECKING, Any, cast", "import numpy as np", "import pandas as pd", "import tifffile",
      "from skimage.util import map_array", "from .._utils import filter_graph_with_ancestors"]),
    (REL_GEFF, ["split_position_attr", "export_to_geff"], None,
     ["import itertools", "import geff", "import geff_spec", "import networkx as nx", "import numpy as np",
      "from geff_spec import GeffMetadata", "from funtracks.utils import remove_tilde, setup_zarr_array, setup_zarr_group",
      "from .._utils import filter_graph_with_ancestors"]),
    (REL_FD, ["__init__", "dump_json", "from_json"], "FeatureDict", []),
    (REL_INT, ["_save_seg", "_save_attrs"], None,
     ["import json", "import numpy as np", "from funtracks.features import FeatureDict"]),
]
KNOWN_IMPORTS = {i for m in MODULES for i in m[3]}
RESERVED = {"np", "pd", "nx", "geff", "geff_spec", "GeffMetadata", "tifffile", "map_array", "itertools", "json",
            "filter_graph_with_ancestors", "remove_tilde", "setup_zarr_array", "setup_zarr_group", "cast", "Any", "len", "list",
            "tuple", "dict", "set", "int", "float", "min", "max", "range", "zip", "slice", "isinstance", "open", "super",
            "str", "FeatureDict", "SEG_FILE", "ATTRS_FILE", "GRAPH_FILE"}
MUT_METHODS = ("append", "extend", "insert")
REL_SEG_LITERAL = "[{'path': '../segmentation', 'type': 'labels', 'label_prop': 'seg_id'}]"
GEFF_META_CALL = ("GeffMetadata(geff_version=geff_spec.__version__, directed=isinstance(graph, nx.DiGraph), "
                  "node_props_metadata={}, edge_props_metadata={})")
NP_FLOATS = "(np.float64, np.float32, np.float16)"
NP_INTS = "(np.int64, np.int32, np.int16)"
NP_DTYPES = {"uint8": "np_uint8", "uint16": "np_uint16", "uint32": "np_uint32", "uint64": "np_uint64"}
CMP = {ast.Eq: "=?", ast.LtE: "<=?", ast.Gt: ">?", ast.Lt: "<?", ast.GtE: ">=?"}


def is_name(n, ident=None):
    return isinstance(n, ast.Name) and (ident is None or n.id == ident)


def is_attr(n, attr):
    return isinstance(n, ast.Attribute) and n.attr == attr


def is_call(n, fname=None):
    return isinstance(n, ast.Call) and (fname is None or is_name(n.func, fname))


def const(n, v):
    return isinstance(n, ast.Constant) and type(n.value) is type(v) and n.value == v


def un(n):
    return ast.unparse(n)


def const_none(n):
    return isinstance(n, ast.Constant) and n.value is None


def par_code(c):
    return c if (" " not in c or (c[0] in "([" and c[-1] in ")]")) else "(%s)" % c


# attribute chains that are read-only views of a parameter: chain text -> (code builder, type)
def chain_of(n):
    """`a.b.c` as a list of names, or None"""
    out = []
    while isinstance(n, ast.Attribute):
        out.append(n.attr)
        n = n.value
    if isinstance(n, ast.Name):
        out.append(n.id)
        return list(reversed(out))
    return None


TRACKS_ATTRS = {"graph": ("t_graph", "graph"), "ndim": ("t_ndim", "int"), "scale": ("t_scale", O(L("float"))),
                "segmentation": ("t_seg", O("ndarray")), "features": ("t_features", "features")}
FEATURE_ATTRS = {"time_key": ("fd_time", "str"), "position_key": ("fd_pos", "posopt"), "tracklet_key": ("fd_tracklet", O("str")),
                 "lineage_key": ("fd_lineage", O("str"))}
ARRAY_ATTRS = {"shape": ("a_shape", L("int")), "dtype": ("a_dtype", "dtype")}


class Translator:
    def __init__(self, rel):
        self.rel = rel
        self.tmp = 0
        self.translated = {}      # function name -> sig, once emitted (calls must come after definitions)
        self.module_consts = {}

    # ---------------------------------------------------------------- errors / names
    def fail(self, node, why):
        raise Unsupported("%s:%s: %s: %s" % (self.rel, getattr(node, "lineno", "?"), why, ast.dump(node)[:160] if isinstance(node, ast.AST) else node))

    def fresh(self):
        self.tmp += 1
        return "t%d" % self.tmp

    def string(self, s, node):
        tab = STRINGS_BY_FUNC.get(self.fname, {})
        if s in tab:
            return tab[s]
        if s in STRINGS:
            return STRINGS[s]
        self.fail(node, "string constant %r not in the string table" % s)

    # ---------------------------------------------------------------- analysis
    def store_root(self, t):
        """the variable an item / attribute assignment goes through, or None"""
        while isinstance(t, (ast.Subscript, ast.Attribute)):
            t = t.value
        return t.id if isinstance(t, ast.Name) else None

    def is_io_call(self, v):
        if not isinstance(v, ast.Call):
            return False
        f = v.func
        if is_name(f) and f.id in ("setup_zarr_group",):
            return True
        if is_name(f) and f.id in SIGS and SIGS[f.id]["io"]:
            return True
        if isinstance(f, ast.Attribute):
            if f.attr == "to_csv":
                return True
            if is_name(f.value) and (f.value.id, f.attr) in (("tifffile", "imwrite"), ("geff", "write"), ("np", "save")):
                return True
        return False

    def effects(self, stmts):
        """(names assigned, names modified in place) by a statement list; '_io' stands for the event list"""
        asg, mut = [], []

        def add(l, x):
            if x not in l:
                l.append(x)

        def tgt(t, node):
            if isinstance(t, ast.Name):
                add(asg, t.id)
            elif isinstance(t, ast.Tuple):
                for e in t.elts:
                    tgt(e, node)
            elif isinstance(t, (ast.Subscript, ast.Attribute)):
                r = self.store_root(t)
                if r is None:
                    self.fail(node, "assignment target")
                add(asg, r)
                add(mut, r)
            else:
                self.fail(node, "assignment target")

        def walk(ss):
            for s in ss:
                if isinstance(s, ast.Assign):
                    for t in s.targets:
                        tgt(t, s)
                    if self.is_io_call(s.value):
                        add(asg, "_io")
                    if is_call(s.value) and is_attr(s.value.func, "pop") and is_name(s.value.func.value):
                        add(asg, s.value.func.value.id)
                        add(mut, s.value.func.value.id)
                elif isinstance(s, ast.AnnAssign):
                    if s.value is not None:
                        tgt(s.target, s)
                elif isinstance(s, ast.Expr):
                    v = s.value
                    if isinstance(v, ast.Call) and isinstance(v.func, ast.Attribute) and v.func.attr in MUT_METHODS \
                       and is_name(v.func.value):
                        add(asg, v.func.value.id)
                        add(mut, v.func.value.id)
                    if self.is_io_call(v):
                        add(asg, "_io")
                elif isinstance(s, ast.If):
                    walk(s.body)
                    walk(s.orelse)
                elif isinstance(s, ast.For):
                    if s.orelse:
                        self.fail(s, "for/else")
                    tgt(s.target, s)
                    walk(s.body)
                elif isinstance(s, ast.With):
                    add(asg, "_io")
                elif isinstance(s, ast.FunctionDef):
                    add(asg, s.name)
                elif isinstance(s, (ast.Return, ast.Continue, ast.Break, ast.Raise, ast.Pass)):
                    pass
                else:
                    self.fail(s, "statement")
        walk(stmts)
        return asg, mut

    def names_in(self, e):
        return {n.id for n in ast.walk(e) if isinstance(n, ast.Name)}

    def is_fresh_rhs(self, v):
        if isinstance(v, (ast.List, ast.Dict, ast.ListComp, ast.DictComp, ast.Tuple)):
            return True
        if isinstance(v, ast.Call):
            f = v.func
            if is_name(f) and f.id in ("list", "tuple", "dict", "setup_zarr_array", "GeffMetadata"):
                return True
            if is_name(f) and f.id in SIGS:
                return True         # per-component freshness is checked where the result is unpacked
            if isinstance(f, ast.Attribute) and f.attr == "copy" and not v.args and not v.keywords:
                return True
        if isinstance(v, ast.Subscript) and isinstance(v.slice, ast.Slice):
            return True             # l[:n] is a new list
        return False

    def check_aliases(self, body, params):
        """the mutation discipline of the header, on the whole (live or dead) function body"""
        _, M = self.effects(body)
        M = set(M)
        self.M = M
        for p in M & set(params):
            if p != "self":
                raise Unsupported("%s: function %s modifies its parameter %s in place" % (self.rel, self.fname, p))
        mod = ast.Module(body=body, type_ignores=[])
        fresh_results = {}
        for s in ast.walk(mod):
            if isinstance(s, (ast.Assign, ast.AnnAssign)) and s.value is not None:
                tg = s.targets if isinstance(s, ast.Assign) else [s.target]
                v = s.value
                for t in tg:
                    if is_name(t) and t.id in M and not self.is_fresh_rhs(v):
                        self.fail(s, "a variable modified in place must be bound to a fresh value")
                    if isinstance(t, ast.Tuple):
                        if not (is_call(v) and is_name(v.func) and v.func.id in SIGS):
                            self.fail(s, "tuple unpacking of something else than the result of a translated function")
                        fr = SIGS[v.func.id].get("fresh", ())
                        for i, e in enumerate(t.elts):
                            if is_name(e) and e.id in M and not (i < len(fr) and fr[i]):
                                self.fail(s, "component %d of the result of %s is not fresh but %s is modified in place" % (i, v.func.id, e.id))
                if is_name(v) and v.id in M:
                    self.fail(s, "aliasing a variable that is modified in place")
                if isinstance(v, (ast.Tuple, ast.List)):
                    for e in v.elts:
                        if is_name(e) and e.id in M:
                            self.fail(s, "storing a variable that is modified in place")
            if isinstance(s, ast.For):
                for n in ast.walk(s.target):
                    if is_name(n) and n.id in M and not self.is_nodes_data_loop(s):
                        self.fail(s, "loop target is modified in place")
                a2, m2 = self.effects(s.body)
                bad = self.names_in(s.iter) & (set(a2) | set(m2))
                if bad and not self.is_nodes_data_loop(s):
                    self.fail(s, "the iterable mentions %s, assigned in the loop body" % sorted(bad))
        # storing a modified variable: only `C.append(x)` as the last statement of a loop body that first re-binds x
        for loop in [n for n in ast.walk(mod) if isinstance(n, ast.For)] + [mod]:
            stmts = loop.body
            for i, s in enumerate(stmts):
                for c in ast.walk(s) if not isinstance(s, (ast.For, ast.If, ast.With, ast.FunctionDef)) else []:
                    if isinstance(c, ast.Call) and isinstance(c.func, ast.Attribute) and c.func.attr in ("append", "extend"):
                        for a in c.args:
                            if is_name(a) and a.id in M:
                                ok = isinstance(loop, ast.For) and i == len(stmts) - 1 and c.func.attr == "append" and self.first_mention_rebinds(stmts, a.id)
                                if not ok:
                                    self.fail(s, "storing the in-place modified variable %s" % a.id)
        # nested statements (inside if / with) that store a modified variable are refused outright
        for n in ast.walk(mod):
            if isinstance(n, (ast.If, ast.With)):
                for c in ast.walk(n):
                    if isinstance(c, ast.Call) and isinstance(c.func, ast.Attribute) and c.func.attr in ("append", "extend"):
                        for a in c.args:
                            if is_name(a) and a.id in M:
                                self.fail(c, "storing the in-place modified variable %s under a condition" % a.id)
        return M

    def first_mention_rebinds(self, stmts, x):
        for s in stmts:
            if x in self.names_in(s):
                if isinstance(s, ast.AnnAssign) and s.value is None:
                    continue
                return isinstance(s, (ast.Assign, ast.AnnAssign)) and s.value is not None and \
                    all(is_name(t, x) for t in (s.targets if isinstance(s, ast.Assign) else [s.target])) and \
                    isinstance(s.value, (ast.Dict, ast.List)) and not self.names_in(s.value)
        return False

    def is_nodes_data_loop(self, s):
        it = s.iter
        return isinstance(it, ast.Call) and isinstance(it.func, ast.Attribute) and it.func.attr == "nodes" and not it.args \
            and len(it.keywords) == 1 and it.keywords[0].arg == "data" and const(it.keywords[0].value, True)

    # ---------------------------------------------------------------- annotations of locals
    def ann(self, a):
        """closed grammar of local annotations; only types empty literals / homogeneous tuples"""
        txt = un(a)
        table = {"list[str]": L("str"), "dict[str, Any]": ROW, "list[dict[str, Any]]": L(ROW),
                 "dict[str, str | list[str]]": D("colspec"), "tuple[int, ...]": L("int"),
                 "Literal['w', 'w-']": "str"}
        if txt in table:
            return table[txt]
        self.fail(a, "annotation outside the closed grammar")

    # ---------------------------------------------------------------- refinement of union-typed variables / chains
    def mangle(self, text):
        return "r_" + "".join(c if c.isalnum() else "_" for c in text)

    def refkey(self, x, env):
        """the key under which a variable / read-only attribute chain is refined, or None"""
        if is_name(x):
            return x.id if x.id in env else None
        ch = chain_of(x)
        if ch and len(ch) > 1 and ch[0] in self.params and ch[0] not in self.M:
            return "@" + un(x)
        return None

    def key_type(self, x, env):
        k = self.refkey(x, env)
        if k is None:
            return None
        if k in env:
            return env[k]
        try:
            return self.expr(x, env, None)[1]
        except Unsupported:
            return None

    def simp(self, t, env):
        """partial evaluation of a test: True / False when decided by static parameters or refinements, else an AST"""
        if is_name(t) and t.id in env and isinstance(env[t.id], tuple) and env[t.id][0] == "static":
            return bool(env[t.id][1])
        if isinstance(t, ast.UnaryOp) and isinstance(t.op, ast.Not):
            r = self.simp(t.operand, env)
            return (not r) if isinstance(r, bool) else ast.UnaryOp(op=ast.Not(), operand=r)
        if isinstance(t, ast.BoolOp):
            is_and = isinstance(t.op, ast.And)
            rest = []
            for v in t.values:
                r = self.simp(v, env)
                if isinstance(r, bool):
                    if r != is_and:      # `.. and False` / `.. or True`
                        return r if not rest else self._short(t.op, rest, r)
                    continue
                rest.append(r)
            if not rest:
                return is_and
            return rest[0] if len(rest) == 1 else ast.BoolOp(op=t.op, values=rest)
        if isinstance(t, ast.Compare) and len(t.ops) == 1 and isinstance(t.ops[0], (ast.Is, ast.IsNot)) and const_none(t.comparators[0]):
            x = t.left
            neg = isinstance(t.ops[0], ast.IsNot)
            if is_name(x) and x.id in env and isinstance(env[x.id], tuple) and env[x.id][0] == "static":
                return (env[x.id][1] is None) != neg
            kt = self.key_type(x, env)
            if kt is None:
                return t
            if kt == NONE:
                return not neg
            if is_union(kt):
                return t
            return neg
        if is_call(t, "isinstance") and len(t.args) == 2 and is_name(t.args[1]) and t.args[1].id in ("str", "list"):
            kt = self.key_type(t.args[0], env)
            if kt is None or kt == "posopt":
                return t
            if kt == "str":
                return t.args[1].id == "str"
            if kt == L("str"):
                return t.args[1].id == "list"
            if kt == NONE:
                return False
            return t
        return t

    def _short(self, op, rest, r):
        # `a and False` / `a or True` with a dynamic (possibly raising) prefix a: not needed by the translated sources
        raise Unsupported("%s: %s: boolean operator decided statically after a dynamic operand" % (self.rel, self.fname))

    def find_split(self, t, env):
        """a variable / chain of union type inspected by a refining sub-test of t, or None"""
        for n in ast.walk(t):
            x = None
            if isinstance(n, ast.Compare) and len(n.ops) == 1 and isinstance(n.ops[0], (ast.Is, ast.IsNot)) and const_none(n.comparators[0]):
                x = n.left
            elif is_call(n, "isinstance") and len(n.args) == 2 and is_name(n.args[1]) and n.args[1].id in ("str", "list"):
                x = n.args[0]
            if x is not None:
                kt = self.key_type(x, env)
                if kt is not None and is_union(kt):
                    return x
        return None

    def refine_arms(self, x, env):
        """[(pattern, env')] for a case split on x; also the code of x before the split"""
        key = self.refkey(x, env)
        code, ty = self.expr(x, env, None)
        binder = "v_" + key if not key.startswith("@") else self.mangle(key[1:])
        arms = []
        for pat, rt in alternatives(ty):
            e2 = dict(env)
            e2[key] = rt
            arms.append((pat.format(v=binder), e2))
        return code, arms

    # ---------------------------------------------------------------- coercions
    def coerce(self, code, ty, want, node):
        """a value of type ty where `want` is stored / returned (pure coercions only)"""
        if want is None or want == "?":
            return code, ty
        u = unify(ty, want)
        if u is not None:
            return code, u
        if want == "cell" and ty in ("int", "float", "str"):
            return "(Some %s)" % code, want
        if isinstance(want, tuple) and want[0] == "opt":
            if ty == NONE:
                return "None", want
            if unify(ty, want[1]) is not None:
                return "(Some %s)" % code, want
        if want == "posopt":
            if ty == NONE:
                return "None", want
            if ty == "str":
                return "(Some (PSingle %s))" % code, want
            if ty == L("str"):
                return "(Some (PMulti %s))" % code, want
        if want == VALUE and ty in ("int", "float"):
            return "[%s]" % code, want
        if want == "colspec" and ty == "str":
            return "(CStr %s)" % code, want
        if want == "colspec" and ty in (L("str"), L("?")):
            return "(CList %s)" % code, want
        if want == "json":
            tab = {"str": "json_of_str", O("str"): "json_of_opt_str", "posopt": "json_of_poskey", "int": "json_of_int",
                   O(L("float")): "json_of_opt_list", D("json"): "JObj"}
            if ty in tab:
                return "(%s %s)" % (tab[ty], code), want
        self.fail(node, "a value of type %r where %r is expected" % (ty, want))

    def need(self, pre, node):
        if pre is None:
            self.fail(node, "raising expression where raising is not allowed")

    def raising(self, pre, node, code):
        self.need(pre, node)
        t = self.fresh()
        pre.append((t, code))
        return t

    def as_type(self, code, ty, want, pre, node):
        """like coerce, plus the raising conversions (colspec -> str / list, T | None -> T, json -> typed)"""
        if unify(ty, want) is not None:
            return code, unify(ty, want)
        if ty == "colspec" and want == "str":
            return self.raising(pre, node, "col_as_str %s" % code), "str"
        if ty == "colspec" and isinstance(want, tuple) and want[0] == "list":
            return self.raising(pre, node, "col_as_list %s" % code), L("str")
        if isinstance(ty, tuple) and ty[0] == "opt" and unify(ty[1], want) is not None:
            return self.raising(pre, node, "as_some %s" % code), ty[1]
        if ty == "json":
            tab = {D("json"): "json_as_obj", "str": "json_as_str", O("str"): "json_as_opt_str", "posopt": "json_as_poskey"}
            if want in tab:
                return self.raising(pre, node, "%s %s" % (tab[want], code)), want
        return self.coerce(code, ty, want, node)

    def rwrap(self, pre, body):
        out = ""
        for t, c in pre:
            out += "rbind (%s) (fun %s => " % (c, t)
        return out + body + ")" * len(pre)

    def join(self, arms, node):
        """arms: [(code, type, pre)] of a conditional expression -> ([code], type, monadic?)"""
        ty = arms[0][1]
        for _, t, _ in arms[1:]:
            u = unify(ty, t)
            if u is None:
                if {ty, t} <= {"int", "cell", "float", "str"} and "cell" in (ty, t):
                    u = "cell"
                elif ty == NONE and t != NONE:
                    u = O(t) if not is_union(t) else t
                elif t == NONE:
                    u = O(ty) if not is_union(ty) else ty
                else:
                    self.fail(node, "conditional expression of types %r and %r" % (ty, t))
            ty = u
        monadic = any(p for _, _, p in arms)
        codes = []
        for c, t, p in arms:
            c2, _ = self.coerce(c, t, ty, node)
            codes.append(self.rwrap(p, "Ok %s" % par_code(c2)) if monadic else c2)
        return codes, ty, monadic

    # ---------------------------------------------------------------- expressions
    def cond(self, n, env, pre):
        """an expression used as a condition -> bool code (the test is already partially evaluated)"""
        code, ty = self.expr(n, env, pre)
        if ty == "bool":
            return code
        self.fail(n, "truth value of %r" % (ty,))

    def expr(self, n, env, pre, want=None):
        """-> (gallina code, type).  pre: list collecting (temp, raising code), or None where raising is not allowed"""
        E = lambda x, w=None: self.expr(x, env, pre, w)
        if isinstance(n, ast.Name):
            if n.id in self.module_consts:
                return self.module_consts[n.id], "str"
            if n.id not in env:
                self.fail(n, "variable %s is not defined on this path" % n.id)
            ty = env[n.id]
            if isinstance(ty, tuple) and ty[0] == "static":
                self.fail(n, "static parameter used as a value")
            if ty == NONE:
                return "None", NONE
            return "v_" + n.id, ty
        if isinstance(n, ast.Constant):
            v = n.value
            if v is None:
                return "None", NONE
            if isinstance(v, bool):
                return ("true" if v else "false"), "bool"
            if isinstance(v, int):
                return ("%d" % v if v >= 0 else "(%d)" % v), "int"
            if isinstance(v, float) and v == 1.0:
                return "F_one", "float"
            if isinstance(v, str):
                if v == "":
                    return "None", "cell"
                return self.string(v, n), "str"
            self.fail(n, "constant")
        if isinstance(n, ast.Tuple):
            hom = len(n.elts) == 1 or (isinstance(want, tuple) and want[0] == "list")
            if hom:
                return self.listlit(n.elts, env, pre, n)
            xs = [E(e) for e in n.elts]
            return "(%s)" % ", ".join(c for c, _ in xs), T(*[t for _, t in xs])
        if isinstance(n, ast.List):
            return self.listlit(n.elts, env, pre, n)
        if isinstance(n, ast.Dict):
            if not n.keys:
                return "[]", D("?")
            items = []
            for k, v in zip(n.keys, n.values):
                if not (isinstance(k, ast.Constant) and isinstance(k.value, str)):
                    self.fail(n, "dict literal key")
                vc, vt = E(v, "json")
                vc, _ = self.coerce(vc, vt, "json", v)
                items.append("(%s, %s)" % (self.string(k.value, k), vc))
            return "(JObj [%s])" % "; ".join(items), "json"
        if isinstance(n, ast.UnaryOp) and isinstance(n.op, ast.Not):
            return "(negb %s)" % self.cond(n.operand, env, pre), "bool"
        if isinstance(n, ast.BoolOp):
            op = "&&" if isinstance(n.op, ast.And) else "||"
            cs = [self.cond(n.values[0], env, pre)] + [self.cond(v, env, None) for v in n.values[1:]]
            return "(%s)" % (" %s " % op).join(cs), "bool"
        if isinstance(n, ast.BinOp):
            return self.binop(n, env, pre)
        if isinstance(n, ast.Compare):
            return self.compare(n, env, pre)
        if isinstance(n, ast.IfExp):
            return self.ifexp(n, env, pre, want)
        if isinstance(n, ast.Subscript):
            return self.subscript(n, env, pre)
        if isinstance(n, ast.Attribute):
            return self.attribute(n, env, pre)
        if isinstance(n, ast.ListComp):
            return self.comprehension(n, n.elt, env, pre)
        if isinstance(n, ast.DictComp):
            return self.dictcomp(n, env, pre)
        if isinstance(n, ast.Call):
            return self.call(n, env, pre, want)
        self.fail(n, "expression")

    def listlit(self, elts, env, pre, node):
        xs = [self.expr(e, env, pre) for e in elts]
        ty = "?"
        for _, t in xs:
            ty = unify(ty, t)
            if ty is None:
                self.fail(node, "sequence literal of mixed types")
        return "[%s]" % "; ".join(c for c, _ in xs), L(ty)

    def binop(self, n, env, pre):
        (lc, lt), (rc, rt) = self.expr(n.left, env, pre), self.expr(n.right, env, pre)
        if isinstance(n.op, (ast.Add, ast.Sub)) and lt == "int" and rt == "int":
            return "(%s %s %s)" % (lc, "+" if isinstance(n.op, ast.Add) else "-", rc), "int"
        if isinstance(n.op, ast.Add) and isinstance(lt, tuple) and lt[0] == "list" and unify(lt, rt) is not None:
            return "(%s ++ %s)" % (lc, rc), unify(lt, rt)
        if isinstance(n.op, ast.Mult) and isinstance(lt, tuple) and lt[0] == "list" and rt == "int":
            return "(py_list_repeat %s %s)" % (lc, rc), lt
        if isinstance(n.op, ast.Div) and lt == "path" and rt == "str":
            return "(path_join %s %s)" % (lc, rc), "path"
        self.fail(n, "binary operator on %r and %r" % (lt, rt))

    def compare(self, n, env, pre):
        if len(n.ops) != 1:
            self.fail(n, "comparison chain")
        op, l, r = n.ops[0], n.left, n.comparators[0]
        if isinstance(op, (ast.Is, ast.IsNot)):
            self.fail(n, "`is` test that is not decided by a case split")
        (lc, lt), (rc, rt) = self.expr(l, env, pre), self.expr(r, env, pre)
        if isinstance(op, (ast.In, ast.NotIn)):
            if lt != "str":
                self.fail(n, "in: key type %r" % (lt,))
            if isinstance(rt, tuple) and rt[0] == "dict":
                c = "(haskey %s %s)" % (lc, rc)
            elif rt == "features":
                c = "(haskey %s (fd_features %s))" % (lc, rc)
            else:
                self.fail(n, "in on %r" % (rt,))
            return (c if isinstance(op, ast.In) else "(negb %s)" % c), "bool"
        if type(op) in CMP and lt == rt and lt in ("int", "str"):
            return "(%s %s %s)" % (lc, CMP[type(op)], rc), "bool"
        self.fail(n, "comparison of %r and %r" % (lt, rt))

    def ifexp(self, n, env, pre, want):
        # tracks.scale if not isinstance(tracks.scale, np.ndarray) else tracks.scale.tolist()   (either order):
        # a list and an array of floats are one representation
        for a, b, neg in ((n.body, n.orelse, True), (n.orelse, n.body, False)):
            t = n.test.operand if (neg and isinstance(n.test, ast.UnaryOp) and isinstance(n.test.op, ast.Not)) else (n.test if not neg else None)
            if t is not None and is_call(t, "isinstance") and len(t.args) == 2 and un(t.args[1]) == "np.ndarray" \
               and un(t.args[0]) == un(a) and un(b) == un(a) + ".tolist()":
                c, ty = self.expr(a, env, pre)
                if ty != O(L("float")):
                    self.fail(n, "ndarray / list idiom on %r" % (ty,))
                return c, ty
        t = self.simp(n.test, env)
        if isinstance(t, bool):
            return self.expr(n.body if t else n.orelse, env, pre, want)
        x = self.find_split(t, env)
        if x is not None:
            head, arms = self.refine_arms(x, env)
            res = []
            for pat, e2 in arms:
                p2 = []
                c, ty = self.expr(n, e2, p2, want)
                res.append((c, ty, p2))
            codes, ty, monadic = self.join(res, n)
            code = "match %s with %s end" % (head, " ".join("| %s => %s" % (pat, c) for (pat, _), c in zip(arms, codes)))
        else:
            cc = self.cond(t, env, pre)
            res = []
            for br in (n.body, n.orelse):
                p2 = []
                c, ty = self.expr(br, env, p2, want)
                res.append((c, ty, p2))
            codes, ty, monadic = self.join(res, n)
            code = "if %s then %s else %s" % (cc, codes[0], codes[1])
        if monadic:
            return self.raising(pre, n, code), ty
        return "(%s)" % code, ty

    def subscript(self, n, env, pre):
        c, t = self.expr(n.value, env, pre)
        if isinstance(n.slice, ast.Slice):
            s = n.slice
            if s.lower is None and s.step is None and s.upper is not None and isinstance(t, tuple) and t[0] == "list":
                uc, ut = self.expr(s.upper, env, pre)
                if ut != "int":
                    self.fail(n, "slice bound")
                return "(py_slice_to %s %s)" % (c, uc), t
            self.fail(n, "slice")
        kc, kt = self.expr(n.slice, env, pre)
        if isinstance(t, tuple) and t[0] == "dict":
            kc, _ = self.as_type(kc, kt, "str", pre, n)
            return self.raising(pre, n, "dict_get %s %s" % (kc, c)), t[1]
        if isinstance(t, tuple) and t[0] == "list" and kt == "int":
            return self.raising(pre, n, "list_get %s %s" % (c, kc)), t[1]
        if t == "table":
            kc, _ = self.as_type(kc, kt, "str", pre, n)
            return self.raising(pre, n, "df_getitem %s %s" % (c, kc)), L("cell")
        if t == "ndarray" and kt == L(SLICE):
            return self.raising(pre, n, "np_getitem_slices %s %s" % (c, kc)), "ndarray"
        if t == "json" and kt == "str":
            return self.raising(pre, n, "json_getitem %s %s" % (c, kc)), "json"
        self.fail(n, "subscript of %r with %r" % (t, kt))

    def attribute(self, n, env, pre):
        key = "@" + un(n)
        if key in env:
            return ("None", NONE) if env[key] == NONE else (self.mangle(key[1:]), env[key])
        if is_name(n.value, "np") and n.attr in NP_DTYPES:
            return NP_DTYPES[n.attr], "dtype"
        if n.attr == "max" and is_call(n.value) and un(n.value.func) == "np.iinfo" and len(n.value.args) == 1 and not n.value.keywords:
            c, t = self.expr(n.value.args[0], env, pre)
            if t != "dtype":
                self.fail(n, "np.iinfo of %r" % (t,))
            return "(np_iinfo_max %s)" % c, "int"
        c, t = self.expr(n.value, env, pre)
        tab = {"tracks": TRACKS_ATTRS, "features": FEATURE_ATTRS, "ndarray": ARRAY_ATTRS}.get(t)
        if tab and n.attr in tab:
            f, ty = tab[n.attr]
            return "(%s %s)" % (f, c), ty
        self.fail(n, "attribute .%s of %r" % (n.attr, t))

    def iterable(self, it, env, pre):
        """the iterable of a for / comprehension -> (list code, element type)"""
        c, t = self.expr(it, env, pre)
        if t == "colspec":
            c, t = self.as_type(c, t, L("str"), pre, it)
        if isinstance(t, tuple) and t[0] == "list":
            return c, t[1]
        self.fail(it, "not iterable here: %r" % (t,))

    def pattern(self, t, ty, env, node):
        """a for / comprehension target -> (gallina pattern, {name: type})"""
        if isinstance(t, ast.Name):
            if t.id == "_":
                return "_", {}
            if t.id in env or t.id in RESERVED:
                self.fail(node, "loop target re-uses the existing name %s" % t.id)
            return "v_" + t.id, {t.id: ty}
        if isinstance(t, ast.Tuple) and isinstance(ty, tuple) and ty[0] == "tuple" and len(ty[1]) == len(t.elts):
            ps, bs = [], {}
            for e, et in zip(t.elts, ty[1]):
                p, b = self.pattern(e, et, env, node)
                if set(b) & set(bs):
                    self.fail(node, "repeated name in pattern")
                ps.append(p)
                bs.update(b)
            return "(%s)" % ", ".join(ps), bs
        self.fail(node, "pattern against %r" % (ty,))

    def lam(self, pat):
        return pat if not pat.startswith("(") else "'" + pat

    def comprehension(self, n, elt, env, pre):
        if len(n.generators) != 1 or n.generators[0].ifs or n.generators[0].is_async:
            self.fail(n, "comprehension shape")
        g = n.generators[0]
        ic, et = self.iterable(g.iter, env, pre)
        pat, bs = self.pattern(g.target, et, env, n)
        e2 = dict(env)
        e2.update(bs)
        p2 = []
        ec, ety = self.expr(elt, e2, p2)
        if not p2:
            return "(map (fun %s => %s) %s)" % (self.lam(pat), ec, ic), L(ety)
        if len(p2) == 1 and p2[0][0] == ec:
            return self.raising(pre, n, "mapM (fun %s => %s) %s" % (self.lam(pat), p2[0][1], ic)), L(ety)
        self.fail(n, "comprehension element with more than one raising step")

    def dictcomp(self, n, env, pre):
        if len(n.generators) != 1 or n.generators[0].ifs:
            self.fail(n, "dict comprehension shape")
        g = n.generators[0]
        it = g.iter
        if not (is_call(it) and isinstance(it.func, ast.Attribute) and it.func.attr == "items" and not it.args and not it.keywords):
            self.fail(n, "dict comprehension over something else than d.items()")
        dc, dt = self.expr(it.func.value, env, pre)
        if dt == "features":
            dc, dt = "(fd_features %s)" % dc, D("json")
        if not (isinstance(dt, tuple) and dt[0] == "dict"):
            self.fail(n, "items() of %r" % (dt,))
        tg = g.target
        if not (isinstance(tg, ast.Tuple) and len(tg.elts) == 2 and all(is_name(e) for e in tg.elts) and is_name(n.key, tg.elts[0].id)):
            self.fail(n, "dict comprehension whose key is not the iteration key")
        k, v = tg.elts[0].id, tg.elts[1].id
        if k in env or v in env or k == v:
            self.fail(n, "comprehension target re-uses a name")
        e2 = dict(env)
        e2[k] = "str"
        e2[v] = dt[1]
        vc, vt = self.expr(n.value, e2, None)
        return "(dict_map_values (fun v_%s v_%s => %s) %s)" % (k, v, vc, dc), D(vt)

    # ---------------------------------------------------------------- calls
    def kwargs(self, n, names, node=None):
        """keyword arguments exactly `names` (in any order), no positional beyond those consumed"""
        kw = {k.arg: k.value for k in n.keywords}
        if None in kw or set(kw) != set(names) or len(kw) != len(n.keywords):
            self.fail(n, "keyword arguments %r, expected %r" % (sorted(k for k in kw if k), sorted(names)))
        return kw

    def gen_call(self, fname, n, env, pre):
        """arguments of a call of the translated function fname -> code `gen_f a1 .. an`"""
        sig = SIGS[fname]
        if fname not in self.translated:
            self.fail(n, "call of %s before its definition was translated" % fname)
        formal = [p for p in sig["order"] if p not in ("self", "cls")]
        actual = {}
        if len(n.args) > len(formal):
            self.fail(n, "too many arguments")
        for p, a in zip(formal, n.args):
            actual[p] = a
        for k in n.keywords:
            if k.arg is None or k.arg not in formal or k.arg in actual:
                self.fail(n, "keyword argument %r" % k.arg)
            actual[k.arg] = k.value
        args = []
        for p, pt in sig["params"]:
            if p == "self":
                continue
            if p in actual:
                c, t = self.expr(actual[p], env, pre, pt)
                c, _ = self.as_type(c, t, pt, pre, n)
            elif p in sig["defaults"]:
                c, _ = self.coerce(*self.expr(ast.Constant(value=sig["defaults"][p]), env, None), pt, n)
            else:
                self.fail(n, "missing argument %s" % p)
            args.append(par_code(c))
        for p in sig["static"]:
            if p in actual and not const(actual[p], sig["static"][p]):
                self.fail(n, "argument %s differs from the constant the function is specialised to" % p)
        return "%s %s" % (self.gen_name(fname), " ".join(args))

    def gen_name(self, f):
        return SIGS[f].get("gen", "gen_" + f.lstrip("_"))

    def call(self, n, env, pre, want=None):
        E = lambda x, w=None: self.expr(x, env, pre, w)
        f, a = n.func, n.args
        if isinstance(f, ast.Name):
            name = f.id
            if name in env:
                ft = env[name]
                if isinstance(ft, tuple) and ft[0] == "fun" and len(a) == 1 and not n.keywords:
                    c, t = E(a[0])
                    if t not in ("int", "float"):
                        self.fail(n, "local function applied to %r" % (t,))
                    return "(v_%s %s)" % (name, c), t
                self.fail(n, "call of a local variable")
            if name in SIGS:
                if SIGS[name]["io"]:
                    self.fail(n, "call of a file-writing function inside an expression")
                return self.raising(pre, n, self.gen_call(name, n, env, pre)), SIGS[name]["ret"]
            if name == "cls" and self.fname == "from_json":
                return self.raising(pre, n, self.gen_call("__init__", n, env, pre)), "features"
            if name == "cast" and len(a) == 2 and not n.keywords:
                c, t = E(a[1])
                if un(a[0]) == "str":
                    return self.as_type(c, t, "str", pre, n)
                self.fail(n, "cast to %s" % un(a[0]))
            if n.keywords and name not in ("zip", "setup_zarr_array", "GeffMetadata"):
                self.fail(n, "keyword arguments")
            if name == "len" and len(a) == 1:
                c, t = E(a[0])
                if isinstance(t, tuple) and t[0] == "list":
                    return "(py_len %s)" % c, "int"
                if t == "table":
                    return "(df_len %s)" % c, "int"
                self.fail(n, "len of %r" % (t,))
            if name in ("list", "tuple") and len(a) == 1:
                if isinstance(a[0], ast.GeneratorExp):
                    return self.comprehension(a[0], a[0].elt, env, pre)
                c, t = E(a[0])
                if t == "colspec":
                    c, t = self.as_type(c, t, L("str"), pre, n)
                if isinstance(t, tuple) and t[0] == "list":
                    return c, t
                self.fail(n, "%s of %r" % (name, t))
            if name == "min" and len(a) == 2:
                (c1, t1), (c2, t2) = E(a[0]), E(a[1])
                if t1 == t2 == "int":
                    return "(Z.min %s %s)" % (c1, c2), "int"
            if name == "int" and len(a) == 1:
                c, t = E(a[0])
                if t == "cell":
                    return self.raising(pre, n, "py_int_cell %s" % c), "int"
                if t in ("int", "float"):
                    return "(py_int_of_np %s)" % c, t
            if name == "float" and len(a) == 1:
                c, t = E(a[0])
                if t in ("int", "float"):
                    return "(py_float %s)" % c, t
            if name == "range" and len(a) == 1:
                c, t = E(a[0])
                if t == "int":
                    return "(py_range %s)" % c, L("int")
            if name == "range" and len(a) == 3:
                xs = [E(x) for x in a]
                if all(t == "int" for _, t in xs):
                    return self.raising(pre, n, "py_range_step %s" % " ".join(c for c, _ in xs)), L("int")
            if name == "zip" and len(a) in (2, 3):
                kw = self.kwargs(n, ["strict"])
                if not const(kw["strict"], True):
                    self.fail(n, "zip without strict=True")
                xs = []
                for x in a:
                    c, t = E(x)
                    if t == "colspec":
                        c, t = self.as_type(c, t, L("str"), pre, n)
                    if not (isinstance(t, tuple) and t[0] == "list"):
                        self.fail(n, "zip over %r" % (t,))
                    xs.append((c, t[1]))
                prim = "py_zip_strict" if len(a) == 2 else "py_zip3_strict"
                return self.raising(pre, n, "%s %s" % (prim, " ".join(c for c, _ in xs))), L(T(*[t for _, t in xs]))
            if name == "slice" and len(a) == 2:
                (c1, t1), (c2, t2) = E(a[0]), E(a[1])
                if t1 == t2 == "int":
                    return "(%s, %s)" % (c1, c2), SLICE
            if name == "isinstance" and len(a) == 2 and un(a[1]) in (NP_FLOATS, NP_INTS):
                c, t = E(a[0])
                if t in ("int", "float"):
                    return "(%s %s)" % ("np_is_float" if un(a[1]) == NP_FLOATS else "np_is_int", c), "bool"
            if name == "dict" and len(a) == 1:
                c, t = E(a[0])
                if t == "json":
                    return "(py_dict_copy %s)" % c, "json"
            if name == "filter_graph_with_ancestors" and len(a) == 2:
                (gc, gt), (ic, it) = E(a[0]), E(a[1])
                if gt == "graph" and it == L("int"):
                    return self.raising(pre, n, "SubsetUtils_gen.gen_filter_graph_with_ancestors (nx_structure %s) %s" % (gc, ic)), L("int")
            if name == "map_array" and len(a) == 3:
                (c1, t1), (c2, t2), (c3, t3) = E(a[0]), E(a[1]), E(a[2])
                c1, t1 = self.as_type(c1, t1, "ndarray", pre, n)
                if t2 == L("cell") and t3 == T(L("int"), "dtype"):
                    return "(sk_map_array %s %s %s)" % (c1, c2, c3), "ndarray"
            if name == "setup_zarr_array" and len(a) == 1:
                kw = self.kwargs(n, ["zarr_format", "shape", "dtype", "chunks"])
                xs = [E(a[0]), E(kw["zarr_format"]), E(kw["shape"]), E(kw["dtype"]), E(kw["chunks"])]
                if [t for _, t in xs] == ["path", "int", L("int"), "dtype", L("int")]:
                    return "(setup_zarr_array %s)" % " ".join(c for c, _ in xs), "zarr"
            if name == "remove_tilde" and len(a) == 1:
                c, t = E(a[0])
                if t == "path":
                    return "(remove_tilde %s)" % c, "path"
            if name == "GeffMetadata" and un(n) == GEFF_META_CALL and env.get("graph") == "graph":
                return "(GeffMeta false)", "meta"
            self.fail(n, "call of %s" % name)
        if not isinstance(f, ast.Attribute):
            self.fail(n, "call")
        m = f.attr
        # module functions
        if is_name(f.value) and f.value.id not in env:
            mod = f.value.id
            if (mod, m) == ("pd", "DataFrame") and len(a) == 1:
                kw = self.kwargs(n, ["columns"])
                (rc, rt), (hc, ht) = E(a[0]), E(kw["columns"])
                if unify(rt, L(ROW)) is not None and unify(ht, L("str")) is not None:
                    return "(pd_DataFrame %s %s)" % (rc, hc), "table"
            if (mod, m) == ("np", "array") and len(a) == 1:
                c, t = E(a[0])
                if t == L("cell") and not n.keywords:
                    return "(np_array_col %s)" % c, L("cell")
                if t == L("cell"):
                    kw = self.kwargs(n, ["dtype"])
                    dc, dt = E(kw["dtype"])
                    if dt == "dtype":
                        return self.raising(pre, n, "np_array_col_dtype %s %s" % (c, dc)), T(L("int"), "dtype")
            if (mod, m) == ("np", "asarray") and len(a) == 1 and not n.keywords:
                c, t = E(a[0])
                if t == L("int"):
                    return "(np_asarray %s)" % c, t
            if (mod, m) == ("np", "isin") and len(a) == 2 and not n.keywords:
                (c1, t1), (c2, t2) = E(a[0]), E(a[1])
                if t1 == "ndarray" and t2 == L("int"):
                    return "(np_isin %s %s)" % (c1, c2), "barray"
            if (mod, m) == ("np", "where") and len(a) == 3 and not n.keywords:
                (c1, t1), (c2, t2), (c3, t3) = E(a[0]), E(a[1]), E(a[2])
                if t1 == "barray" and t2 == "ndarray" and t3 == "int":
                    return self.raising(pre, n, "np_where_scalar %s %s %s" % (c1, c2, c3)), "ndarray"
            if (mod, m) == ("itertools", "product") and len(a) == 1 and isinstance(a[0], ast.Starred) and not n.keywords:
                c, t = E(a[0].value)
                if t == L(L("int")):
                    return "(itertools_product %s)" % c, L(L("int"))
            self.fail(n, "call of %s.%s" % (mod, m))
        # G.subgraph(keep).copy()
        if m == "copy" and not a and not n.keywords and is_call(f.value) and is_attr(f.value.func, "subgraph") and len(f.value.args) == 1:
            (gc, gt), (kc, kt) = E(f.value.func.value), E(f.value.args[0])
            if gt == "graph" and kt == L("int"):
                return "(nx_subgraph_copy %s %s)" % (gc, kc), "graph"
        oc, ot = E(f.value)
        if m == "resolve" and ot == "path" and not a:
            kw = self.kwargs(n, ["strict"])
            if const(kw["strict"], False):
                return "(path_resolve %s)" % oc, "path"
        if n.keywords:
            self.fail(n, "keyword arguments")
        if ot == "graph":
            if m == "copy" and not a:
                return "(nx_copy %s)" % oc, "graph"
            if m == "nodes" and not a:
                return "(nx_nodes %s)" % oc, L("int")
            if m == "predecessors" and len(a) == 1:
                c, t = E(a[0])
                if t == "int":
                    return self.raising(pre, n, "nx_predecessors %s %s" % (oc, c)), L("int")
        if ot == "tracks" and m in ("get_time", "get_track_id", "get_position") and len(a) == 1:
            c, t = E(a[0])
            if t == "int":
                return self.raising(pre, n, "tracks_%s %s %s" % (m, oc, c)), (VALUE if m == "get_position" else "int")
        if ot == "features" and m == "dump_json" and not a:
            if "dump_json" not in self.translated:
                self.fail(n, "dump_json is not translated yet")
            return self.raising(pre, n, "gen_dump_json %s" % oc), "json"
        if ot == L("cell") and m == "max" and not a:
            return "(series_max %s)" % oc, "cell"
        if ot == "json" and m == "get" and len(a) == 1:
            c, t = E(a[0])
            if t == "str":
                return self.raising(pre, n, "json_get %s %s" % (oc, c)), "json"
        self.fail(n, "method call .%s on %r" % (m, ot))

    # ---------------------------------------------------------------- statements
    def tup(self, names):
        if not names:
            return "tt"
        if len(names) == 1:
            return "v_" + names[0]
        return "(%s)" % ", ".join("v_" + x for x in names)

    def lamtup(self, names):
        if not names:
            return "_"
        return self.lam(self.tup(names))

    def wrap(self, pre, body, ind):
        out = ""
        for t, c in pre:
            out += "bind (%s) (fun %s =>\n%s" % (c, t, ind)
        return out + body + ")" * len(pre)

    def set_var(self, env, name, ty, node):
        if name in RESERVED or name in self.module_consts:
            self.fail(node, "assignment to the reserved name %s" % name)
        if name in self.params:
            old = env.get(name)
            if isinstance(old, tuple) and old and old[0] == "static":
                self.fail(node, "assignment to a static parameter")
        if name in env and env[name] != NONE and not is_union(env[name]) and not (isinstance(env[name], tuple) and env[name][0] == "static"):
            u = unify(env[name], ty)
            if u is None:
                self.fail(node, "variable %s changes type from %r to %r" % (name, env[name], ty))
            ty = u
        env[name] = ty

    def ret_code(self, val, env):
        if not self.sig["io"]:
            return "Ret %s" % par_code(val)
        zs = [x for x, t in env.items() if t == "zarr"]
        io = "v__io" + "".join(" ++ [EvZarr v_%s]" % z for z in zs)
        return "Ret (%s, %s)" % (val, io)

    def emit_event(self, ev, pre, rest, env, ind):
        env["_io"] = L("event")
        return self.wrap(pre, "let v__io := v__io ++ [%s] in\n%s%s" % (ev, ind, rest(env)), ind)

    def pure_function(self, fn, env):
        """def g(v): if c: return a elif ..: return b; return v   -> fun v_v => if c then a else .."""
        a = fn.args
        if a.vararg or a.kwarg or a.kwonlyargs or a.posonlyargs or a.defaults or fn.decorator_list or len(a.args) != 1:
            self.fail(fn, "nested function signature")
        v = a.args[0].arg
        if v in env or fn.name in env or fn.name in RESERVED:
            self.fail(fn, "nested function re-uses a name")
        e2 = dict(env)
        e2[v] = "float"

        def body(stmts):
            if not stmts:
                self.fail(fn, "nested function can end without return")
            s = stmts[0]
            if isinstance(s, ast.Return) and s.value is not None:
                c, t = self.expr(s.value, e2, None)
                if t != "float":
                    self.fail(s, "nested function returns %r" % (t,))
                return c
            if isinstance(s, ast.If):
                c = self.cond(s.test, e2, None)
                return "if %s then %s else %s" % (c, body(s.body), body(s.orelse + stmts[1:]))
            self.fail(s, "statement in a nested function")
        code = body(self.strip_doc(fn.body))
        return "fun v_%s => %s" % (v, code)

    def strip_doc(self, body):
        if body and isinstance(body[0], ast.Expr) and isinstance(body[0].value, ast.Constant) and isinstance(body[0].value.value, str):
            return body[1:]
        return body

    def simple_assign_chain(self, s, env):
        """if/elif/else whose every branch is one pure `x = e` on the same x -> (x, code, type), else None"""
        branches, cur = [], s
        while True:
            if not (len(cur.body) == 1 and isinstance(cur.body[0], ast.Assign) and len(cur.body[0].targets) == 1 and is_name(cur.body[0].targets[0])):
                return None
            branches.append((cur.test, cur.body[0]))
            if len(cur.orelse) == 1 and isinstance(cur.orelse[0], ast.If):
                cur = cur.orelse[0]
                continue
            if len(cur.orelse) == 1 and isinstance(cur.orelse[0], ast.Assign) and len(cur.orelse[0].targets) == 1 and is_name(cur.orelse[0].targets[0]):
                last = cur.orelse[0]
                break
            return None
        x = last.targets[0].id
        if any(b.targets[0].id != x for _, b in branches) or x in self.M:
            return None
        try:
            conds = []
            for t, _ in branches:
                t2 = self.simp(t, env)
                if isinstance(t2, bool) or self.find_split(t2, env) is not None:
                    return None
                conds.append(self.cond(t2, env, None))
            vals = [self.expr(b.value, env, None) for _, b in branches] + [self.expr(last.value, env, None)]
        except Unsupported:
            return None
        ty = vals[0][1]
        for _, t in vals[1:]:
            ty = unify(ty, t)
            if ty is None:
                return None
        code = ""
        for c, (v, _) in zip(conds, vals):
            code += "if %s then %s else " % (c, v)
        return x, code + vals[-1][0], ty

    def block(self, stmts, env, loop, ind):
        """statement list -> code of type ctl S R.  loop: the loop-carried variable names, or None at function level"""
        I = ind
        if not stmts:
            if loop is not None:
                return "Cont %s" % self.tup(loop)
            if self.fname == "__init__":
                return self.ret_code("v_self", env)
            if self.sig["ret"] != "unit":
                raise Unsupported("%s: function %s can end without `return`" % (self.rel, self.fname))
            return self.ret_code("tt", env)
        s, rest = stmts[0], stmts[1:]
        R = lambda e: self.block(rest, e, loop, ind)
        if isinstance(s, ast.Pass):
            return R(env)
        if isinstance(s, (ast.Continue, ast.Break)):
            if loop is None or self.attr_body:
                self.fail(s, "continue / break here")
            return ("Cont %s" if isinstance(s, ast.Continue) else "Brk %s") % self.tup(loop)
        if isinstance(s, ast.Return):
            if self.attr_body:
                self.fail(s, "return inside the nodes(data=True) idiom")
            if s.value is None or const_none(s.value):
                if self.sig["ret"] != "unit":
                    self.fail(s, "return without value")
                return self.ret_code("tt", env)
            pre = []
            c, t = self.expr(s.value, env, pre, self.sig["ret"])
            if isinstance(s.value, ast.Tuple) and isinstance(self.sig["ret"], tuple) and self.sig["ret"][0] == "tuple":
                # per-component coercion and freshness
                want = self.sig["ret"][1]
                if len(want) != len(s.value.elts):
                    self.fail(s, "result arity")
                fr = self.sig.get("fresh", ())
                comps = []
                for i, (e, w) in enumerate(zip(s.value.elts, want)):
                    ec, et = self.expr(e, env, None, w)
                    comps.append(self.coerce(ec, et, w, s)[0])
                    if i < len(fr) and fr[i] and not const_none(e) and not (self.is_fresh_rhs(e) or (is_name(e) and e.id in self.fresh_locals)):
                        self.fail(s, "result component %d is declared fresh but is not a fresh value" % i)
                c = "(%s)" % ", ".join(comps)
            else:
                c, _ = self.coerce(c, t, self.sig["ret"], s)
            return self.wrap(pre, self.ret_code(c, env), I)
        if isinstance(s, ast.Raise):
            if s.cause is not None or not (is_call(s.exc, "KeyError") and len(s.exc.args) == 1 and isinstance(s.exc.args[0], (ast.JoinedStr, ast.Constant))):
                self.fail(s, "raise")
            return "Exn KeyError"
        if isinstance(s, ast.FunctionDef):
            code = self.pure_function(s, env)
            env[s.name] = ("fun", 1)
            return "let v_%s := %s in\n%s%s" % (s.name, code, I, R(env))
        if isinstance(s, ast.If):
            return self.if_stmt(s, rest, env, loop, ind)
        if isinstance(s, ast.For):
            return self.for_stmt(s, rest, env, loop, ind)
        if isinstance(s, ast.With):
            return self.with_stmt(s, R, env, ind)
        if isinstance(s, ast.AnnAssign) and s.value is None:
            if not is_name(s.target):
                self.fail(s, "annotation")
            self.decl[s.target.id] = self.ann(s.annotation)
            return R(env)
        if isinstance(s, (ast.Assign, ast.AnnAssign)):
            return self.assign(s, R, env, ind)
        if isinstance(s, ast.Expr):
            return self.expr_stmt(s, R, env, ind)
        self.fail(s, "statement")

    def if_stmt(self, s, rest, env, loop, ind):
        I = ind
        t = self.simp(s.test, env)
        if isinstance(t, bool):
            return self.block((s.body if t else s.orelse) + rest, env, loop, ind)
        x = self.find_split(t, env)
        if x is not None:
            head, arms = self.refine_arms(x, env)
            out = "match %s with" % head
            for pat, e2 in arms:
                out += "\n%s| %s =>\n%s  %s" % (I, pat, I, self.block([s] + rest, e2, loop, ind + "  "))
            return out + "\n%send" % I
        ch = self.simple_assign_chain(s, env)
        if ch is not None:
            x, code, ty = ch
            self.set_var(env, x, ty, s)
            return "let v_%s := %s in\n%s%s" % (x, code, I, self.block(rest, env, loop, ind))
        pre = []
        c = self.cond(t, env, pre)
        a = self.block(s.body + rest, dict(env), loop, ind + "  ")
        b = self.block(s.orelse + rest, dict(env), loop, ind + "  ")
        return self.wrap(pre, "if %s then\n%s  %s\n%selse\n%s  %s" % (c, I, a, I, I, b), I)

    def for_stmt(self, s, rest, env, loop, ind):
        I = ind
        if s.orelse:
            self.fail(s, "for/else")
        if self.is_nodes_data_loop(s):
            return self.nodes_data_loop(s, rest, env, loop, ind)
        pre = []
        ic, et = self.iterable(s.iter, env, pre)
        pat, bs = self.pattern(s.target, et, env, s)
        asg, mut = self.effects(s.body)
        for x in bs:
            if x in asg:
                self.fail(s, "loop target %s is assigned in the loop body" % x)
        state = [x for x in env if x in asg]
        env2 = dict(env)
        env2.update(bs)
        body = self.block(s.body, env2, state, ind + "    ")
        k = self.block(rest, dict(env), loop, ind)
        code = "py_for %s %s\n%s  (fun %s %s =>\n%s    %s)\n%s  (fun %s =>\n%s%s)" % (
            ic, self.tup(state), I, self.lam(pat), self.lamtup(state), I, body, I, self.lamtup(state), I, k)
        return self.wrap(pre, code, I)

    def nodes_data_loop(self, s, rest, env, loop, ind):
        I = ind
        g = s.iter.func.value
        if not (is_name(g) and env.get(g.id) == "graph" and g.id in self.fresh_locals):
            self.fail(s, "nodes(data=True) loop over a graph the function does not own")
        tg = s.target
        if not (isinstance(tg, ast.Tuple) and len(tg.elts) == 2 and is_name(tg.elts[0], "_") and is_name(tg.elts[1])):
            self.fail(s, "target of the nodes(data=True) idiom")
        a = tg.elts[1].id
        if a in env or a in RESERVED:
            self.fail(s, "loop target re-uses a name")
        asg, mut = self.effects(s.body)
        outer = [x for x in asg if x in env]
        if outer:
            self.fail(s, "the body of the nodes(data=True) idiom assigns the outer variables %s" % outer)
        env2 = dict(env)
        env2[a] = ATTRS
        old = self.attr_body
        self.attr_body = True
        body = self.block(s.body, env2, [a], ind + "    ")
        self.attr_body = old
        return "bind (nx_for_node_attrs v_%s (fun v_%s => body_res (\n%s    %s))) (fun v_%s =>\n%s%s)" % (
            g.id, a, I, body, g.id, I, self.block(rest, env, loop, ind))

    def with_stmt(self, s, R, env, ind):
        # with open(p, "w") as f: json.dump(j, f)
        ok = len(s.items) == 1 and is_call(s.items[0].context_expr, "open") and is_name(s.items[0].optional_vars) \
            and len(s.body) == 1 and isinstance(s.body[0], ast.Expr)
        if ok:
            o, f, d = s.items[0].context_expr, s.items[0].optional_vars.id, s.body[0].value
            ok = len(o.args) == 2 and not o.keywords and const(o.args[1], "w") and is_call(d) and un(d.func) == "json.dump" \
                and len(d.args) == 2 and not d.keywords and is_name(d.args[1], f) and f not in env and f not in RESERVED
        if not ok:
            self.fail(s, "with statement other than `with open(p, \"w\") as f: json.dump(j, f)`")
        pre = []
        jc, jt = self.expr(d.args[0], env, pre)
        pc, pt = self.expr(o.args[0], env, pre)
        if jt != "json" or pt != "path":
            self.fail(s, "json.dump of %r to %r" % (jt, pt))
        return self.emit_event("EvJson %s %s" % (pc, jc), pre, R, env, ind)

    def assign(self, s, R, env, ind):
        I = ind
        if isinstance(s, ast.Assign):
            if len(s.targets) != 1:
                self.fail(s, "chained assignment")
            t, v, decl = s.targets[0], s.value, None
        else:
            t, v = s.target, s.value
            if not is_name(t):
                self.fail(s, "annotated target")
            decl = self.ann(s.annotation)
        # ---- calls of translated functions
        if is_call(v) and is_name(v.func) and v.func.id in SIGS:
            f = v.func.id
            sig = SIGS[f]
            pre = []
            code = self.gen_call(f, v, env, pre)
            if sig["io"]:
                self.fail(s, "binding the result of a file-writing function")
            if isinstance(t, ast.Tuple):
                pat, bs = self.unpack(t, sig["ret"], s)
                for x, xt in bs.items():
                    self.set_var(env, x, xt, s)
                for i, e in enumerate(t.elts):
                    if is_name(e) and i < len(sig.get("fresh", ())) and sig["fresh"][i]:
                        self.fresh_locals.add(e.id)
                return self.wrap(pre, "bind (%s) (fun '%s =>\n%s%s)" % (code, pat, I, R(env)), I)
            if not is_name(t):
                self.fail(s, "target of a call")
            self.set_var(env, t.id, sig["ret"], s)
            return self.wrap(pre, "bind (%s) (fun v_%s =>\n%s%s)" % (code, t.id, I, R(env)), I)
        if isinstance(t, ast.Name):
            # x = d.pop(k)
            if is_call(v) and is_attr(v.func, "pop") and is_name(v.func.value) and len(v.args) == 1 and not v.keywords:
                d = v.func.value.id
                dt = env.get(d)
                if not (isinstance(dt, tuple) and dt[0] == "dict" and d in self.M and d not in self.params):
                    self.fail(s, "pop on something else than a local dict")
                pre = []
                kc, kt = self.expr(v.args[0], env, pre)
                if kt != "str" or t.id == d:
                    self.fail(s, "pop key")
                self.set_var(env, t.id, dt[1], s)
                return self.wrap(pre, "bind (dict_pop %s v_%s) (fun '(v_%s, v_%s) =>\n%s%s)" % (kc, d, t.id, d, I, R(env)), I)
            pre = []
            want = decl if decl is not None else self.decl.get(t.id)
            c, ty = self.expr(v, env, pre, want)
            if is_name(v) and not immutable(ty):
                self.fail(s, "aliasing a mutable value")
            if want is not None:
                if unify(ty, want) is None:
                    self.fail(s, "value of type %r for the annotation %r" % (ty, want))
                ty = unify(ty, want)
            if self.is_fresh_rhs(v):
                self.fresh_locals.add(t.id)
            else:
                self.fresh_locals.discard(t.id)
            self.set_var(env, t.id, ty, s)
            if pre and pre[-1][0] == c:
                last = pre.pop()
                return self.wrap(pre, "bind (%s) (fun v_%s =>\n%s%s)" % (last[1], t.id, I, R(env)), I)
            if "?" in repr(ty):      # an empty literal: typed by its later uses (Coq infers); `unit` elements when never used
                asc = "" if t.id in self.loaded else " : %s" % gty(ty)
            else:
                asc = " : %s" % gty(ty) if want is not None else ""
            return self.wrap(pre, "let v_%s%s := %s in\n%s%s" % (t.id, asc, c, I, R(env)), I)
        if isinstance(t, ast.Attribute):
            # metadata.related_objects = [{...}]
            if is_name(t.value) and env.get(t.value.id) == "meta" and t.attr == "related_objects" and t.value.id not in self.params \
               and un(v) == REL_SEG_LITERAL:
                return "let v_%s := GeffMeta true in\n%s%s" % (t.value.id, I, R(env))
            self.fail(s, "assignment to an attribute")
        if isinstance(t, ast.Subscript):
            if not is_name(t.value):
                self.fail(s, "item assignment through something else than a local variable")
            r = t.value.id
            if r not in env or r in self.params:
                self.fail(s, "item assignment on a parameter / unknown variable")
            if r not in self.fresh_locals and not (self.attr_body and env[r] == ATTRS):
                self.fail(s, "item assignment on a value the function does not own")
            dt = env[r]
            pre = []
            if dt == "zarr":
                vc, vt = self.expr(v, env, pre)
                if vt != "ndarray":
                    self.fail(s, "zarr item assignment of %r" % (vt,))
                if isinstance(t.slice, ast.Slice) and t.slice.lower is None and t.slice.upper is None and t.slice.step is None:
                    return self.wrap(pre, "bind (zarr_setall v_%s %s) (fun v_%s =>\n%s%s)" % (r, vc, r, I, R(env)), I)
                sc, st = self.expr(t.slice, env, pre)
                if st != L(SLICE):
                    self.fail(s, "zarr index of type %r" % (st,))
                return self.wrap(pre, "bind (zarr_setitem v_%s %s %s) (fun v_%s =>\n%s%s)" % (r, sc, vc, r, I, R(env)), I)
            if isinstance(dt, tuple) and dt[0] == "dict":
                vc, vt = self.expr(v, env, pre)       # Python: right-hand side first, then the key
                if is_name(v) and not immutable(vt) and v.id in self.M:
                    self.fail(s, "storing a variable that is modified in place")
                kc, kt = self.expr(t.slice, env, pre)
                kc, kt = self.as_type(kc, kt, "str", pre, s)
                vc, vt = self.coerce(vc, vt, dt[1], s)
                env[r] = D(vt)
                return self.wrap(pre, "let v_%s := set %s %s v_%s in\n%s%s" % (r, kc, vc, r, I, R(env)), I)
            self.fail(s, "item assignment on %r" % (dt,))
        self.fail(s, "assignment")

    def unpack(self, t, ty, node):
        if not (isinstance(ty, tuple) and ty[0] == "tuple" and len(ty[1]) == len(t.elts) and all(is_name(e) for e in t.elts)):
            self.fail(node, "unpacking against %r" % (ty,))
        names = [e.id for e in t.elts]
        if len(set(names)) != len(names) or any(x in RESERVED or x in self.params for x in names):
            self.fail(node, "unpacking targets")
        return "(%s)" % ", ".join("v_" + x for x in names), dict(zip(names, ty[1]))

    def expr_stmt(self, s, R, env, ind):
        I = ind
        v = s.value
        if not isinstance(v, ast.Call):
            self.fail(s, "expression statement")
        f = v.func
        # ---- file-writing functions of this translation
        if is_name(f) and f.id in SIGS:
            pre = []
            code = self.gen_call(f.id, v, env, pre)
            if not SIGS[f.id]["io"] or SIGS[f.id]["ret"] != "unit":
                self.fail(s, "call of %s as a statement" % f.id)
            env["_io"] = L("event")
            return self.wrap(pre, "bind (%s) (fun '(_, t_io) =>\n%slet v__io := v__io ++ t_io in\n%s%s)" % (code, I, I, R(env)), I)
        # ---- in-place list methods
        if isinstance(f, ast.Attribute) and f.attr in MUT_METHODS and is_name(f.value):
            x, m = f.value.id, f.attr
            if x not in env or x in self.params or x not in self.fresh_locals:
                self.fail(s, "in-place modification of a value the function does not own")
            xt = env[x]
            if not (isinstance(xt, tuple) and xt[0] == "list") or v.keywords:
                self.fail(s, ".%s on %r" % (m, xt))
            pre = []
            if m == "insert":
                if not (len(v.args) == 2 and const(v.args[0], 0)):
                    self.fail(s, "insert at a position other than 0")
                ac, at = self.expr(v.args[1], env, pre)
                u = unify(L(at), xt)
                code = "py_insert0 %s v_%s" % (ac, x)
            elif len(v.args) == 1:
                ac, at = self.expr(v.args[0], env, pre)
                if m == "append":
                    if is_name(v.args[0]) and not immutable(at) and v.args[0].id not in self.M:
                        pass
                    u = unify(L(at), xt)
                    code = "v_%s ++ [%s]" % (x, ac)
                else:
                    if at == "colspec":
                        ac, at = self.as_type(ac, at, L("str"), pre, s)
                    u = unify(at, xt)
                    code = "v_%s ++ %s" % (x, ac)
            else:
                self.fail(s, ".%s arguments" % m)
            if u is None:
                self.fail(s, ".%s of %r on %r" % (m, at, xt))
            env[x] = u
            return self.wrap(pre, "let v_%s := %s in\n%s%s" % (x, code, I, R(env)), I)
        # ---- writers
        pre = []
        E = lambda x: self.expr(x, env, pre)
        if isinstance(f, ast.Attribute) and f.attr == "to_csv" and len(v.args) == 1:
            kw = self.kwargs(v, ["index"])
            (dc, dt), (pc, pt) = E(f.value), E(v.args[0])
            if dt == "table" and pt == "path" and const(kw["index"], False):
                return self.emit_event("EvCsv %s %s" % (pc, dc), pre, R, env, ind)
        if un(f) == "tifffile.imwrite" and len(v.args) == 2:
            kw = self.kwargs(v, ["compression"])
            (pc, pt), (ac, at) = E(v.args[0]), E(v.args[1])
            pc, pt = self.as_type(pc, pt, "path", pre, s)
            if at == "ndarray" and const(kw["compression"], "deflate"):
                return self.emit_event("EvTif %s %s" % (pc, ac), pre, R, env, ind)
        if un(f) == "setup_zarr_group" and len(v.args) == 1:
            kw = self.kwargs(v, ["zarr_format", "mode"])
            (pc, pt), (fc, ft), (mc, mt) = E(v.args[0]), E(kw["zarr_format"]), E(kw["mode"])
            if (pt, ft, mt) == ("path", "int", "str"):
                return self.emit_event("EvZarrGroup %s %s %s" % (pc, fc, mc), pre, R, env, ind)
        if un(f) == "geff.write" and not v.args:
            names = ["graph", "store", "metadata", "axis_names", "axis_types", "axis_scales", "overwrite", "zarr_format"]
            kw = self.kwargs(v, names)
            xs = [E(kw[k]) for k in names]
            want = ["graph", "path", "meta", L("str"), L("str"), L("float"), "bool", "int"]
            if all(unify(t, w) is not None for (_, t), w in zip(xs, want)):
                g, p, m, an, at, sc, ow, zf = [par_code(c) for c, _ in xs]
                return self.emit_event("EvGeff %s %s %s %s %s %s %s %s" % (p, g, m, an, at, sc, ow, zf), pre, R, env, ind)
        if un(f) == "np.save" and len(v.args) == 2 and not v.keywords:
            (pc, pt), (ac, at) = E(v.args[0]), E(v.args[1])
            ac, at = self.as_type(ac, at, "ndarray", pre, s)
            if pt == "path":
                return self.emit_event("EvNpy %s %s" % (pc, ac), pre, R, env, ind)
        self.fail(s, "expression statement")

    # ---------------------------------------------------------------- functions / modules
    def function(self, fn, fname):
        sig = SIGS[fname]
        self.fname, self.sig, self.tmp = fname, sig, 0
        self.decl, self.fresh_locals, self.attr_body = {}, set(), False
        a = fn.args
        if a.vararg or a.kwarg or a.kwonlyargs or a.posonlyargs:
            self.fail(fn, "signature")
        decs = [un(d) for d in fn.decorator_list]
        if decs != (["classmethod"] if sig.get("classmethod") else []):
            self.fail(fn, "decorators")
        pnames = [x.arg for x in a.args]
        if pnames != sig["order"]:
            self.fail(fn, "parameters %r differ from the signature table %r" % (pnames, sig["order"]))
        defaults = dict(zip(pnames[len(pnames) - len(a.defaults):], a.defaults))
        if set(defaults) != set(sig["defaults"]):
            self.fail(fn, "defaults differ from the signature table")
        for p, d in defaults.items():
            if not const(d, sig["defaults"][p]) and not (sig["defaults"][p] is None and const_none(d)):
                self.fail(fn, "default of %s is not %r" % (p, sig["defaults"][p]))
        body = self.strip_doc(fn.body)
        self.params = set(pnames)
        env = {}
        for p in pnames:
            if p in sig["static"]:
                env[p] = ("static", sig["static"][p])
        for p, t in sig["params"]:
            env[p] = t
        self.M = set()
        if fname == "__init__":
            body = self.init_prefix(fn, body)
            env["self"] = "features"
        body = self.prune(body, {p: env[p] for p in sig["static"]})
        self.check_aliases(body, [p for p in pnames])
        self.loaded = {n.id for st in body for n in ast.walk(st) if isinstance(n, ast.Name) and isinstance(n.ctx, ast.Load)}
        if sig["io"]:
            env["_io"] = L("event")
        code = self.block(body, env, None, "    ")
        if sig["io"]:
            code = "let v__io : list event := [] in\n    " + code
        if fname == "__init__":
            code = "let v_self := fd_new v_features v_time_key v_position_key v_tracklet_key v_lineage_key in\n    " + code
        rt = gty(sig["ret"])
        if sig["io"]:
            rt = "%s * list event" % par(rt)
        ps = " ".join("(v_%s : %s)" % (p, gty(t)) for p, t in sig["params"])
        self.translated[fname] = sig
        return "Definition %s %s : res (%s) :=\n  run (\n    %s).\n" % (self.gen_name(fname), ps, rt, code)

    def prune(self, stmts, senv):
        """remove the branches decided by the static parameters alone (they are not looked at any further)"""
        out = []
        for s in stmts:
            if isinstance(s, ast.If):
                t = self.simp(s.test, senv)
                if isinstance(t, bool):
                    out += self.prune(s.body if t else s.orelse, senv)
                    continue
                s = ast.copy_location(ast.If(test=s.test, body=self.prune(s.body, senv), orelse=self.prune(s.orelse, senv)), s)
            elif isinstance(s, ast.For):
                s = ast.copy_location(ast.For(target=s.target, iter=s.iter, body=self.prune(s.body, senv), orelse=s.orelse), s)
            out.append(s)
        return out

    def init_prefix(self, fn, body):
        """super().__init__(features) and the four attribute assignments, in this order of the source or any other"""
        if len(body) < 5 or un(body[0]) != "super().__init__(features)":
            self.fail(fn, "FeatureDict.__init__ does not start with super().__init__(features)")
        got = sorted(un(s) for s in body[1:5])
        want = sorted("self.%s = %s" % (k, k) for k in ("time_key", "position_key", "tracklet_key", "lineage_key"))
        if got != want:
            self.fail(fn, "FeatureDict.__init__: the attribute assignments are not the expected four")
        self.params = self.params | {"self"}
        return body[5:]

    def module(self, src, funcs, cls, imports):
        tree = ast.parse(src)
        top = self.strip_doc(tree.body)
        seen_imports = set()
        holder = top
        if cls is not None:
            cs = [n for n in top if isinstance(n, ast.ClassDef) and n.name == cls]
            if len(cs) != 1 or cs[0].decorator_list or cs[0].keywords:
                raise Unsupported("%s: class %s not found" % (self.rel, cls))
            if [un(b) for b in cs[0].bases] != ["dict[str, Feature]"]:
                self.fail(cs[0], "base classes")
            holder = self.strip_doc(cs[0].body)
        found = {}
        for n in holder:
            if isinstance(n, ast.FunctionDef) and n.name in funcs:
                if n.name in found:
                    self.fail(n, "function defined twice")
                found[n.name] = n
        for n in ast.walk(tree):
            if isinstance(n, (ast.Import, ast.ImportFrom)):
                seen_imports.add(un(n))
        for imp in imports:
            if imp not in seen_imports:
                raise Unsupported("%s: required import `%s` not found" % (self.rel, imp))
        # module constants used by the translated functions
        self.module_consts = {}
        for n in top:
            if isinstance(n, ast.Assign) and len(n.targets) == 1 and is_name(n.targets[0]) and n.targets[0].id in MODULE_CONSTS:
                val, code = MODULE_CONSTS[n.targets[0].id]
                if not const(n.value, val):
                    self.fail(n, "module constant %s is not %r" % (n.targets[0].id, val))
                self.module_consts[n.targets[0].id] = code
        # the names the table gives a meaning to must not be bound anywhere else
        allowed_defs = set(funcs) | ({cls} if cls else set())
        for n in ast.walk(tree):
            bound = set()
            if isinstance(n, (ast.FunctionDef, ast.ClassDef)):
                bound.add(n.name)
            elif isinstance(n, (ast.Import, ast.ImportFrom)):
                if un(n) not in imports and un(n) not in KNOWN_IMPORTS:
                    bound |= {(al.asname or al.name).split(".")[0] for al in n.names}
            elif isinstance(n, (ast.Assign, ast.AnnAssign, ast.AugAssign, ast.For, ast.NamedExpr, ast.withitem)):
                tg = n.targets if isinstance(n, ast.Assign) else [getattr(n, "target", None) or getattr(n, "optional_vars", None)]
                for t in tg:
                    if t is not None:
                        bound |= {x.id for x in ast.walk(t) if isinstance(x, ast.Name) and isinstance(x.ctx, ast.Store)}
            elif isinstance(n, ast.arg):
                bound.add(n.arg)
            clash = bound & ((RESERVED | set(SIGS)) - allowed_defs - {"dict", "str", "cls", "self"})
            clash -= (set(MODULE_CONSTS) | {"GRAPH_FILE"}) if isinstance(n, ast.Assign) and n in top else set()
            if clash and not (isinstance(n, ast.FunctionDef) and n.name in SIGS):
                raise Unsupported("%s:%s: the name %s is re-bound" % (self.rel, getattr(n, "lineno", "?"), sorted(clash)))
        out = []
        for f in funcs:
            if f not in found:
                raise Unsupported("%s: function %s not found" % (self.rel, f))
            out.append(self.function(found[f], f))
        return out


PREAMBLE = """From Coq Require Import ZArith List Bool.
From FT Require Import Base.Dict Model.PyRt2 Model.RoundTrip Model.PyRt7.
From FT Require Model.SubsetExport Gen.SubsetUtils_gen.
Import ListNotations.
Open Scope Z_scope.

Section Export.
(* uninterpreted: path arithmetic and the run-time type tests on scalar tokens *)
Variable remove_tilde : Z -> Z.
Variable path_resolve : Z -> Z.
Variable path_join : Z -> Z -> Z.
Variable np_is_float : Z -> bool.
Variable np_is_int : Z -> bool.
"""


def translate(repo=None):
    repo = repo or repo_root()
    defs, hashes = [], []
    tr = Translator("?")
    for rel, funcs, cls, imports in MODULES:
        path = os.path.join(repo, rel)
        src = open(path).read()
        hashes.append(hashlib.sha256(src.encode()).hexdigest()[:12])
        tr.rel = rel
        defs.append("(* ---- %s ---- *)" % rel)
        defs += tr.module(src, funcs, cls, imports)
    head = "(* generated by harness/translate_export.py from %s  sha256=%s *)" % (", ".join(m[0] for m in MODULES), ",".join(hashes))
    return head + "\n" + PREAMBLE + "\n" + "\n".join(defs) + "\nEnd Export.\n"


def regenerate(out=None, repo=None):
    """(re)write the generated file from the current sources; returns (ok, message).  Fail closed: on any error the
    file written does not type-check.  The file is rewritten only when its content (ignoring the header line) changes."""
    out = out or OUT
    try:
        txt = translate(repo)
        ok, msg = True, "translated"
    except Unsupported as e:
        txt = "(* TRANSLATION FAILED: %s *)\nDefinition translation_failed : False := I.\n" % str(e).replace("*)", "* )").replace("(*", "( *")
        ok, msg = False, str(e)
    except Exception as e:  # noqa: BLE001
        txt = "(* TRANSLATION FAILED: %s: %s *)\nDefinition translation_failed : False := I.\n" % (
            type(e).__name__, str(e).replace("*)", "* )").replace("(*", "( *"))
        ok, msg = False, "%s: %s" % (type(e).__name__, e)
    os.makedirs(os.path.dirname(out), exist_ok=True)
    old = open(out).read() if os.path.exists(out) else None
    strip = lambda t: "\n".join(t.split("\n")[1:]) if t else t
    if old is None or strip(old) != strip(txt):
        open(out, "w").write(txt)
    return ok, msg


if __name__ == "__main__":
    if len(sys.argv) > 1 and sys.argv[1] == "--print":
        sys.stdout.write(translate())
    else:
        print(regenerate())
