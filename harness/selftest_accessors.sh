#!/bin/bash
# Negative self-test of the accessor tie (translate_accessors.py + Proofs/AccessorsTie.v).
# Copies $VERIF_REPO/src (default /repo/src) to a scratch tree under /tmp, applies one change at a time,
# regenerates the embedding into a scratch Coq root (logical name SC, so the real Gen/Accessors_gen.v is never
# touched) and compiles a copy of the tie against it.  Expected: comment / docstring / local-rename / temporary-
# variable changes still compile; semantic changes make a tie theorem fail; a construct outside the idiom table
# (or a broken side condition) makes the translator refuse.
# Needs Model/PyRt10.vo and Proofs/DictLemmas.vo compiled.  Removes the scratch tree at the end.
set -u
S=/tmp/accessors_scratch
PY=/venv/bin/python
rm -rf $S; mkdir -p $S/coq/Gen $S/coq/Proofs
F=$S/src/funtracks
TR=$F/data_model/tracks.py
ST=$F/data_model/solution_tracks.py

ONLY=${1:-}      # optional: run only the cases whose label contains this text
run() {   # $1 = label, $2 = expectation (pass|fail|unsupported); the mutation has been applied to $S/src
  case "$1" in *"$ONLY"*) ;; *) return;; esac
  VERIF_REPO=$S $PY -c "import sys; sys.path.insert(0,'/verif/harness'); import translate_accessors as t; ok,msg=t.regenerate('$S/coq/Gen/Accessors_gen.v', '$S'); sys.stderr.write(msg+'\n')" 2>$S/err.txt
  local got
  if grep -q "TRANSLATION FAILED" $S/coq/Gen/Accessors_gen.v; then got=unsupported
  else
    sed 's/^From FT Require Import Gen.Accessors_gen\.$/From SC Require Import Gen.Accessors_gen./' /verif/coq/Proofs/AccessorsTie.v > $S/coq/Proofs/AccessorsTie.v
    grep -q "^From SC Require Import Gen.Accessors_gen\.$" $S/coq/Proofs/AccessorsTie.v || { echo "selftest: import line of AccessorsTie.v not recognised"; exit 2; }
    ( cd $S/coq && timeout 600 coqc -Q /verif/coq FT -Q . SC Gen/Accessors_gen.v >$S/out.txt 2>&1 \
        && timeout 900 coqc -Q /verif/coq FT -Q . SC Proofs/AccessorsTie.v >>$S/out.txt 2>&1 ) && got=pass || got=fail
  fi
  local detail=""
  [ $got = fail ] && detail=$(grep -m1 -A2 "^File" $S/out.txt | tr '\n' ' ' | cut -c1-150)
  [ $got = unsupported ] && detail=$(head -1 $S/err.txt | cut -c1-190)
  printf "%-72s expected %-11s got %-11s %s\n" "$1" "$2" "$got" "$detail"
  [ "$got" = "$2" ] || FAILED=1
}
fresh() { rm -rf $S/src; mkdir -p $S/src; cp -r ${VERIF_REPO:-/repo}/src/funtracks $S/src/funtracks; }
# edit <file> <old text> <new text>: exact, single replacement (the self-test fails loudly if the source moved on)
edit() { $PY - "$1" "$2" "$3" <<'EOF'
import sys
p, a, b = sys.argv[1:4]
t = open(p).read()
if t.count(a) != 1:
    sys.stderr.write("selftest: expected exactly one occurrence of %r in %s, found %d\n" % (a, p, t.count(a))); sys.exit(3)
open(p, "w").write(t.replace(a, b))
EOF
  [ $? = 0 ] || { echo "selftest: mutation could not be applied ($1)"; FAILED=1; }
}
FAILED=0

# ---------------------------------------------------------------- must keep compiling
fresh; run "unchanged copy" pass
fresh; edit $TR "        \"\"\"Get the pixels corresponding to each node in the nodes list." "        \"\"\"The pixels of one node."
       edit $TR "        \"\"\"Set the given pixels in the segmentation to the given value." "        \"\"\"Write a value."
       edit $TR "        return int(self.get_times([node])[0])" "        # one node only
        return int(self.get_times([node])[0])  # the time as an int"
       edit $TR "        self.segmentation[pixels] = value" "        # in place
        self.segmentation[pixels] = value"
       run "comment / docstring changes only" pass
fresh; $PY - $TR <<'EOF'
import re, sys
tr = sys.argv[1]
t = open(tr).read()
a = t.index("    def get_pixels("); b = t.index("    def set_pixels(")
body = re.sub(r"\btime\b", "frame_no", t[a:b]); body = re.sub(r"\bloc_pixels\b", "where", body); body = re.sub(r"\btime_array\b", "frames", body)
body = body.replace("segmentation[frame_no]", "segmentation[frame_no]").replace("self.get_frame_no(node)", "self.get_time(node)")
t = t[:a] + body + t[b:]
a = t.index("    def _set_nodes_attr("); b = t.index("    def get_node_attr(")
body = re.sub(r"\bvalue\b", "val", t[a:b]); body = re.sub(r"\bnode\b", "nd", body)
t = t[:a] + body + t[b:]
a = t.index("    def get_nodes_attr("); b = t.index("    def _get_nodes_attr(")
body = re.sub(r"\bnode\b", "nd", t[a:b])
t = t[:a] + body + t[b:]
open(tr, "w").write(t)
EOF
       run "local variables renamed (get_pixels, _set_nodes_attr, get_nodes_attr)" pass
fresh; edit $TR "        loc_pixels = np.nonzero(self.segmentation[time] == node)" "        frame = self.segmentation[time]
        mask = frame == node
        loc_pixels = np.nonzero(mask)"
       edit $TR "        return int(self.get_times([node])[0])" "        times = self.get_times([node])
        first = times[0]
        return int(first)"
       edit $TR "            return self.graph.nodes[node][attr]" "            view = self.graph.nodes[node]
            return view[attr]"
       edit $TR "        self.segmentation[pixels] = value" "        label = value
        self.segmentation[pixels] = label"
       run "temporary variables introduced" pass

# ---------------------------------------------------------------- must break the tie or be refused
fresh; edit $TR "    def get_time(self, node: Node) -> int:" "    @functools.lru_cache(maxsize=None)
    def get_time(self, node: Node) -> int:"
       run "get_time: memoised with lru_cache (decorator)" unsupported
fresh; edit $TR "    def get_pixels(self, node: Node) -> tuple[np.ndarray, ...] | None:" "    @staticmethod
    def get_pixels(self, node: Node) -> tuple[np.ndarray, ...] | None:"
       run "get_pixels: decorated" unsupported
fresh; edit $TR "        return int(self.get_times([node])[0])" "        return int(self.get_times([node])[0]) + 1"
       run "get_time: off by one" fail
fresh; edit $TR "        return self.get_nodes_attr(nodes, self.features.time_key, required=True)" "        return self.get_nodes_attr(nodes, self.features.time_key)"
       run "get_times: required dropped (missing time reads None)" fail
fresh; edit $TR "        time = self.get_time(node)
        loc_pixels" "        time = self.get_time(node) + 1
        loc_pixels"
       run "get_pixels: looks in frame time + 1" fail
fresh; edit $TR "        loc_pixels = np.nonzero(self.segmentation[time] == node)" "        loc_pixels = np.nonzero(self.segmentation[time + 1] == node)"
       run "get_pixels: indexes frame time + 1, reports time" fail
fresh; edit $TR "        loc_pixels = np.nonzero(self.segmentation[time] == node)" "        loc_pixels = np.nonzero(self.segmentation[time] != node)"
       run "get_pixels: compares != node" fail
fresh; edit $TR "        return (time_array, *loc_pixels)" "        return loc_pixels"
       run "get_pixels: spatial indices without the time array" unsupported
fresh; edit $TR "        time_array = np.ones_like(loc_pixels[0]) * time" "        time_array = np.ones_like(loc_pixels[0]) * (time + 1)"
       run "get_pixels: time array holds time + 1" fail
fresh; edit $TR "        time_array = np.ones_like(loc_pixels[0]) * time" "        time_array = np.zeros_like(loc_pixels[0])"
       run "get_pixels: time array of zeros" unsupported
fresh; edit $TR "        if self.segmentation is None:
            return None
        time = self.get_time(node)" "        time = self.get_time(node)"
       run "get_pixels: no check for a missing segmentation" fail
fresh; edit $TR "        if self.segmentation is None:
            return None
        time = self.get_time(node)" "        if self.segmentation is not None:
            return None
        time = self.get_time(node)"
       run "get_pixels: segmentation check negated" fail
fresh; edit $TR "        self.segmentation[pixels] = value" "        self.segmentation[pixels] = value + 1"
       run "set_pixels: writes value + 1" fail
fresh; edit $TR "        if self.segmentation is None:
            raise ValueError(\"Cannot set pixels when segmentation is None\")
        self.segmentation[pixels] = value" "        self.segmentation[pixels] = value"
       run "set_pixels: no check for a missing segmentation" fail
fresh; edit $TR "        self.segmentation[pixels] = value" "        self.segmentation[pixels[1:]] = value"
       run "set_pixels: time coordinate dropped from the index" unsupported
fresh; edit $TR "        self.segmentation[pixels] = value" "        if value > 0:
            self.segmentation[pixels] = value"
       run "set_pixels: zero is never written" unsupported
fresh; edit $TR "        if required:
            return self.graph.nodes[node][attr]
        else:" "        if not required:
            return self.graph.nodes[node][attr]
        else:"
       run "get_node_attr: required flipped in the body" fail
fresh; edit $TR "    def get_node_attr(self, node: Node, attr: str, required: bool = False):" "    def get_node_attr(self, node: Node, attr: str, required: bool = True):"
       run "get_node_attr: default required=True" fail
fresh; edit $TR "            return self.graph.nodes[node].get(attr, None)" "            return self.graph.nodes[node].get(attr, 0)"
       run "get_node_attr: missing attribute reads 0" unsupported
fresh; edit $TR "        return [self.get_node_attr(node, attr, required=required) for node in nodes]" "        return [self.get_node_attr(node, attr) for node in nodes]"
       run "get_nodes_attr: required not passed on" fail
fresh; edit $TR "        return [self.get_node_attr(node, attr, required=required) for node in nodes]" "        return [self.get_node_attr(node, attr, required=required) for node in reversed(nodes)]"
       run "get_nodes_attr: reversed order" unsupported
fresh; edit $TR "            value = list(value)
        self.graph.nodes[node][attr] = value

    def _set_nodes_attr" "            value = list(value)
        self.graph.nodes[node][attr + \"_\"] = value

    def _set_nodes_attr"
       run "_set_node_attr: writes under attr + \"_\"" unsupported
fresh; edit $TR "    def _set_node_attr(self, node: Node, attr: str, value: Any):
        if isinstance(value, np.ndarray):
            value = list(value)
        self.graph.nodes[node][attr] = value" "    def _set_node_attr(self, node: Node, attr: str, value: Any):
        self.graph.nodes[node][attr] = value"
       run "_set_node_attr: arrays not converted" fail
fresh; edit $TR "    def _set_node_attr(self, node: Node, attr: str, value: Any):
        if isinstance(value, np.ndarray):
            value = list(value)
        self.graph.nodes[node][attr] = value" "    def _set_node_attr(self, node: Node, attr: str, value: Any):
        if isinstance(value, np.ndarray):
            value = list(value)
        if node in self.graph:
            self.graph.nodes[node][attr] = value"
       run "_set_node_attr: silent for a missing node" unsupported
fresh; edit $TR "        for node, value in zip(nodes, values, strict=False):
            if isinstance(value, np.ndarray):
                value = list(value)
            self.graph.nodes[node][attr] = value" "        for node, value in zip(nodes, values, strict=False):
            if isinstance(value, np.ndarray):
                value = list(value)
            self.graph.nodes[node][self.features.time_key] = value"
       run "_set_nodes_attr: writes the time key" fail
fresh; edit $TR "        for node, value in zip(nodes, values, strict=False):
            if isinstance(value, np.ndarray):" "        for node, value in zip(nodes, values, strict=True):
            if isinstance(value, np.ndarray):"
       run "_set_nodes_attr: strict zip" unsupported
fresh; edit $TR "        for node, value in zip(nodes, values, strict=False):
            if isinstance(value, np.ndarray):
                value = list(value)
            self.graph.nodes[node][attr] = value" "        for node, value in zip(nodes, values, strict=False):
            if isinstance(value, np.ndarray):
                value = list(value)
            self.graph.nodes[node][attr] = value
            return"
       run "_set_nodes_attr: only the first node is written" unsupported
fresh; cat >> $ST <<'EOF'

    def get_pixels(self, node):
        return None
EOF
       run "SolutionTracks overrides get_pixels" unsupported
fresh; cat >> $TR <<'EOF'


Tracks.get_time = lambda self, node: 0
EOF
       run "Tracks.get_time rebound after the class" unsupported
fresh; edit $TR "    def get_time(self, node: Node) -> int:" "    @property
    def segmentation(self):
        return None

    def get_time(self, node: Node) -> int:"
       run "Tracks.segmentation turned into a property" unsupported

rm -rf $S
[ $FAILED = 0 ] && echo "selftest: all outcomes as expected" || { echo "selftest: UNEXPECTED OUTCOME"; exit 1; }
