"""Run exactly the source translators whose generated files are in the import closure of Props/<pid>.v.
A translator that refuses its source (fail closed) is reported to the caller; translators outside the
closure are not run, so a change elsewhere in the repository cannot disturb this property's check."""
import importlib

import common as C

# generated file -> (translator module, function name)
GEN2TR = {
    "History_gen": ("translate_history", "regenerate"),
    "UserActions_gen": ("translate_user_actions", "regenerate"),
    "Core_gen": ("translate_core", "regenerate"),
    "CoreQueries_gen": ("translate_core", "regenerate_queries"),
    "CoreTracks_gen": ("translate_core", "regenerate_tracks"),
    "CoreAnnot_gen": ("translate_core", "regenerate_annot"),
    "CoreActions_gen": ("translate_core", "regenerate_actions"),
    "Toggle_gen": ("translate_toggle", "regenerate"),
    "Annotators_gen": ("translate_annotators", "regenerate"),
    "CandGraph_gen": ("translate_candgraph", "regenerate"),
    "NameMapping_gen": ("translate_name_mapping", "regenerate"),
    "SubsetUtils_gen": ("translate_utils", "regenerate"),
    "LabelUtils_gen": ("translate_numpy_utils", "regenerate_labels"),
    "Relabel_gen": ("translate_numpy_utils", "regenerate_relabel"),
    "ImportPipeline_gen": ("translate_import", "regenerate"),
    "ExportPipeline_gen": ("translate_export", "regenerate"),
    "Ctor_gen": ("translate_ctor", "regenerate"),
    "Accessors_gen": ("translate_accessors", "regenerate"),
}


def run_for(pid):
    """returns [(generated file, ok, message)]"""
    out = []
    clo = C.vo_closure("Props/%s.v" % pid)
    for g in sorted({f.split("/")[-1][:-2] for f in clo if f.startswith("Gen/")}):
        if g not in GEN2TR:
            out.append((g, False, "no translator registered for Gen/%s.v" % g))
            continue
        modname, fn = GEN2TR[g]
        try:
            mod = importlib.import_module(modname)
            r = getattr(mod, fn)()
            if modname == "translate_user_actions":
                ok, msg = bool(mod.LAST.get("ok")), str(mod.LAST.get("msg"))
            else:
                ok, msg = bool(r[0]), str(r[1])
        except Exception as e:  # noqa: BLE001
            ok, msg = False, "%s: %s" % (type(e).__name__, e)
        out.append((g, ok, msg))
    return out
