"""Re-run every source translator (Gen/*.v) for $VERIF_REPO (default /repo); prints one line per translator."""
import sys

sys.path.insert(0, "/verif/harness")
import translate_candgraph
import translate_core
import translate_history
import translate_name_mapping
import translate_numpy_utils
import translate_toggle
import translate_user_actions
import translate_utils
import translate_annotators
import translate_export
import translate_import
import translate_ctor
import translate_accessors

ok_all = True
print("history", translate_history.regenerate())
translate_user_actions.regenerate()
print("user_actions", translate_user_actions.LAST)
ok_all &= bool(translate_user_actions.LAST.get("ok"))
for name, f in [("name_mapping", translate_name_mapping.regenerate), ("utils", translate_utils.regenerate),
                ("labels", translate_numpy_utils.regenerate_labels), ("relabel", translate_numpy_utils.regenerate_relabel),
                ("toggle", translate_toggle.regenerate), ("candgraph", translate_candgraph.regenerate),
                ("core", translate_core.regenerate), ("annotators", translate_annotators.regenerate),
                ("export", translate_export.regenerate), ("import", translate_import.regenerate),
                ("ctor", translate_ctor.regenerate), ("accessors", translate_accessors.regenerate)]:
    r = f()
    print(name, r)
    ok_all &= bool(r[0])
sys.exit(0 if ok_all else 1)
