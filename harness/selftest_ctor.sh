#!/bin/bash
# Negative self-test of the construction tie (translate_ctor.py + Proofs/CtorTie.v).
# Copies $VERIF_REPO/src (default /repo/src) to a scratch tree under /tmp, applies one change at a time,
# regenerates the embedding into a scratch Coq root (logical name SC, so the real Gen/Ctor_gen.v is never
# touched) and compiles a copy of the tie against it.  Expected: comment / docstring / local-rename / temporary-
# variable changes still compile; semantic changes make a tie theorem fail; a construct outside the idiom table
# (or a broken side condition) makes the translator refuse.  The callees (Gen/Toggle_gen.v) are the compiled ones of
# /verif/coq: no mutation below touches a function translate_toggle.py translates.
# Needs Model/PyRt9.vo, Gen/Toggle_gen.vo, Proofs/ToggleTieInv.vo compiled.  Removes the scratch tree at the end.
set -u
S=/tmp/ctor_scratch
PY=/venv/bin/python
rm -rf $S; mkdir -p $S/coq/Gen $S/coq/Proofs
F=$S/src/funtracks
TA=$F/annotators/_track_annotator.py
TR=$F/data_model/tracks.py

ONLY=${1:-}      # optional: run only the cases whose label contains this text
run() {   # $1 = label, $2 = expectation (pass|fail|unsupported); the mutation has been applied to $S/src
  case "$1" in *"$ONLY"*) ;; *) return;; esac
  VERIF_REPO=$S $PY -c "import sys; sys.path.insert(0,'/verif/harness'); import translate_ctor as t; ok,msg=t.regenerate('$S/coq/Gen/Ctor_gen.v', '$S'); sys.stderr.write(msg+'\n')" 2>$S/err.txt
  local got
  if grep -q "TRANSLATION FAILED" $S/coq/Gen/Ctor_gen.v; then got=unsupported
  else
    sed 's/^From FT Require Import Gen.Ctor_gen\.$/From SC Require Import Gen.Ctor_gen./' /verif/coq/Proofs/CtorTie.v > $S/coq/Proofs/CtorTie.v
    grep -q "^From SC Require Import Gen.Ctor_gen\.$" $S/coq/Proofs/CtorTie.v || { echo "selftest: import line of CtorTie.v not recognised"; exit 2; }
    ( cd $S/coq && timeout 600 coqc -Q /verif/coq FT -Q . SC Gen/Ctor_gen.v >$S/out.txt 2>&1 \
        && timeout 900 coqc -Q /verif/coq FT -Q . SC Proofs/CtorTie.v >>$S/out.txt 2>&1 ) && got=pass || got=fail
  fi
  local detail=""
  [ $got = fail ] && detail=$(grep -m1 -A2 "^File" $S/out.txt | tr '\n' ' ' | cut -c1-150)
  [ $got = unsupported ] && detail=$(head -1 $S/err.txt | cut -c1-190)
  printf "%-70s expected %-11s got %-11s %s\n" "$1" "$2" "$got" "$detail"
  [ "$got" = "$2" ] || FAILED=1
}
fresh() { rm -rf $S/src; mkdir -p $S/src; cp -r ${VERIF_REPO:-/repo}/src/funtracks $S/src/funtracks; }
# edit <file> <old text> <new text>: exact, single replacement (the self-test fails loudly if the source moved on)
edit() { $PY - "$1" "$2" "$3" <<'EOF'
import sys
p, a, b = sys.argv[1:4]
t = open(p).read()
if t.count(a) != 1:
    sys.stderr.write("selftest: expected exactly one occurrence of %r in %s, found %d\n" % (a, p, t.count(a))); sys.exit(3)
open(p, "w").write(t.replace(a, b))
EOF
  [ $? = 0 ] || { echo "selftest: mutation could not be applied ($1)"; FAILED=1; }
}
FAILED=0

# ---------------------------------------------------------------- must keep compiling
fresh; run "unchanged copy" pass
fresh; edit $TA "        \"\"\"Get the maximum ID value and a mapping from ids to nodes with that id." "        \"\"\"Scan the ids the nodes carry."
       edit $TA "        # Initialize tracklet bookkeeping if track IDs already exist in the graph" "        # (comment changed)"
       edit $TR "        # Get a sample node to check which attributes exist" "        # look at one node only"
       edit $TR "        \"\"\"Detect if a key already exists on the graph by sampling the first node." "        \"\"\"Is the key on the first node?"
       edit $TR "                # Add to FeatureDict if not already there" "                # register"
       edit $TR "                # enable it (compute it)" "                # compute"
       run "comment / docstring changes only" pass
fresh; $PY - $TA $TR <<'EOF'
import re, sys
ta, tr = sys.argv[1:3]
t = open(ta).read()
a = t.index("    def _get_max_id_and_map("); b = t.index("    def compute(")
body = re.sub(r"\b_id\b", "cur_id", t[a:b]); body = re.sub(r"\bmax_id\b", "best", body); body = re.sub(r"\bid_to_nodes\b", "groups", body)
body = re.sub(r"\bnode\b", "nd", body)
t = t[:a] + body + t[b:]
a = t.index("        # Initialize tracklet bookkeeping"); b = t.index("    def _get_max_id_and_map(")
body = re.sub(r"\bmax_id\b", "mx", t[a:b]); body = re.sub(r"\bid_to_nodes\b", "lookup", body)
t = t[:a] + body + t[b:]
open(ta, "w").write(t)
t = open(tr).read()
a = t.index("    def _check_existing_feature("); b = t.index("    def _setup_core_computed_features(")
body = re.sub(r"\bsample_node\b", "first", t[a:b]); body = re.sub(r"\bnode_attrs\b", "present", body)
t = t[:a] + body + t[b:]
a = t.index("        for key in core_computed_features:"); b = t.index("    def nodes(self):")
body = re.sub(r"\bkey\b", "fk", t[a:b]); body = re.sub(r"\bfeature\b", "feat", body)
t = t[:a] + body + t[b:]
open(tr, "w").write(t)
EOF
       run "local variables renamed in all four functions" pass
fresh; edit $TR "        if self.graph.number_of_nodes() == 0:
            return True" "        n_nodes = self.graph.number_of_nodes()
        if n_nodes == 0:
            return True"
       edit $TA "            id_to_nodes[_id].append(node)" "            member = node
            id_to_nodes[_id].append(member)"
       edit $TA "        return max_id, dict(id_to_nodes)" "        result = dict(id_to_nodes)
        return max_id, result"
       edit $TR "                self.annotators.activate_features([key])
            else:" "                one_key = [key]
                self.annotators.activate_features(one_key)
            else:"
       run "temporary variables introduced" pass

# ---------------------------------------------------------------- must break the tie
fresh; edit $TA "        max_id = 0
        for node in" "        max_id = 1
        for node in"
       run "_get_max_id_and_map: the maximum starts at 1" fail
fresh; edit $TA "            id_to_nodes[_id].append(node)" "            id_to_nodes[max_id].append(node)"
       run "_get_max_id_and_map: node filed under the running maximum" fail
fresh; edit $TA "            if _id > max_id:" "            if _id < max_id:"
       run "_get_max_id_and_map: minimum instead of maximum" fail
fresh; edit $TA "            id_to_nodes[_id].append(node)
            if _id > max_id:
                max_id = _id" "            if _id > max_id:
                max_id = _id
                id_to_nodes[_id].append(node)"
       run "_get_max_id_and_map: only record-setting nodes are filed" fail
fresh; edit $TA "        return max_id, dict(id_to_nodes)" "        return len(id_to_nodes), dict(id_to_nodes)"
       run "_get_max_id_and_map: returns the number of ids (len)" unsupported
fresh; edit $TR "        if self.graph.number_of_nodes() == 0:
            return True" "        if self.graph.number_of_nodes() == 0:
            return False"
       run "_check_existing_feature: empty graph -> False" fail
fresh; edit $TR "        return key in node_attrs" "        return key not in node_attrs"
       run "_check_existing_feature: negated answer" fail
fresh; edit $TR "        if self.graph.number_of_nodes() == 0:
            return True

" ""
       run "_check_existing_feature: no guard for the empty graph" fail
fresh; edit $TR "            if self._check_existing_feature(key):
                # Add" "            if not self._check_existing_feature(key):
                # Add"
       run "_setup loop: activate / compute branches swapped" fail
fresh; edit $TR "                self.annotators.activate_features([key])
            else:" "            else:"
       run "_setup loop: existing feature registered but not activated" fail
fresh; edit $TR "                # enable it (compute it)
                self.enable_features([key])" "                # enable it (compute it)
                self.annotators.activate_features([key])"
       run "_setup loop: missing feature activated without computing" fail
fresh; edit $TA "            max_id, id_to_nodes = self._get_max_id_and_map(self.lineage_key)" "            max_id, id_to_nodes = self._get_max_id_and_map(self.tracklet_key)"
       run "__init__: lineage lookup filled from the tracklet key" fail
fresh; edit $TA "            self.max_lineage_id = max_id
" ""
       run "__init__: max_lineage_id left at 0" fail
fresh; edit $TA "        if tracks.graph.number_of_nodes() > 0:
            max_id, id_to_nodes = self._get_max_id_and_map(self.tracklet_key)" "        if tracks.graph.number_of_nodes() > 1:
            max_id, id_to_nodes = self._get_max_id_and_map(self.tracklet_key)"
       run "__init__: a one-node graph is not scanned for tracklets" fail

# ---------------------------------------------------------------- must be refused by the translator
fresh; edit $TA "            if _id is None:" "            if not _id:"
       run "_get_max_id_and_map: id 0 skipped too (truthiness test)" unsupported
fresh; edit $TA "        for node in self.tracks.nodes():" "        for node in self.tracks.nodes()[1:]:"
       run "_get_max_id_and_map: first node skipped (slice)" unsupported
fresh; edit $TR "        for key in core_computed_features:" "        for key in reversed(core_computed_features):"
       run "_setup loop: reversed order" unsupported
fresh; edit $TR "                self.enable_features([key])" "                self.enable_features([key], recompute=False)"
       run "_setup loop: enable without computing (keyword)" unsupported
fresh; edit $TR "    def enable_features(self, feature_keys: list[str], recompute: bool = True) -> None:" "    def enable_features(self, feature_keys: list[str], recompute: bool = False) -> None:"
       run "enable_features: default recompute=False" unsupported
fresh; edit $TR "        sample_node = next(iter(self.graph.nodes()))" "        sample_node = list(self.graph.nodes())[-1]"
       run "_check_existing_feature: samples the last node" unsupported
fresh; edit $TR "                self.enable_features([key])" "                self.enable_features([key])
        self.disable_features(core_computed_features[:1])"
       run "_setup: a statement after the loop" unsupported
fresh; edit $TA "        super().__init__(tracks, feats)

        self.tracklet_id_to_nodes" "        super().__init__(tracks, feats)
        self.tracklet_key, self.lineage_key = self.lineage_key, self.tracklet_key

        self.tracklet_id_to_nodes"
       run "__init__: keys swapped in the untranslated head" unsupported
fresh; edit $TR "    def nodes(self):
        return np.array(self.graph.nodes())" "    def nodes(self):
        return np.array(sorted(self.graph.nodes()))"
       run "Tracks.nodes: sorted ids (side condition)" unsupported
fresh; cat >> $F/data_model/solution_tracks.py <<'EOF'

    def _check_existing_feature(self, key: str) -> bool:
        return False
EOF
       run "SolutionTracks overrides _check_existing_feature" unsupported

rm -rf $S
[ $FAILED = 0 ] && echo "selftest: all outcomes as expected" || { echo "selftest: UNEXPECTED OUTCOME"; exit 1; }
