#!/bin/sh
# usage: seeded_try.sh <Cxx> <worktree> [check ids...]  -- confirm a seeded change and run checks against it (without touching /repo)
P=$1; WT=$2; shift 2; CHECKS="${@:-$P}"
cd "$WT" || exit 2
git diff -- src > /tmp/seed_$P.diff
echo "== patch: $(git diff --stat -- src | tail -1)"
echo "== demo WITH change:"; PYTHONPATH=$WT/src /venv/bin/python demo_$P.py 2>&1 | grep -v conda | tail -3; echo "exit=$?"
git stash -q -- src
echo "== demo WITHOUT change:"; PYTHONPATH=$WT/src /venv/bin/python demo_$P.py 2>&1 | grep -v conda | tail -2
git stash pop -q
echo "== test suite WITH change:"; PYTHONPATH=$WT/src /venv/bin/python -m pytest -q -p no:cacheprovider -x 2>&1 | tail -1
for c in $CHECKS; do echo "== ./check $c against the change:"; (cd /verif && VERIF_REPO=$WT ./check $c | tail -4 | cut -c1-300); done
